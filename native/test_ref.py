"""
Self-test for ref.py.

    /venv/bin/python /verif/native/test_ref.py [-v]

Exit status 0 unless ref.py is internally inconsistent.  Differences between
ref.py and the project under judgement (torrentfile / pyben) are *reported*
as lines starting with 'DISAGREE:' and never change the exit status.
Without torrentfile / pyben (e.g. under python3-vt) those parts are skipped.
-v prints every individual disagreeing case instead of one line per kind.
"""

import hashlib
import os
import random
import shutil
import sys
import tempfile

HERE = os.path.dirname(os.path.abspath(__file__))
sys.path.insert(0, HERE)

import ref  # noqa: E402

VERBOSE = "-v" in sys.argv[1:]
FAILURES = []
CHECKS = [0]
DISAGREEMENTS = {}  # (who, category) -> [(case, detail)]
NOTES = {}


def check(cond, msg):
    CHECKS[0] += 1
    if not cond:
        FAILURES.append(msg)
        print("FAIL: " + msg)


def raises(exc, func, *args, **kw):
    try:
        func(*args, **kw)
    except exc as err:
        return err
    except Exception as err:  # wrong class
        return ("wrong", err)
    return None


def disagree(who, category, case, detail=""):
    DISAGREEMENTS.setdefault((who, category), []).append((case, detail))
    if VERBOSE:
        print("DISAGREE: %s | %s | %s | %s" % (who, category, case, detail))


def note(who, category, case):
    NOTES.setdefault((who, category), []).append(case)


def rnd(seed, n):
    return random.Random(seed).randbytes(n)


# --------------------------------------------------------------------------
# A/B/C  bencode
# --------------------------------------------------------------------------


def random_value(rng, depth=0):
    kind = rng.randrange(4 if depth < 4 else 2)
    if kind == 0:
        return rng.choice([0, 1, -1, 255, -256, 10**30, -(10**30),
                           rng.randrange(-10**6, 10**6)])
    if kind == 1:
        return rng.randbytes(rng.randrange(0, 40))
    if kind == 2:
        return [random_value(rng, depth + 1) for _ in range(rng.randrange(4))]
    return {
        rng.randbytes(rng.randrange(0, 6)): random_value(rng, depth + 1)
        for _ in range(rng.randrange(5))
    }


def sort_deep(value):
    if isinstance(value, dict):
        return {k: sort_deep(value[k]) for k in sorted(value)}
    if isinstance(value, list):
        return [sort_deep(v) for v in value]
    return value


def key_orders(value):
    """list of key lists, to compare dict order as well as content"""
    out = []
    if isinstance(value, dict):
        out.append(list(value))
        for v in value.values():
            out.extend(key_orders(v))
    elif isinstance(value, list):
        for v in value:
            out.extend(key_orders(v))
    return out


def test_bencode():
    rng = random.Random(1234)
    for i in range(300):
        val = random_value(rng)
        enc = ref.bencode(val)
        dec = ref.bdecode(enc)
        check(dec == val, "roundtrip value %d" % i)
        check(key_orders(dec) == key_orders(sort_deep(val)),
              "strict decode yields keys in sorted (= file) order %d" % i)
        check(ref.bencode(dec) == enc, "canonical re-encode %d" % i)
        raw = ref.bencode(val, sort_keys=False)
        dec2 = ref.bdecode(raw, strict=False)
        check(dec2 == val, "non-strict roundtrip %d" % i)
        check(key_orders(dec2) == key_orders(val),
              "non-strict decode keeps file order %d" % i)
        check(ref.bencode(dec2, sort_keys=False) == raw,
              "insertion-order re-encode %d" % i)
        if raw != enc:
            check(isinstance(raises(ValueError, ref.bdecode, raw),
                             ref.NonCanonical),
                  "unsorted encoding rejected by strict %d" % i)
    # fixed vectors (BEP 3)
    vectors = [
        (b"4:spam", b"spam"), (b"i3e", 3), (b"i-3e", -3), (b"i0e", 0),
        (b"l4:spam4:eggse", [b"spam", b"eggs"]),
        (b"d3:cow3:moo4:spam4:eggse", {b"cow": b"moo", b"spam": b"eggs"}),
        (b"d4:spaml1:a1:bee", {b"spam": [b"a", b"b"]}),
        (b"0:", b""), (b"le", []), (b"de", {}),
    ]
    for enc, val in vectors:
        check(ref.bdecode(enc) == val, "vector decode %r" % enc)
        check(ref.bencode(val) == enc, "vector encode %r" % enc)
    # encoder input types
    check(ref.bencode("é") == b"2:\xc3\xa9", "str is UTF-8 encoded")
    check(ref.bencode(bytearray(b"ab")) == b"2:ab", "bytearray")
    check(ref.bencode((1, 2)) == b"li1ei2ee", "tuple")
    check(ref.bencode({"b": 1, b"a": 2}) == b"d1:ai2e1:bi1ee",
          "mixed str/bytes keys sorted by raw bytes")
    check(ref.bencode({"é": 1, "z": 2, "\U0001F600": 3}) ==
          b"d1:zi2e2:\xc3\xa9i1e4:\xf0\x9f\x98\x80i3ee", "raw byte key order")
    check(ref.bencode({"b": {"d": 1, "c": 2}, "a": 0}, sort_keys=False) ==
          b"d1:bd1:di1e1:ci2ee1:ai0ee", "sort_keys=False at every level")
    for bad in (True, False, None, 1.5, {1: 2}, [object()], {"a": True}):
        check(isinstance(raises(TypeError, ref.bencode, bad), TypeError),
              "bencode rejects %r with TypeError" % (bad, ))
    check(isinstance(raises(ValueError, ref.bencode, {"a": 1, b"a": 2}),
                     ValueError), "colliding keys rejected")
    # deep nesting must not hit the recursion limit in the decoder
    deep = b"l" * 5000 + b"e" * 5000
    val = ref.bdecode(deep)
    depth = 0
    while val:
        val = val[0]
        depth += 1
    check(depth == 4999, "deep nesting decoded iteratively")


STRICT_CASES = [
    # (input, strict -> class or None(ok), nonstrict -> class or None(ok))
    (b"d1:bi1e1:ai2ee", ref.NonCanonical, None),  # unsorted
    (b"d1:ai1e1:ai2ee", ref.NonCanonical, None),  # duplicate
    (b"d2:aai1e1:bi2ee", None, None),  # 'aa' < 'b' raw order
    (b"d1:Bi1e1:ai2ee", None, None),  # uppercase before lowercase
    (b"d1:ai1e1:Bi2ee", ref.NonCanonical, None),
    (b"d1:ad1:zi1e1:yi2eee", ref.NonCanonical, None),  # nested unsorted
    (b"ld1:bi1e1:ai2eee", ref.NonCanonical, None),  # inside list
    (b"i01e", ref.NonCanonical, ref.MalformedBencode),
    (b"i00e", ref.NonCanonical, ref.MalformedBencode),
    (b"i-01e", ref.NonCanonical, ref.MalformedBencode),
    (b"i-0e", ref.NonCanonical, ref.MalformedBencode),
    (b"ie", ref.NonCanonical, ref.MalformedBencode),
    (b"i-e", ref.NonCanonical, ref.MalformedBencode),
    (b"01:a", ref.NonCanonical, ref.MalformedBencode),
    (b"00:", ref.NonCanonical, ref.MalformedBencode),
    (b"i1ei2e", ref.NonCanonical, ref.MalformedBencode),  # trailing
    (b"dee", ref.NonCanonical, ref.MalformedBencode),
    (b"4:spam\n", ref.NonCanonical, ref.MalformedBencode),
    (b"di1ei2ee", ref.NonCanonical, ref.MalformedBencode),  # int key
    (b"dlei2ee", ref.NonCanonical, ref.MalformedBencode),  # list key
    (b"", ref.NonCanonical, ref.MalformedBencode),  # truncated ...
    (b"i12", ref.NonCanonical, ref.MalformedBencode),
    (b"5:abc", ref.NonCanonical, ref.MalformedBencode),
    (b"5", ref.NonCanonical, ref.MalformedBencode),
    (b"l", ref.NonCanonical, ref.MalformedBencode),
    (b"d1:a", ref.NonCanonical, ref.MalformedBencode),
    (b"d1:ai1e", ref.NonCanonical, ref.MalformedBencode),
    (b"li1e", ref.NonCanonical, ref.MalformedBencode),
    (b"99999999999999999999999:a", ref.NonCanonical, ref.MalformedBencode),
    (b"x", ref.MalformedBencode, ref.MalformedBencode),  # garbage ...
    (b"e", ref.MalformedBencode, ref.MalformedBencode),
    (b"i1 e", ref.MalformedBencode, ref.MalformedBencode),
    (b"i+1e", ref.MalformedBencode, ref.MalformedBencode),
    (b"i1_0e", ref.MalformedBencode, ref.MalformedBencode),
    (b"i\xd9\xa1e", ref.MalformedBencode, ref.MalformedBencode),
    (b"i--1e", ref.MalformedBencode, ref.MalformedBencode),
    (b"1x:a", ref.MalformedBencode, ref.MalformedBencode),
    (b"-1:a", ref.MalformedBencode, ref.MalformedBencode),
    (b"d1:ae", ref.MalformedBencode, ref.MalformedBencode),  # key, no value
    (b"i0e", None, None),
    (b"i-1e", None, None),
    (b"i10e", None, None),
    (b"10:0123456789", None, None),
]


def test_strictness():
    for data, strict_exc, loose_exc in STRICT_CASES:
        for strict, want in ((True, strict_exc), (False, loose_exc)):
            got = raises(ValueError, ref.bdecode, data, strict)
            label = "bdecode(%r, strict=%s)" % (data, strict)
            if want is None:
                check(got is None, label + " accepted")
            else:
                check(type(got) is want,
                      label + " raises %s (got %r)" % (want.__name__, got))
                if type(got) is want:
                    check("offset" in str(got), label + " names an offset")
    check(issubclass(ref.NonCanonical, ValueError), "NonCanonical<ValueError")
    err = raises(ValueError, ref.bdecode, b"d1:bi1e1:ai2ee")
    check("offset 7" in str(err) and "b'a'" in str(err),
          "message says what and where: %s" % err)
    check(ref.bdecode(b"d1:ai1e1:ai2ee", strict=False) == {b"a": 2},
          "duplicate: last wins")
    check(isinstance(raises(TypeError, ref.bdecode, "i1e"), TypeError),
          "str input rejected")
    check(ref.bdecode(bytearray(b"i1e")) == 1, "bytearray input accepted")


def test_info_span():
    info = {"name": "x", "piece length": 16384, "pieces": rnd(1, 40),
            "length": 20000}
    meta = {"announce": "http://t", "info": info, "zz": [1, 2]}
    raw = ref.bencode(meta)
    span = ref.info_span(raw)
    check(span == ref.bencode(info), "info_span == re-encoding (canonical)")
    check(raw.count(span) == 1 and span in raw, "span is a slice of input")
    # non canonical info dict: the span keeps the original bytes
    loose = ref.bencode({"info": {"z": 1, "a": 2}, "a": 1}, sort_keys=False)
    span = ref.info_span(loose)
    check(span == b"d1:zi1e1:ai2ee", "non canonical span preserved")
    check(span != ref.bencode(ref.bdecode(loose, strict=False)[b"info"]),
          "re-encoding a non canonical info changes the bytes")
    # a nested / decoy 'info' must not confuse it
    tricky = ref.bencode({"a": {"info": 1}, "comment": "4:infoi7e",
                          "info": [1, {"info": 2}], "x": "info"})
    check(ref.info_span(tricky) == b"li1ed4:infoi2eee", "decoys ignored")
    dup = b"d4:infoi1e4:infoi2ee"
    check(ref.info_span(dup) == b"i2e", "duplicate info: last wins")
    check(isinstance(raises(KeyError, ref.info_span, b"d1:ai1ee"), KeyError),
          "missing info -> KeyError")
    for bad in (b"", b"i1e", b"d4:infoi1e", b"d4:infoi1eex", b"d4:infoe",
                b"di1ei2ee", b"d4:infoi01ee"):
        check(isinstance(raises(ValueError, ref.info_span, bad),
                         ref.MalformedBencode),
              "info_span rejects %r" % bad)
    check(hashlib.sha1(ref.info_span(raw)).digest() ==
          hashlib.sha1(ref.bencode(info)).digest(), "infohash agrees")


def test_to_text():
    root = rnd(2, 32)
    raw = {
        b"announce": b"http://x",
        b"info": {
            b"name": "é".encode(),
            b"pieces": b"abcdefghijklmnopqrst",  # valid UTF-8, stays bytes
            b"file tree": {
                b"piece layers": {b"f": {b"": {b"length": 3,
                                               b"pieces root": b"A" * 32}}},
                b"pieces": {b"": {b"length": 0}},
                b"\xff\xfe": {b"": {b"length": 0}},
            },
            b"files": [{b"path": [b"a", b"\xff"], b"length": 1}],
        },
        b"piece layers": {root: b"B" * 64, b"C" * 32: b"D" * 32},
    }
    txt = ref.to_text(raw)
    check(txt["announce"] == "http://x", "value decoded")
    check(txt["info"]["name"] == "é", "utf-8 decoded")
    check(txt["info"]["pieces"] == b"abcdefghijklmnopqrst", "pieces bytes")
    tree = txt["info"]["file tree"]
    check(tree["piece layers"]["f"][""]["pieces root"] == b"A" * 32,
          "directory named 'piece layers' handled as directory; root bytes")
    check(tree["pieces"] == {"": {"length": 0}}, "file named 'pieces'")
    check(b"\xff\xfe" in tree, "undecodable key left as bytes")
    check(txt["info"]["files"][0]["path"] == ["a", b"\xff"], "path elements")
    check(txt["piece layers"] == {root: b"B" * 64, b"C" * 32: b"D" * 32},
          "piece layers keys and values stay bytes")
    check(ref.to_text(txt) == txt, "to_text idempotent")
    check(ref.to_text({b"piece layers": {}}) == {"piece layers": {}},
          "empty piece layers")


# --------------------------------------------------------------------------
# D/E  hashing
# --------------------------------------------------------------------------


def pairwise_root(hashes):
    """layer by layer, neighbours paired"""
    layer = list(hashes)
    while len(layer) > 1:
        layer = [hashlib.sha256(layer[i] + layer[i + 1]).digest()
                 for i in range(0, len(layer), 2)]
    return layer[0]


def sizes_for(plen):
    return [0, 1, 16383, 16384, 16385, plen - 1, plen, plen + 1, 2 * plen,
            2 * plen + 1, 3 * plen, 5 * plen + 7]


PLENS = (16384, 32768, 65536)


def test_merkle():
    rng = random.Random(5)
    for exp in range(0, 8):
        hashes = [rng.randbytes(32) for _ in range(2**exp)]
        check(ref.merkle_root(hashes) == pairwise_root(hashes),
              "by-halves == pairwise for %d leaves" % len(hashes))
    check(ref.merkle_root([b"q" * 32]) == b"q" * 32, "single element")
    for bad in (0, 3, 5, 6, 12):
        check(isinstance(raises(ValueError, ref.merkle_root,
                                [bytes(32)] * bad), ValueError),
              "merkle_root rejects %d leaves" % bad)
    check(ref.leaf_hashes(b"") == [], "no leaves for empty data")
    data = rnd(6, 16384 * 2 + 5)
    check(ref.leaf_hashes(data) == [
        hashlib.sha256(data[:16384]).digest(),
        hashlib.sha256(data[16384:32768]).digest(),
        hashlib.sha256(data[32768:]).digest()
    ], "leaf hashes, short tail not extended")
    for bad in (0, 1, 16383, 16385, 3 * 16384, 8192, True, 16384.0):
        check(isinstance(raises(ValueError, ref.pieces_root, b"x", bad),
                         ValueError), "v2 piece length %r rejected" % (bad, ))
    for plen in PLENS + (2**18, ):
        bpp = plen // ref.BLOCK
        zero_piece = pairwise_root([ref.ZERO_HASH] * bpp)
        extra = [plen - 16384 + 1, 4 * plen, 4 * plen + 1, 7 * plen - 3,
                 8 * plen, 9 * plen]
        for size in sorted(set(sizes_for(plen) + extra)):
            data = rnd(size, size)
            label = "pl=%d size=%d" % (plen, size)
            root = ref.pieces_root(data, plen)
            layer = ref.piece_layer(data, plen)
            npieces = -(-size // plen)
            check(len(layer) == 32 * npieces, "layer length " + label)
            if size == 0:
                check(root is None and layer == b"", "empty file " + label)
                continue
            leaves = ref.leaf_hashes(data)
            n = len(leaves)
            # formulation 1 (task statement, first wording): complete the
            # piece layer, pad it with zero-piece roots to a power of two.
            if size > plen:
                nodes = []
                for j in range(npieces):
                    grp = leaves[j * bpp:(j + 1) * bpp]
                    nodes.append(
                        pairwise_root(grp + [ref.ZERO_HASH] *
                                      (bpp - len(grp))))
                check(b"".join(nodes) == layer, "piece layer nodes " + label)
                top = 1
                while top < npieces:
                    top *= 2
                f1 = pairwise_root(nodes + [zero_piece] * (top - npieces))
                # formulation 2: leaves rounded up to whole pieces, then to
                # the next power of two, all with zero hashes.
                cnt = npieces * bpp
                top2 = 1
                while top2 < cnt:
                    top2 *= 2
                f2 = pairwise_root(leaves + [ref.ZERO_HASH] * (top2 - n))
                check(f1 == root, "root == padded piece layer root " + label)
                check(f2 == root, "root == whole-piece leaf padding " + label)
                check(ref.layer_root(layer, plen) == root,
                      "layer_root(piece_layer) == pieces_root " + label)
            else:
                top = 1
                while top < n:
                    top *= 2
                f3 = pairwise_root(leaves + [ref.ZERO_HASH] * (top - n))
                check(f3 == root, "small file root " + label)
                if n == bpp:
                    check(layer == root, "exactly one full piece " + label)
                    check(ref.layer_root(layer, plen) == root,
                          "layer_root one piece " + label)
                elif top < bpp:
                    check(layer != root,
                          "short file: padded piece hash != root " + label)
    # a known value computed by hand: one block
    one = b"\x01" * 100
    check(ref.pieces_root(one, 65536) == hashlib.sha256(one).digest(),
          "single block file: root is the block hash")
    two = rnd(9, 16385)
    check(ref.pieces_root(two, 65536) == hashlib.sha256(
        hashlib.sha256(two[:16384]).digest() +
        hashlib.sha256(two[16384:]).digest()).digest(), "two block file")
    three = rnd(10, 16384 * 2 + 1)
    lv = ref.leaf_hashes(three)
    check(ref.pieces_root(three, 16384) == hashlib.sha256(
        hashlib.sha256(lv[0] + lv[1]).digest() +
        hashlib.sha256(lv[2] + bytes(32)).digest()).digest(),
        "three block file, pl=16K")
    check(ref.piece_layer(three, 16384) == b"".join(lv),
          "pl == block: piece layer is the leaf layer")


def test_v1_pieces():
    data = rnd(11, 100000)
    got = ref.v1_pieces([data[:7], b"", data[7:40000], data[40000:]], 32768)
    want = b"".join(hashlib.sha1(data[i:i + 32768]).digest()
                    for i in (0, 32768, 65536, 98304))
    check(got == want, "v1 pieces across chunk boundaries")
    check(ref.v1_pieces([], 16384) == b"", "empty list")
    check(ref.v1_pieces([b"", b""], 16384) == b"", "empty stream")
    check(ref.v1_pieces([b"a" * 16384], 16384) ==
          hashlib.sha1(b"a" * 16384).digest(), "exact piece, no empty tail")
    check(ref.v1_pieces([b"abc"], 5) == hashlib.sha1(b"abc").digest(),
          "any positive piece length allowed for v1")
    check(isinstance(raises(ValueError, ref.v1_pieces, [b"a"], 0),
                     ValueError), "piece length 0 rejected")


# --------------------------------------------------------------------------
# F/G  creators and recheck (internal)
# --------------------------------------------------------------------------


def lookup(tree, comps):
    node = tree
    for comp in comps:
        node = node[comp]
    return node


def test_trees(tmp):
    tree = {"b": {"y": b"2", "x": b"1", "empty": {}}, "a": b"0", "a-b": {
        "f": b"3"}, "a.txt": b"4", "Z": b"5", "é": b"6", "z": b"7"}
    files = ref.tree_files(tree)
    check([c for c, _ in files] == [["Z"], ["a"], ["a-b", "f"], ["a.txt"],
                                    ["b", "x"], ["b", "y"], ["z"],
                                    ["é"]], "tree_files order")
    check(b"".join(d for _, d in files) == b"50341276", "tree_files data")
    check(ref.tree_files(b"zz") == [([], b"zz")], "single payload")
    path = ref.write_tree(tmp, "t1", tree)
    check(os.path.isdir(path) and ref.read_tree(path) == tree,
          "write_tree/read_tree directory roundtrip")
    path = ref.write_tree(tmp, "t2", b"hello")
    check(os.path.isfile(path) and ref.read_tree(path) == b"hello",
          "write_tree/read_tree file roundtrip")
    for bad in ({"": b"x"}, {1: b"x"}):
        check(isinstance(raises(ValueError, ref.tree_files, bad), ValueError),
              "bad name %r rejected" % (bad, ))
    info = ref.ref_info("t1", tree, 16384, 2)
    check(list(info["file tree"]) == ["Z", "a", "a-b", "a.txt", "b", "z",
                                      "é"], "file tree key order")
    check("empty" not in info["file tree"]["b"], "empty directory pruned")
    check(ref.bdecode(ref.bencode(info, sort_keys=False)) is not None,
          "ref_info is canonical even without sorting")


def test_ref_info():
    plen = 32768
    tree = {"a": rnd(20, plen + 5), "b": rnd(21, 10), "c": {
        "d": rnd(22, 3 * plen)}, "e": b"", "f": rnd(23, 100)}
    a, b, d, f = tree["a"], tree["b"], tree["c"]["d"], tree["f"]
    v1 = ref.ref_info("n", tree, plen, 1)
    check(v1 == {
        "name": "n", "piece length": plen,
        "files": [{"length": plen + 5, "path": ["a"]},
                  {"length": 10, "path": ["b"]},
                  {"length": 3 * plen, "path": ["c", "d"]},
                  {"length": 0, "path": ["e"]},
                  {"length": 100, "path": ["f"]}],
        "pieces": ref.v1_pieces([a + b + d + f], plen)}, "v1 multi info")
    al = ref.ref_info("n", tree, plen, 1, align=True)
    gap_a, gap_b = plen - 5, plen - 10
    check(al["files"] == [
        {"length": plen + 5, "path": ["a"]},
        {"attr": "p", "length": gap_a, "path": [".pad", str(gap_a)]},
        {"length": 10, "path": ["b"]},
        {"attr": "p", "length": gap_b, "path": [".pad", str(gap_b)]},
        {"length": 3 * plen, "path": ["c", "d"]},
        {"length": 0, "path": ["e"]},
        {"length": 100, "path": ["f"]}], "v1 align files")
    stream = a + bytes(gap_a) + b + bytes(gap_b) + d + f
    check(al["pieces"] == ref.v1_pieces([stream], plen), "v1 align pieces")
    check(len(al["pieces"]) == 20 * 7, "v1 align piece count")
    alp = ref.ref_info("n", tree, plen, 1, align=True, pad_last=True)
    check(alp["files"][:-1] == al["files"] and alp["files"][-1] ==
          {"attr": "p", "length": plen - 100,
           "path": [".pad", str(plen - 100)]}, "pad_last entry")
    check(alp["pieces"] == ref.v1_pieces([stream + bytes(plen - 100)], plen),
          "pad_last pieces")
    v2 = ref.ref_info("n", tree, plen, 2, align=True)
    check(v2 == {
        "name": "n", "piece length": plen, "meta version": 2,
        "file tree": {
            "a": {"": {"length": plen + 5,
                       "pieces root": ref.pieces_root(a, plen)}},
            "b": {"": {"length": 10, "pieces root": ref.pieces_root(b, plen)}},
            "c": {"d": {"": {"length": 3 * plen,
                             "pieces root": ref.pieces_root(d, plen)}}},
            "e": {"": {"length": 0}},
            "f": {"": {"length": 100,
                       "pieces root": ref.pieces_root(f, plen)}}}},
        "v2 info")
    hy = ref.ref_info("n", tree, plen, 3)
    want = dict(v2)
    want["files"], want["pieces"] = al["files"], al["pieces"]
    check(hy == want, "hybrid == v2 keys + aligned v1 view")
    layers = ref.ref_piece_layers(tree, plen)
    check(layers == {ref.pieces_root(a, plen): ref.piece_layer(a, plen),
                     ref.pieces_root(d, plen): ref.piece_layer(d, plen)},
          "piece layers only for files > piece length")
    check(list(layers) == sorted(layers), "piece layers keys sorted")
    same = {"x": a, "y": a}
    check(len(ref.ref_piece_layers(same, plen)) == 1, "identical files share")
    meta = ref.ref_metafile("n", tree, plen, 3, private=True, source="S",
                            comment="C")
    check(set(meta) == {"info", "piece layers"} and
          meta["info"]["private"] == 1 and meta["info"]["source"] == "S" and
          meta["info"]["comment"] == "C", "metafile with options")
    check(set(ref.ref_metafile("n", tree, plen, 1)) == {"info"}, "v1 meta")
    check("private" not in hy and "source" not in hy and "comment" not in hy,
          "options absent by default")
    # single file
    s1 = ref.ref_info("a", a, plen, 1, align=True, pad_last=True)
    check(s1 == {"name": "a", "piece length": plen, "length": plen + 5,
                 "pieces": ref.v1_pieces([a], plen)}, "v1 single")
    s2 = ref.ref_info("a", a, plen, 2)
    check(s2 == {"name": "a", "piece length": plen, "meta version": 2,
                 "file tree": {"a": v2["file tree"]["a"]}}, "v2 single")
    s3 = ref.ref_info("a", a, plen, 3, pad_last=True)
    check(s3 == dict(s2, length=plen + 5, pieces=s1["pieces"]),
          "hybrid single: length, no padding, plain pieces")
    check(ref.ref_info("e", b"", plen, 3) == {
        "name": "e", "piece length": plen, "meta version": 2, "length": 0,
        "pieces": b"", "file tree": {"e": {"": {"length": 0}}}},
        "hybrid single empty file")
    check(isinstance(raises(ValueError, ref.ref_info, "a", a, 16385, 2),
                     ValueError), "v2 rejects bad piece length")
    check(ref.ref_info("a", a, 1000, 1)["piece length"] == 1000,
          "v1 accepts any piece length")
    for ver in (1, 2, 3):
        raw = ref.bencode(ref.ref_metafile("n", tree, plen, ver))
        check(ref.bdecode(raw) is not None, "ref metafile v%d canonical" % ver)


def brute_v1(info_files, orig_tree, disk_tree, plen):
    """independent whole-stream model of the v1 recheck"""
    want, have, payload = b"", b"", []
    for entry in info_files:
        n = entry["length"]
        if "p" in entry.get("attr", ""):
            want += bytes(n)
            have += bytes(n)
            payload += [0] * n
            continue
        want += lookup(orig_tree, entry["path"])
        try:
            got = lookup(disk_tree, entry["path"])[:n]
        except (KeyError, TypeError):
            got = b""
        have += got + bytes(n - len(got))
        payload += [1] * n
    good = total = 0
    for off in range(0, len(want), plen):
        cnt = sum(payload[off:off + plen])
        total += cnt
        if want[off:off + plen] == have[off:off + plen]:
            good += cnt
    return 100.0 * good / total


def test_recheck(tmp):
    plen = 16384
    tree = {"a": rnd(30, plen + 5), "b": rnd(31, 10), "c": {
        "d": rnd(32, 3 * plen)}, "e": b"", "f": rnd(33, 2 * plen)}
    total = plen + 5 + 10 + 3 * plen + 2 * plen
    variants = [("v1", 1, {}), ("v1-align", 1, {"align": True}),
                ("v1-align-padlast", 1, {"align": True, "pad_last": True}),
                ("v2", 2, {}), ("hybrid", 3, {}),
                ("hybrid-padlast", 3, {"pad_last": True})]

    def damage_a(t):
        t["a"] = bytes([t["a"][0] ^ 1]) + t["a"][1:]

    def truncate_d(t):
        t["c"]["d"] = t["c"]["d"][:plen + 1]

    def drop_b(t):
        del t["b"]

    def drop_dir(t):
        del t["c"]

    def grow_f(t):
        t["f"] = t["f"] + b"extra"

    def zero_len_a(t):
        t["a"] = b""

    def dir_for_file(t):
        t["b"] = {"oops": b"1"}

    mutations = [("pristine", lambda t: None), ("damage a[0]", damage_a),
                 ("truncate c/d", truncate_d), ("drop b", drop_b),
                 ("drop c/", drop_dir), ("grow f", grow_f),
                 ("empty a", zero_len_a), ("b is a directory", dir_for_file)]
    v2_expect = {
        "pristine": total, "damage a[0]": total - plen,
        "truncate c/d": total - 2 * plen, "drop b": total - 10,
        "drop c/": total - 3 * plen, "grow f": total,
        "empty a": total - plen - 5, "b is a directory": total - 10}
    import copy
    for label, ver, opts in variants:
        meta0 = ref.ref_metafile("pay", tree, plen, ver, **opts)
        raw = ref.bencode(meta0)
        meta = ref.to_text(ref.bdecode(raw))
        check(meta == meta0, "to_text(bdecode(bencode(meta))) == meta " + label)
        for idx, (mname, mutate) in enumerate(mutations):
            disk = copy.deepcopy(tree)
            mutate(disk)
            base = os.path.join(tmp, "rc_%s_%d" % (label, idx))
            os.mkdir(base)
            root = ref.write_tree(base, "pay", disk)
            pct = ref.ref_recheck(meta, root)
            pcs = ref.ref_recheck_pieces(meta, root)
            case = "%s / %s" % (label, mname)
            check(sum(s for _, s, _ in pcs) == total,
                  "piece sizes sum to payload total (padding excluded) " +
                  case)
            check(abs(pct - 100.0 * sum(s for _, s, ok in pcs if ok) / total)
                  < 1e-9, "percentage consistent with verdicts " + case)
            if ver == 1:
                want = brute_v1(meta["info"]["files"], tree, disk, plen)
                check(abs(pct - want) < 1e-9,
                      "v1 recheck == whole-stream model (%r vs %r) %s" %
                      (pct, want, case))
                check([i for i, _, _ in pcs] == list(range(len(pcs))),
                      "v1 ids are piece indices " + case)
            else:
                want = 100.0 * v2_expect[mname] / total
                check(abs(pct - want) < 1e-9,
                      "v2 recheck expected %r got %r %s" % (want, pct, case))
                check(all(isinstance(i, tuple) and isinstance(i[0], tuple)
                          for i, _, _ in pcs), "v2 ids are (path, j) " + case)
            if label in ("v1-align", "v1-align-padlast") and \
                    mname in v2_expect:
                # aligned v1: damage is confined exactly as in v2
                check(abs(pct - 100.0 * v2_expect[mname] / total) < 1e-9,
                      "aligned v1 behaves per file " + case)
            raw_meta = ref.bdecode(raw)  # bytes keys also accepted
            check(ref.ref_recheck(raw_meta, root) == pct,
                  "bytes-key meta accepted " + case)
        missing = os.path.join(tmp, "nonexistent_" + label)
        check(ref.ref_recheck(meta, missing) == 0.0, "absent payload 0% " +
              label)
    # v1 unaligned: first-piece damage spills into neighbours as expected
    meta = ref.ref_metafile("pay", tree, plen, 1)
    base = os.path.join(tmp, "rc_spill")
    os.mkdir(base)
    disk = copy.deepcopy(tree)
    drop_b(disk)
    root = ref.write_tree(base, "pay", disk)
    pcs = ref.ref_recheck_pieces(meta, root)
    check([ok for _, _, ok in pcs] == [True, False] + [True] * 5 and
          pcs[1][1] == plen and pcs[-1][1] == 15,
          "v1 unaligned: only the piece holding b fails: %r" % (pcs, ))
    # missing / short piece layer
    meta = ref.ref_metafile("pay", tree, plen, 2)
    root = ref.write_tree(os.path.join(tmp, "rc_v2_0"), "pay2", tree)
    key_d = ref.pieces_root(tree["c"]["d"], plen)
    meta["piece layers"][key_d] = meta["piece layers"][key_d][:40]
    del meta["piece layers"][ref.pieces_root(tree["f"], plen)]
    check(abs(ref.ref_recheck(meta, root) - 100.0 *
              (total - 2 * plen - 2 * plen) / total) < 1e-9,
          "pieces without a layer hash fail")
    # single-file torrents: content_root is the file
    for ver in (1, 2, 3):
        for size in (1, plen, plen + 1, 3 * plen + 9):
            data = rnd(40 + size, size)
            base = os.path.join(tmp, "rs_%d_%d" % (ver, size))
            os.mkdir(base)
            root = ref.write_tree(base, "one.bin", data)
            meta = ref.ref_metafile("one.bin", data, plen, ver)
            check(ref.ref_recheck(meta, root) == 100.0,
                  "single file v%d size %d pristine" % (ver, size))
            with open(root, "r+b") as fh:
                fh.seek(size - 1)
                fh.write(bytes([data[-1] ^ 0x80]))
            last = size - (size - 1) // plen * plen
            check(abs(ref.ref_recheck(meta, root) - 100.0 *
                      (size - last) / size) < 1e-9,
                  "single file v%d size %d last byte damaged" % (ver, size))
    # directory holding one file named like the directory
    inner = rnd(50, plen * 2)
    meta = ref.ref_metafile("x", {"x": inner}, plen, 2)
    root = ref.write_tree(os.path.join(tmp, "rs_1_1"), "x", {"x": inner})
    check(ref.ref_recheck(meta, root) == 100.0, "dir x containing file x")
    # nothing to verify
    meta = ref.ref_metafile("z", {"p": b"", "q": b""}, plen, 1)
    check(meta["info"]["pieces"] == b"" and
          ref.ref_recheck(meta, os.path.join(tmp, "nowhere")) == 100.0,
          "zero payload -> 100.0")
    meta["info"]["pieces"] = ""  # the way pyben.load presents it
    check(ref.ref_recheck(meta, os.path.join(tmp, "nowhere")) == 100.0,
          "str pieces accepted")


# --------------------------------------------------------------------------
# H/I  torrentfile / pyben comparison (reported, never failing)
# --------------------------------------------------------------------------


def norm(value):
    if isinstance(value, (bytes, bytearray)):
        return bytes(value)
    if isinstance(value, dict):
        return {k: norm(v) for k, v in value.items()}
    if isinstance(value, (list, tuple)):
        return [norm(v) for v in value]
    return value


def sha1_list(blob):
    return [blob[i:i + 20] for i in range(0, len(blob), 20)]


def explain(want, got, tree, plen):
    """list of (category, detail) describing how torrentfile's info dict
    ``got`` departs from the reference ``want``"""
    out = []
    for key in sorted(set(got) - set(want)):
        out.append(("extra info key %r" % key, "value %r" % (got[key], )))
    for key in sorted(set(want) - set(got)):
        out.append(("missing info key %r" % key, ""))
    for key in sorted(set(want) & set(got)):
        if want[key] == got[key]:
            continue
        if key == "files":
            wreal = [e for e in want[key] if "attr" not in e]
            greal = [e for e in got[key] if "attr" not in e]
            if wreal != greal:
                if sorted(map(repr, wreal)) == sorted(map(repr, greal)):
                    out.append((
                        "files: order differs (BEP 3 prescribes no order "
                        "for a pure v1 torrent; it only matters for hybrids)",
                        "ref %s / torrentfile %s" %
                        (["/".join(e["path"]) for e in wreal],
                         ["/".join(e["path"]) for e in greal])))
                else:
                    out.append(("files: entries differ",
                                "ref %r / torrentfile %r" % (wreal, greal)))

            def pads(entries):
                res, prev = {}, None
                for ent in entries:
                    if "attr" in ent:
                        res[prev] = ent
                    else:
                        prev = ("/".join(ent["path"]), ent["length"])
                return res

            wp, gp = pads(want[key]), pads(got[key])
            for after in sorted(set(wp) | set(gp), key=repr):
                went, gent = wp.get(after), gp.get(after)
                if went == gent:
                    continue
                size = after[1] if after else None
                if went is None:
                    kind = ("empty" if size == 0 else
                            "piece-aligned" if size % plen == 0 else "last")
                    out.append((
                        "files: padding entry after a %s file where none is "
                        "needed" % kind,
                        "after %s (len %s): %r" % (after[0], size, gent)))
                elif gent is None:
                    out.append(("files: padding entry missing",
                                "after %s (len %s): ref %r" %
                                (after[0], size, went)))
                else:
                    out.append((
                        "files: padding length wrong",
                        "after %s (len %s): ref gap %d, torrentfile %d" %
                        (after[0], size, went["length"], gent["length"])))
        elif key == "pieces":
            wl, gl = sha1_list(want[key]), sha1_list(got[key])
            if len(wl) != len(gl):
                out.append(("pieces: count differs",
                            "ref %d / torrentfile %d" % (len(wl), len(gl))))
            else:
                bad = [i for i in range(len(wl)) if wl[i] != gl[i]]
                out.append(("pieces: hashes differ",
                            "indices %r of %d" % (bad, len(wl))))
        elif key == "file tree":
            wf = flatten_tree(want[key])
            gf = flatten_tree(got[key])
            for path in sorted(set(wf) | set(gf)):
                if wf.get(path) != gf.get(path):
                    out.append(("file tree: entry differs",
                                "%s: ref %r / torrentfile %r" %
                                (path, wf.get(path), gf.get(path))))
            if wf == gf and list_orders(want[key]) != list_orders(got[key]):
                out.append(("file tree: key order differs", ""))
        else:
            out.append(("info[%r] differs" % key,
                        "ref %r / torrentfile %r" % (want[key], got[key])))
    return out


def flatten_tree(node, prefix=""):
    out = {}
    for name, sub in node.items():
        if name == "" and not isinstance(next(iter(sub.values()), None), dict):
            out[prefix or "/"] = sub
        elif isinstance(sub, dict):
            if not sub:
                out[prefix + "/" + name + "/ (empty dir)"] = {}
            out.update(flatten_tree(sub, prefix + "/" + name))
    return out


def list_orders(node):
    return key_orders(node)


def pieces_hypotheses(got_info, tree, plen, single):
    """try to say what torrentfile's v1 pieces actually are"""
    got = bytes(got_info.get("pieces", b""))
    files = got_info.get("files")
    chunks = []
    if single:
        chunks = [bytes(tree)]
    else:
        for ent in files:
            if "attr" in ent:
                chunks.append(bytes(ent["length"]))
            else:
                try:
                    chunks.append(lookup(tree, ent["path"]))
                except (KeyError, TypeError):
                    return "unknown"
    stream = b"".join(chunks)
    if ref.v1_pieces([stream], plen) == got:
        return "pieces are consistent with torrentfile's own files list"
    ext = stream + bytes(-len(stream) % plen)
    if ref.v1_pieces([ext], plen) == got:
        return ("pieces = own stream with the LAST piece zero-extended to a "
                "full piece (info lengths do not cover those bytes)")
    # each file zero extended to a whole number of pieces?
    per = []
    for ent_chunks in ([bytes(tree)], ) if single else \
            [[lookup(tree, e["path"])] for e in files if "attr" not in e]:
        data = ent_chunks[0]
        per.append(data + bytes(-len(data) % plen))
    if ref.v1_pieces(per, plen) == got:
        return ("pieces = every file zero-extended to whole pieces, which "
                "does NOT match the padding lengths recorded in files")
    return "pieces match no simple model"


def build_cases():
    cases = []
    for plen in PLENS:
        sizes = sizes_for(plen)
        big = {}
        for idx, size in enumerate(sizes):
            data = rnd(1000 * plen + idx, size)
            name = "f%02d_%d" % (idx, size)
            if idx % 3 == 1:
                big.setdefault("sub", {})[name] = data
            elif idx % 3 == 2:
                big.setdefault("sub", {}).setdefault("deep", {})[name] = data
            else:
                big[name] = data
        cases.append(("pl=%d all-sizes" % plen, plen, "payload", big))
        cases.append(("pl=%d last-file-aligned" % plen, plen, "payload", {
            "a": rnd(1, plen + 1), "b": rnd(2, 5), "c": rnd(3, 2 * plen)}))
        cases.append(("pl=%d last-file-empty" % plen, plen, "payload", {
            "a": rnd(4, plen + 1), "b": b""}))
        cases.append(("pl=%d first-file-empty" % plen, plen, "payload", {
            "a": b"", "b": rnd(5, plen + 1), "c": rnd(6, 5)}))
        cases.append(("pl=%d small-files-only" % plen, plen, "payload", {
            "a": rnd(7, 1), "b": rnd(8, 16383), "c": rnd(9, 100)}))
        cases.append(("pl=%d one-file-dir" % plen, plen, "payload", {
            "only": rnd(10, 2 * plen + 1)}))
        cases.append(("pl=%d name-order" % plen, plen, "payload", {
            "a": {"x": rnd(11, 10)}, "a-b": {"y": rnd(12, 20)},
            "a.txt": rnd(13, 30), "B": rnd(14, 40)}))
        cases.append(("pl=%d empty-dir" % plen, plen, "payload", {
            "a": rnd(15, 10), "hollow": {}}))
        for size in sorted(set(sizes)):
            cases.append(("pl=%d single size=%d" % (plen, size), plen,
                          "single_%d.bin" % size, rnd(77 + size, size)))
    return cases


def compare_with_torrentfile(tmp):
    try:
        from torrentfile.torrent import (TorrentAssembler, TorrentFile,
                                         TorrentFileHybrid, TorrentFileV2)
        import pyben
    except Exception as err:  # pragma: no cover
        print("SKIP: torrentfile / pyben not importable (%s: %s)" %
              (type(err).__name__, err))
        return
    import logging
    logging.disable(logging.CRITICAL)

    creators = [
        # label, class, kwargs, version, ref option variants tried in order
        ("TorrentFile", TorrentFile, {}, 1, [{}]),
        ("TorrentFile(align)", TorrentFile, {"align": True}, 1,
         [{"align": True}, {"align": True, "pad_last": True}]),
        ("TorrentFileV2", TorrentFileV2, {}, 2, [{}]),
        ("TorrentAssembler(2)", TorrentAssembler, {"meta_version": "2"}, 2,
         [{}]),
        ("TorrentFileHybrid", TorrentFileHybrid, {}, 3,
         [{}, {"pad_last": True}]),
        ("TorrentAssembler(3)", TorrentAssembler, {"meta_version": "3"}, 3,
         [{}, {"pad_last": True}]),
    ]
    written = []
    ncompared = 0
    for cidx, (case, plen, name, tree) in enumerate(build_cases()):
        base = os.path.join(tmp, "tf_%d" % cidx)
        os.mkdir(base)
        path = ref.write_tree(base, name, tree)
        single = isinstance(tree, bytes)
        for who, cls, kwargs, version, variants in creators:
            ncompared += 1
            try:
                obj = cls(path=path, piece_length=plen, progress=0, **kwargs)
                meta = norm(obj.meta)
            except BaseException as err:
                if isinstance(err, KeyboardInterrupt):
                    raise
                disagree(who, "creator raised %s" % type(err).__name__, case,
                         str(err))
                continue
            got = dict(meta["info"])
            wants = [ref.ref_info(name, tree, plen, version, **o)
                     for o in variants]
            matched = None
            for opts, want in zip(variants, wants):
                if want == got:
                    matched = opts
                    break
            if matched is None:
                # describe against the variant with the fewest differences
                scored = sorted(
                    ((explain(w, got, tree, plen), o)
                     for w, o in zip(wants, variants)),
                    key=lambda pair: len(pair[0]))
                diffs, opts = scored[0]
                hyp = ""
                if any(c.startswith("pieces") or c.startswith("files: pad")
                       for c, _ in diffs):
                    hyp = pieces_hypotheses(got, tree, plen, single)
                for cat, detail in diffs:
                    if cat.startswith("pieces") and hyp:
                        cat = cat + " -- " + hyp
                    disagree(who, cat, case, detail + (
                        " [vs ref opts %r]" % (opts, ) if opts else ""))
                if any(c.startswith("files: order differs")
                       for c, _ in diffs):
                    hyp = pieces_hypotheses(got, tree, plen, single)
                    note(who, "file order differs; " + hyp, case)
            else:
                note(who, "info == ref_info(%s)" % ", ".join(
                    "%s=%r" % kv for kv in sorted(matched.items())) if matched
                    else "info == ref_info()", case)
            # piece layers
            if version in (2, 3):
                layers = meta.get("piece layers")
                want_layers = ref.ref_piece_layers(tree, plen)
                if layers is None:
                    disagree(who, "no 'piece layers' key in metafile", case)
                elif layers != want_layers:
                    only_t = set(layers) - set(want_layers)
                    only_r = set(want_layers) - set(layers)
                    diff_v = [k for k in set(layers) & set(want_layers)
                              if layers[k] != want_layers[k]]
                    disagree(who, "piece layers content differs", case,
                             "%d unexpected roots, %d missing roots, %d "
                             "layers differ" %
                             (len(only_t), len(only_r), len(diff_v)))
                elif list(layers) != sorted(layers):
                    disagree(who, "piece layers keys not in sorted order "
                             "(and pyben writes dicts in insertion order)",
                             case, "%d keys" % len(layers))
                else:
                    note(who, "piece layers == ref_piece_layers, sorted", case)
            # does the reference recheck accept torrentfile's own metafile
            # against the untouched payload?
            try:
                pcs = ref.ref_recheck_pieces(meta, path)
                tot = sum(s for _, s, _ in pcs)
                good = sum(s for _, s, ok in pcs if ok)
                if good != tot:
                    bad = [i for i, _, ok in pcs if not ok]
                    disagree(
                        who, "ref_recheck of torrentfile's metafile against "
                        "the pristine payload is below 100%", case,
                        "%.2f%%, failing pieces %r" %
                        (100.0 * good / tot, bad[:6]))
                else:
                    note(who, "ref_recheck(pristine) == 100", case)
            except Exception as err:
                disagree(who, "ref_recheck cannot process metafile: %s" %
                         type(err).__name__, case, str(err))
            # keep a handful of real metafiles for the pyben comparison
            if case.endswith("all-sizes") or case.endswith("size=%d" %
                                                            (plen + 1)) or \
                    case.endswith("name-order"):
                out = os.path.join(base, "%s_%d.torrent" % (cls.__name__,
                                                             len(written)))
                try:
                    obj.write(out)
                    written.append((who, case, out))
                except Exception as err:
                    disagree(who, "write() raised %s" % type(err).__name__,
                             case, str(err))
    print("compared %d (creator, payload) combinations" % ncompared)

    # I. to_text vs pyben.load on the metafiles torrentfile wrote
    for who, case, out in written:
        with open(out, "rb") as fh:
            raw = fh.read()
        loaded = pyben.load(out)
        loose = ref.bdecode(raw, strict=False)
        mine = ref.to_text(loose)
        check(ref.bencode(loose, sort_keys=False) == raw,
              "non-strict decode / insertion-order encode reproduces file " +
              out)
        if mine != loaded:
            disagree("pyben.load", "to_text(bdecode(raw)) != pyben.load", case,
                     who)
        elif key_orders(mine) != key_orders(loaded):
            disagree("pyben.load", "same content, different key order", case,
                     who)
        else:
            note("pyben.load", "to_text(bdecode(raw)) == pyben.load", case)
        try:
            ref.bdecode(raw)
            note(who, "written metafile is canonical bencode", case)
        except ref.NonCanonical as err:
            msg = str(err)
            kind = msg.split(":")[0]
            disagree(who, "written .torrent is not canonical bencode (%s)" %
                     kind, case, msg[:150])
        span = ref.info_span(raw)
        check(span == ref.bencode(loose[b"info"], sort_keys=False),
              "info_span == order preserving re-encoding " + out)
        if span != ref.bencode(loose[b"info"]):
            disagree(who, "info dict bytes change under canonical "
                     "re-encoding (infohash unstable)", case)
    # the one systematic to_text / pyben difference: empty 'pieces'
    raw = ref.bencode(ref.ref_metafile("z", {"p": b"", "q": b""}, 16384, 1))
    loaded = pyben.loads(raw)
    mine = ref.to_text(ref.bdecode(raw))
    check(mine["info"]["pieces"] == b"", "to_text keeps empty pieces as bytes")
    if loaded["info"]["pieces"] == "":
        note("pyben.load", "documented difference: empty pieces -> '' "
             "(to_text gives b'')", "all-empty v1 torrent")
    else:
        disagree("pyben.load", "empty pieces not presented as ''",
                 "all-empty v1 torrent", repr(loaded["info"]["pieces"]))
    mine["info"]["pieces"] = ""
    check(mine == loaded, "apart from that the two agree")
    # ref-made metafiles through pyben
    plen = 16384
    tree = {"a": rnd(60, plen + 5), "b": {"c": rnd(61, 3 * plen)}, "d": b""}
    for ver in (1, 2, 3):
        raw = ref.bencode(ref.ref_metafile("n", tree, plen, ver))
        if ref.to_text(ref.bdecode(raw)) != pyben.loads(raw):
            disagree("pyben.load", "to_text != pyben.loads on a ref metafile",
                     "version %d" % ver)
        else:
            note("pyben.load", "to_text == pyben.loads on ref metafiles",
                 "version %d" % ver)
        if pyben.dumps(pyben.loads(raw)) != raw:
            disagree("pyben", "loads/dumps does not reproduce a canonical "
                     "metafile", "version %d" % ver)


def summarise():
    if NOTES:
        print("-- agreements / observations")
        for (who, cat), cases in sorted(NOTES.items()):
            print("AGREE: %s | %s | %d cases" % (who, cat, len(cases)))
    if DISAGREEMENTS:
        print("-- disagreements (ref.py kept as is)")
    for (who, cat), items in sorted(DISAGREEMENTS.items()):
        cases = [c for c, _ in items]
        shown = "; ".join(cases[:4]) + (" ..." if len(cases) > 4 else "")
        print("DISAGREE: %s | %s | %d cases: %s | e.g. %s" %
              (who, cat, len(cases), shown, items[0][1][:300]))


def main():
    tmp = tempfile.mkdtemp(prefix="refselftest_")
    try:
        test_bencode()
        test_strictness()
        test_info_span()
        test_to_text()
        test_merkle()
        test_v1_pieces()
        test_trees(tmp)
        test_ref_info()
        test_recheck(tmp)
        compare_with_torrentfile(tmp)
    finally:
        shutil.rmtree(tmp, ignore_errors=True)
    summarise()
    print("%d internal checks, %d failed" % (CHECKS[0], len(FAILURES)))
    return 1 if FAILURES else 0


if __name__ == "__main__":
    sys.exit(main())
