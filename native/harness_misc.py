"""Bounded native harnesses for C08 (info-hash is a function of payload / piece length / version / info options only) and
C09 (results never depend on what the process did earlier).

C08 is judged metamorphically, straight from the statement: for one payload, one piece length, one creator and one set of
info-level options, a BASELINE metafile (absolute path, cwd elsewhere, progress 0, no trackers, real clock, natural
enumeration order) is compared with the metafile obtained under each VARIANT of the things the statement says must not
matter (spelling of the path, working directory, copy at another location, permuted directory enumeration, tracker /
seed / outfile settings, progress mode, quiet mode / command line route, clock).  The compared observable is the exact
info span of the written file (the bytes whose hash is the info-hash) and, where trackers are unchanged, the whole
metafile minus 'creation date'.

C09 is judged against a FRESH interpreter: an operation sequence is run in this process; every result-bearing operation is
executed a second time by a new /venv/bin/python on the same filesystem state (outputs go to sibling paths) and the two
observable results must be equal.
"""
import contextlib
import hashlib
import itertools
import json
import os
import random
import shutil
import subprocess
import sys

from native.harness import Acc, harness, replayer, tempdir, quiet, content, small_trees, make_metafile  # noqa: F401
from native import ref

B = 16384


# =============================================================================================== shared: trees
def size_alphabet(pl):
    out = []
    for s in (0, 1, B - 1, B, B + 1, pl - 1, pl, pl + 1, 2 * pl - 1, 2 * pl, 2 * pl + 1, 3 * pl, 3 * pl + B + 1, 5 * pl):
        if s not in out:
            out.append(s)
    return out


def gen_tree(seed, shape, sizes):
    """file list f0,f1,f2 with the given sizes in one of the nesting shapes; shape 'file' = single-file payload"""
    c = lambda i, n: content(seed, f"g{i}", n)      # noqa: E731
    if shape == "file":
        return "gen.bin", c(0, sizes[0])
    names = ["f0.bin", "f1.dat", "f2"]
    tree = {}
    for i, n in enumerate(sizes):
        if shape == "flat" or i == 0:
            tree[names[i]] = c(i, n)
        elif shape == "sub" or i == 1:
            tree.setdefault("sub", {})[names[i]] = c(i, n)
        else:
            tree.setdefault("sub", {}).setdefault("deep", {})[names[i]] = c(i, n)
    return "gen", tree


def special_trees(seed, pl):
    c = lambda tag, n: content(seed, tag, n)      # noqa: E731
    return [
        # one piece spans >= 3 files, short last file
        ("span3", {"a.bin": c("a", pl + 100), "b.txt": c("b", 10), "c.bin": c("c", 40),
                   "sub": {"d.bin": c("d", pl), "e.txt": c("e", 10), "f.txt": c("f", 25)}, "z.nfo": c("z", 50)}),
        # sibling names that differ only by letter case
        ("CaseTree", {"Media": {"clip.dat": c("M", 2 * pl + 1)}, "media": {"clip.dat": c("m", pl + 1)},
                      "docs": {"Notes.txt": c("N", 5000), "notes.txt": c("n", 7000), "zeta.txt": c("zt", 300)},
                      "alpha.bin": c("al", B + 1), "omega.bin": c("om", 100)}),
        # non-ASCII names, names where whole-path order and per-component order differ
        ("ünï", {"é": c("e1", 5), "z": c("z1", pl - 1), "Z": c("z2", 1), "ü.bin": c("u", pl + 1), "a": {"x": c("ax", 10)},
                 "a.b": c("ab", 20), "a-b": c("a-b", 30), "日本": {"語": c("jp", 3 * pl)}, "zz": c("zz", 3)}),
        # empty files, two levels
        ("empties", {"e": b"", "d": {"e2": b"", "l2": {"x": c("x", pl + 1), "y": c("y", 1)}}, "f": c("f", 2 * pl), "k": c("k", B - 1)}),
        # single files
        ("single.bin", c("s", 3 * pl + B + 1)),
        ("tiny.one", c("t", 1)),
    ]


def get_tree(spec, seed, pl):
    if spec[0] == "special":
        return special_trees(seed, pl)[spec[1]]
    return gen_tree(seed, spec[1], spec[2])


def first_subdir(tree):
    if isinstance(tree, dict):
        for k in sorted(tree):
            if isinstance(tree[k], dict):
                return k
    return None


def write_tree_reversed(base, name, tree):
    """like ref.write_tree but creates the entries in the opposite order (natural enumeration order may then differ)"""
    path = os.path.join(base, name)
    if not isinstance(tree, dict):
        with open(path, "wb") as fh:
            fh.write(tree)
        return path
    os.makedirs(path, exist_ok=True)
    for sub in reversed(list(tree)):
        write_tree_reversed(path, sub, tree[sub])
    return path


# =============================================================================================== C08
CREATORS = {"TorrentFile": ("TorrentFile", "1"), "TorrentFileV2": ("TorrentFileV2", "2"), "TorrentFileHybrid": ("TorrentFileHybrid", "3"),
            "TorrentAssembler2": ("TorrentAssembler", "2"), "TorrentAssembler3": ("TorrentAssembler", "3")}
CLI_CREATORS = ("TorrentFile", "TorrentAssembler2", "TorrentAssembler3")
INFO_OPTS = [{}, {"private": True, "source": "SRC one", "comment": "a comment ü"}]


def _perm_of(names, k):
    """k-th rearrangement of the sorted listing: 0 = sorted, 1 = reversed, then the remaining permutations (all n! of them for
    n <= 4, fixed pseudo-random shuffles above)"""
    names = sorted(names)
    n = len(names)
    if n < 2 or k == 0:
        return names
    if k == 1:
        return names[::-1]
    if n <= 4:
        perms = list(itertools.permutations(range(n)))
        ident, rev = tuple(range(n)), tuple(range(n - 1, -1, -1))
        rest = [p for p in perms if p not in (ident, rev)]
        order = [ident, rev] + rest
        p = order[k % len(order)]
        return [names[i] for i in p]
    rnd = random.Random(k * 1009 + n)
    out = list(names)
    rnd.shuffle(out)
    return out


class _Scan:
    def __init__(self, entries):
        self._it = iter(entries)

    def __iter__(self):
        return self

    def __next__(self):
        return next(self._it)

    def __enter__(self):
        return self

    def __exit__(self, *a):
        return False

    def close(self):
        pass


@contextlib.contextmanager
def permuted_enumeration(k):
    """os.listdir / os.scandir / pathlib.Path.iterdir deliver every directory in the k-th rearrangement"""
    import pathlib
    real_listdir, real_scandir, real_iterdir = os.listdir, os.scandir, pathlib.Path.iterdir

    def listdir(path="."):
        return _perm_of(real_listdir(path), k)

    def scandir(path="."):
        with real_scandir(path) as it:
            entries = list(it)
        by = {e.name: e for e in entries}
        return _Scan([by[n] for n in _perm_of(list(by), k)])

    def iterdir(self):
        for nm in _perm_of(real_listdir(self), k):
            yield self / nm

    os.listdir, os.scandir, pathlib.Path.iterdir = listdir, scandir, iterdir
    try:
        yield
    finally:
        os.listdir, os.scandir, pathlib.Path.iterdir = real_listdir, real_scandir, real_iterdir


@contextlib.contextmanager
def fake_clock(year):
    import datetime as _dt
    from torrentfile import torrent as T

    class FakeDT(_dt.datetime):
        @classmethod
        def now(cls, tz=None):
            return cls(year, 5, 6, 7, 8, 9)
    saved = T.datetime
    T.datetime = FakeDT
    try:
        yield
    finally:
        T.datetime = saved


TRACKERS = ["http://t1.example/announce", "http://t2.example/announce"]
WEBSEEDS = ["http://w1.example/x", "http://w2.example/y"]
HTTPSEEDS = ["http://h1.example/z"]


def c08_variants(tree, tier):
    """(group, id) of every variant applicable to this tree"""
    isdir = isinstance(tree, dict)
    v = [("spelling", s) for s in ("rel-parent", "dot-prefix", "rel-up", "dotdot-mid", "double-sep-mid", "abs-double-sep", "abs-dot-seg",
                                   "copy-abs", "copy-rel", "copy-reversed-creation")]
    if isdir:
        v += [("spelling", s) for s in ("trailing-sep", "trailing-2sep", "dot-suffix", "abs-dot-suffix", "cwd-dot", "cwd-dot-slash",
                                        "rel-up-trailing")]
        if first_subdir(tree):
            v += [("spelling", "sub-dotdot"), ("spelling", "cwd-sub-dotdot")]
    v.append(("spelling", "pathlib"))
    if isdir:
        v += [("enum-order", k) for k in ((1, 2, 3) if tier == "quick" else range(1, 24))]
    v += [("settings", s) for s in ("announce-str", "announce-list", "url-list", "httpseeds", "all-lists", "outfile-rel", "outfile-dir",
                                    "outfile-default", "cwd-flag", "content-kw", "path-from-announce", "write-arg")]
    v += [("progress", p) for p in (1, 2, "1", "2")]
    v += [("clock", 2001), ("clock", 2033)]
    v += [("rerun", 0)]
    v += [("cli", s) for s in ("plain", "quiet", "prog2", "trackers-rel", "verbose")]
    if isdir:
        v.append(("cli", "out-inside"))
    return v


GEN_VARIANTS = [("progress", 1), ("progress", 2), ("enum-order", 1), ("spelling", "rel-up"), ("spelling", "dot-suffix"),
                ("spelling", "copy-reversed-creation"), ("cli", "quiet")]


def _c08_layout(d, name, tree):
    for sub in ("w1/other", "w2/deeper/zz", "w3", "elsewhere", "out"):
        os.makedirs(os.path.join(d, sub))
    P = ref.write_tree(os.path.join(d, "w1"), name, tree)
    ref.write_tree(os.path.join(d, "w2", "deeper", "zz"), name, tree)
    write_tree_reversed(os.path.join(d, "w3"), name, tree)
    return P


def _c08_spelling(d, name, tree, sid):
    """-> (cwd, path as spelled)"""
    P = os.path.join(d, "w1", name)
    j = os.path.join
    sub = first_subdir(tree)
    table = {
        "abs": (j(d, "elsewhere"), P),
        "rel-parent": (j(d, "w1"), name),
        "dot-prefix": (j(d, "w1"), "./" + name),
        "rel-up": (j(d, "elsewhere"), "../w1/" + name),
        "dotdot-mid": (j(d, "w1"), "other/../" + name),
        "double-sep-mid": (d, "w1//" + name),
        "abs-double-sep": (j(d, "elsewhere"), d + "//w1///" + name),
        "abs-dot-seg": (j(d, "out"), d + "/w1/./other/../" + name),
        "copy-abs": (d, j(d, "w2", "deeper", "zz", name)),
        "copy-rel": (j(d, "w2"), "deeper/zz/" + name),
        "copy-reversed-creation": (j(d, "elsewhere"), j(d, "w3", name)),
        "trailing-sep": (j(d, "w1"), name + "/"),
        "trailing-2sep": (j(d, "w1"), name + "//"),
        "dot-suffix": (j(d, "w1"), name + "/."),
        "abs-dot-suffix": (d, P + "/."),
        "cwd-dot": (P, "."),
        "cwd-dot-slash": (P, "./"),
        "rel-up-trailing": (j(d, "elsewhere"), "../w1/" + name + "/"),
        "pathlib": (j(d, "elsewhere"), P),
    }
    if sub:
        table["sub-dotdot"] = (j(d, "w1"), name + "/" + sub + "/..")
        table["cwd-sub-dotdot"] = (j(P, sub), "..")
    return table[sid]


def _c08_run(d, name, tree, creator, pl, opts, variant, tag):
    """create once under `variant` (None = baseline); returns (info span bytes, whole file minus creation date re-encoded in file
    order, decoded metafile)"""
    from torrentfile import torrent as T
    import pathlib
    clsname, mv = CREATORS[creator]
    group, vid = variant if variant else ("baseline", None)
    out = os.path.join(d, "out", f"{tag}.torrent")
    cwd, path = _c08_spelling(d, name, tree, vid if group == "spelling" else "abs")
    if group == "spelling" and vid == "pathlib":
        path = pathlib.Path(path)
    kw = dict(path=path, piece_length=pl, progress=0, outfile=out, meta_version=mv)
    kw.update(opts)
    ctx = contextlib.ExitStack()
    write_arg = None
    if group == "enum-order":
        ctx.enter_context(permuted_enumeration(vid))
    elif group == "progress":
        kw["progress"] = vid
    elif group == "clock":
        ctx.enter_context(fake_clock(vid))
    elif group == "rerun":
        ctx.enter_context(fake_clock(2040))
    elif group == "settings":
        if vid == "announce-str":
            kw["announce"] = TRACKERS[0]
        elif vid == "announce-list":
            kw["announce"] = list(TRACKERS)
        elif vid == "url-list":
            kw["url_list"] = list(WEBSEEDS)
        elif vid == "httpseeds":
            kw["httpseeds"] = list(HTTPSEEDS)
        elif vid == "all-lists":
            kw.update(announce=list(TRACKERS), url_list=list(WEBSEEDS), httpseeds=list(HTTPSEEDS))
        elif vid == "outfile-rel":
            cwd = os.path.join(d, "out")
            kw["outfile"] = f"{tag}.torrent"
        elif vid == "outfile-dir":
            os.makedirs(os.path.join(d, "out", tag))
            kw["outfile"] = os.path.join(d, "out", tag) + "/"
            out = None
        elif vid == "outfile-default":
            os.makedirs(os.path.join(d, "out", tag))
            cwd = os.path.join(d, "out", tag)
            kw["outfile"] = None
            out = None
        elif vid == "cwd-flag":
            kw["cwd"] = True
        elif vid == "content-kw":
            kw["content"] = kw.pop("path")
        elif vid == "path-from-announce":
            kw["announce"] = [TRACKERS[0], kw.pop("path")]
        elif vid == "write-arg":
            write_arg = out
            kw["outfile"] = os.path.join(d, "out", f"{tag}.unused.torrent")
    os.chdir(cwd)
    with ctx:
        with quiet():
            if group == "cli":
                from torrentfile.cli import execute
                argv = []
                if vid == "quiet":
                    argv.append("-q")
                if vid == "verbose":
                    argv.append("-v")
                argv += ["create"]
                if vid == "trackers-rel":
                    cwd2, sp = _c08_spelling(d, name, tree, "rel-up")
                    os.chdir(cwd2)
                    argv += [sp, "-a"] + TRACKERS + ["--web-seed"] + WEBSEEDS + ["--http-seed"] + HTTPSEEDS
                else:
                    argv += [str(path)]
                if vid == "out-inside" and os.path.isdir(str(path)):
                    # an explicit new output file INSIDE the content directory: nothing of the output may leak into the info dictionary
                    out = os.path.join(str(path), "zz_out.torrent")
                argv += ["--meta-version", mv, "--piece-length", str(pl), "-o", out]
                argv += ["--prog", "2"] if vid == "prog2" else (["--prog", "0"] if vid != "plain" else [])
                if opts.get("private"):
                    argv.append("--private")
                if opts.get("source"):
                    argv += ["--source", opts["source"]]
                if opts.get("comment"):
                    argv += ["--comment", opts["comment"]]
                try:
                    execute(argv)
                finally:
                    _drop_log_handlers()
            else:
                t = getattr(T, clsname)(**kw)
                res = t.write(write_arg) if write_arg else t.write()
                if out is None:
                    out = res[0]
    if not os.path.isabs(out):
        out = os.path.join(cwd, out)
    with open(out, "rb") as fh:
        data = fh.read()
    m = ref.bdecode(data, strict=False)
    span = ref.info_span(data)
    m2 = dict(m)
    m2.pop(b"creation date", None)
    return span, ref.bencode(m2, sort_keys=False), m, out


def _drop_log_handlers():
    import logging
    for h in list(logging.getLogger().handlers):
        try:
            h.close()
        except Exception:       # noqa: BLE001
            pass
        logging.getLogger().removeHandler(h)
    logging.getLogger().setLevel(logging.WARNING)
    os.environ["TORRENTFILE_DEBUG"] = "OFF"


def _vname(variant):
    return f"{variant[0]}:{variant[1]}"


def _diffkeys(a, b):
    return ",".join(sorted(k.decode("utf-8", "replace") for k in set(a) | set(b) if a.get(k) != b.get(k))) or "order-only"


def _c08_case(acc, case):
    pl, creator, opts, seed = case["pl"], case["creator"], case["opts"], case.get("seed", 0)
    name, tree = get_tree(case["tree"], seed, pl)
    with tempdir() as d:
        _c08_layout(d, name, tree)
        try:
            base_span, base_all, base_m, _ = _c08_run(d, name, tree, creator, pl, opts, None, "base")
        except BaseException as e:      # noqa: BLE001
            acc.fail(f"C08:create-raised:baseline:{creator}", dict(case, variants=[]), f"{type(e).__name__}: {e}", "metafile")
            return
        finally:
            sys.stdout, sys.stderr = sys.__stdout__, sys.__stderr__
        # the info-level options must be reflected (sanity of the baseline itself: name and piece length)
        if base_m[b"info"].get(b"name") != name.encode() or base_m[b"info"].get(b"piece length") != pl:
            acc.fail(f"C08:baseline:name-or-piece-length:{creator}", dict(case, variants=[]),
                     (base_m[b"info"].get(b"name"), base_m[b"info"].get(b"piece length")), (name, pl))
        for i, variant in enumerate(case["variants"]):
            variant = tuple(variant)
            group, vid = variant
            if group == "cli" and creator not in CLI_CREATORS:
                continue
            c1 = dict(case, variants=[list(variant)])
            vcls = group if group in ("enum-order", "clock", "rerun") else f"{group}:{vid}"
            try:
                span, allb, m, outp = _c08_run(d, name, tree, creator, pl, opts, variant, f"v{i}")
            except BaseException as e:      # noqa: BLE001
                acc.fail(f"C08:create-raised:{vcls}:{creator}", c1, f"{type(e).__name__}: {e}", "metafile with the baseline's info dictionary")
                continue
            finally:
                sys.stdout, sys.stderr = sys.__stdout__, sys.__stderr__
            if span != base_span:
                dk = _diffkeys(m.get(b"info", {}), base_m[b"info"])
                acc.fail(f"C08:{vcls}:{creator}:info-differs:{dk}", c1,
                         f"info-hash {hashlib.sha1(span).hexdigest()} (name={m.get(b'info', {}).get(b'name')!r}); info keys differing: {dk}",
                         f"info-hash {hashlib.sha1(base_span).hexdigest()} (name={base_m[b'info'].get(b'name')!r}) as for the baseline run")
                continue
            keeps_top = group in ("spelling", "enum-order", "progress", "clock", "rerun") or (group == "settings" and vid in (
                "outfile-rel", "outfile-dir", "outfile-default", "cwd-flag", "content-kw", "write-arg")) or (group == "cli" and vid != "trackers-rel")
            if keeps_top and allb != base_all:
                m2 = dict(m)
                m2.pop(b"creation date", None)
                b2 = dict(base_m)
                b2.pop(b"creation date", None)
                dk = _diffkeys(m2, b2)
                acc.fail(f"C08:{vcls}:{creator}:file-differs-beyond-creation-date:{dk}", c1,
                         f"top-level keys differing: {dk}", "files that differ only in the creation date")
            if not keeps_top:
                # piece layers are payload-determined even when trackers differ
                if m.get(b"piece layers") != base_m.get(b"piece layers") or \
                        list(m.get(b"piece layers", {})) != list(base_m.get(b"piece layers", {})):
                    acc.fail(f"C08:{vcls}:{creator}:piece-layers-differ", c1, "piece layers differ", "same piece layers")
            if group in ("clock", "rerun") and b"creation date" not in m:
                acc.fail(f"C08:{vcls}:{creator}:no-creation-date", c1, "creation date missing", "a creation date (the one thing allowed to differ)")


def _c08_cases(tier, seed):
    cases = []
    pls = (16384,) if tier == "quick" else (16384, 32768, 65536)
    # 1. special trees x all variants
    for pl in pls:
        for ti in range(len(special_trees(seed, pl))):
            _, tree = special_trees(seed, pl)[ti]
            for creator in CREATORS:
                for oi, opts in enumerate(INFO_OPTS):
                    if tier == "quick" and oi == 1 and ti not in (0, 4):
                        continue
                    if pl != 16384 and oi == 1:
                        continue
                    cases.append({"prop": "C08", "tree": ["special", ti], "pl": pl, "creator": creator, "opts": opts, "seed": seed,
                                  "variants": [list(v) for v in c08_variants(tree, "quick" if pl != 16384 else tier)]})
    # 2. generic trees from the size alphabet x the size-sensitive variants
    for pl in pls:
        al = size_alphabet(pl)
        n = len(al)
        trees = []
        for s in al:
            trees.append(("file", [s]))
            trees.append(("flat", [s]))
        shapes = ["flat", "sub", "deep"]
        for i, s in enumerate(al):
            trees.append((shapes[i % 2], [s, al[(i * 3 + 1) % n]]))
            trees.append((shapes[(i + 1) % 2], [al[(i * 5 + 2) % n], s]))
            for r in range(3):
                trees.append((shapes[(i + r) % 3], [s, al[(i * 3 + 1 + r) % n], al[(i * 5 + 2 + 2 * r) % n]]))
        # short files around a long one: pieces spanning three files with a short last file
        trees += [("flat", [1, 1, 1]), ("sub", [pl - 1, 1, 1]), ("deep", [B + 1, 1, B - 1]), ("flat", [1, pl + 1, 1]), ("sub", [2 * pl + 1, 1, 1])]
        if tier != "quick" and pl == 16384:
            for shape in shapes:
                for k in (1, 2, 3):
                    for sizes in itertools.product(al, repeat=k):
                        trees.append((shape, list(sizes)))
        elif tier != "quick":
            for shape in shapes:
                for sizes in itertools.product(al, repeat=2):
                    trees.append((shape, list(sizes)))
        seen = set()
        for shape, sizes in trees:
            if shape in ("sub", "deep") and len(sizes) < 2:
                shape = "flat"
            if shape == "deep" and len(sizes) < 3:
                shape = "sub"
            key = (shape, tuple(sizes))
            if key in seen:
                continue
            seen.add(key)
            full = len(seen) <= 140       # the well-chosen subset gets every creator; the exhaustive rest alternates
            for ci, creator in enumerate(CREATORS):
                if not full and (len(seen) + ci) % 5 not in (0, 1):
                    if creator != "TorrentFile":
                        continue
                var = [list(v) for v in GEN_VARIANTS if not (shape == "file" and v[0] in ("enum-order",) or shape == "file" and v[1] == "dot-suffix")]
                if not full:
                    var = [v for v in var if v[0] in ("progress", "enum-order")] + [["spelling", "rel-up"]]
                cases.append({"prop": "C08", "tree": ["gen", shape, list(sizes)], "pl": pl, "creator": creator, "opts": {}, "seed": seed,
                              "variants": var})
    for case in cases:
        if case["creator"] not in CLI_CREATORS:      # the command line only ever uses TorrentFile and TorrentAssembler
            case["variants"] = [v for v in case["variants"] if v[0] != "cli"]
    return cases


def _c08_agreement(acc, tier, seed):
    """the creator class is not among the things the info dictionary may depend on: both creators of one version must agree"""
    pls = (16384,) if tier == "quick" else (16384, 32768, 65536)
    for pl in pls:
        for ti in range(len(special_trees(seed, pl))):
            name, tree = special_trees(seed, pl)[ti]
            case = {"prop": "C08", "agreement": True, "tree": ["special", ti], "pl": pl, "seed": seed}
            _c08_agreement_case(acc, case)
            acc.case(("agree", ti, pl))


def _c08_agreement_case(acc, case):
    pl, seed = case["pl"], case.get("seed", 0)
    name, tree = get_tree(case["tree"], seed, pl)
    with tempdir() as d:
        _c08_layout(d, name, tree)
        spans = {}
        for creator in CREATORS:
            try:
                spans[creator] = _c08_run(d, name, tree, creator, pl, {}, None, "ag_" + creator)[0]
            except BaseException as e:      # noqa: BLE001
                spans[creator] = f"raised {type(e).__name__}"
        for a, b2, v in (("TorrentFileV2", "TorrentAssembler2", 2), ("TorrentFileHybrid", "TorrentAssembler3", 3)):
            if spans[a] != spans[b2]:
                acc.fail(f"C08:creators-disagree:v{v}", case, f"{a} and {b2} give different info dictionaries", "one info-hash per (payload, pl, version)")


@harness("C08")
def h_c08(tier, seed, hints):
    acc = Acc("C08", "metamorphic: one payload / piece length / creator / info-option set created as a baseline and under every variant "
              "of what must not matter (path spelling incl. dot segments, doubled and trailing separators, cwd, copies elsewhere, "
              "every permutation of os.listdir/os.scandir/Path.iterdir results, tracker/seed/outfile settings, progress 0/1/2, "
              "command line incl. -q/-v, clock); compared: exact info span of the written file, and the whole file minus creation "
              "date; distinct = (tree, piece length, creator, option set, variant)",
              "6 special trees (piece spanning >= 3 files + short last file, case-only siblings, non-ASCII / order-sensitive names, "
              "empty files, single files) x 5 creators x all variants; generated trees: file lists <= 3 over the size alphabet x "
              "{flat, sub, two levels} x size-sensitive variants; pl 16K (quick) + 32K, 64K (thorough)")
    for case in _c08_cases(tier, seed):
        _c08_case(acc, case)
        for v in case["variants"]:
            acc.case((json.dumps(case["tree"]), case["pl"], case["creator"], json.dumps(case["opts"], sort_keys=True), json.dumps(v)),
                     dict(case, variants=[v]) if case["tree"][0] == "special" and v[0] == "spelling" else None)
    _c08_agreement(acc, tier, seed)
    return acc.result()


@replayer("C08")
def r_c08(acc, case):
    if case.get("agreement"):
        _c08_agreement_case(acc, case)
    else:
        _c08_case(acc, case)


# =============================================================================================== C09
def _meta_summary(path):
    with open(path, "rb") as fh:
        data = fh.read()
    m = ref.bdecode(data, strict=False)
    m.pop(b"creation date", None)
    info = m.get(b"info", {})
    files = None
    if b"files" in info:
        files = [["/".join(x.decode("utf-8", "replace") for x in f[b"path"]), f[b"length"]] for f in info[b"files"]][:16]
    tree = None
    if b"file tree" in info:
        tree = []

        def walk(node, pre):
            for k, v in node.items():
                if isinstance(v, dict) and b"" in v:
                    tree.append(["/".join(pre + [k.decode("utf-8", "replace")]), v[b""].get(b"length")])
                elif isinstance(v, dict):
                    walk(v, pre + [k.decode("utf-8", "replace")])
        walk(info[b"file tree"], [])
        tree = tree[:16]
    return {"info_sha1": hashlib.sha1(ref.info_span(data)).hexdigest(),
            "rest_sha1": hashlib.sha1(ref.bencode(m, sort_keys=False)).hexdigest(),
            "name": info.get(b"name", b"").decode("utf-8", "replace"), "piece length": info.get(b"piece length"),
            "length": info.get(b"length"), "files": files, "tree": tree, "npieces": len(info.get(b"pieces", b"")) // 20,
            "layers": len(m.get(b"piece layers", {})) if b"piece layers" in m else None,
            "top": sorted(k.decode("utf-8", "replace") for k in m)}


def _tree_digest(root):
    out = []
    if not os.path.exists(root):
        return None
    for dp, dns, fns in os.walk(root):
        dns.sort()
        for fn in sorted(fns):
            p = os.path.join(dp, fn)
            with open(p, "rb") as fh:
                out.append([os.path.relpath(p, root), hashlib.sha1(fh.read()).hexdigest()[:16]])
        if not dns and not fns:
            out.append([os.path.relpath(dp, root) + "/", None])
    return sorted(out)


def run_op(op):
    """execute ONE result-bearing operation with the real code and return its observable result (JSON-serialisable).
    Used verbatim by this process and by the fresh interpreter."""
    import io
    kind = op["op"]
    sink = io.StringIO()
    try:
        with contextlib.redirect_stdout(sink), contextlib.redirect_stderr(io.StringIO()):
            try:
                if kind == "create":
                    via = op["via"]
                    if via.startswith("cli"):
                        from torrentfile.cli import execute
                        argv = (["-q"] if op.get("quiet") else []) + ["create", op["path"], "--meta-version", via[3:], "-o", op["out"],
                                                                     "--prog", str(op.get("prog", 0))]
                        if op.get("pl"):
                            argv += ["--piece-length", str(op["pl"])]
                        execute(argv)
                    else:
                        from torrentfile import torrent as T
                        clsname, mv = CREATORS[via]
                        kw = dict(path=op["path"], outfile=op["out"], progress=op.get("prog", 0), meta_version=mv)
                        if op.get("pl"):
                            kw["piece_length"] = op["pl"]
                        getattr(T, clsname)(**kw).write()
                    return {"metafile": _meta_summary(op["out"])}
                if kind == "edit":
                    from torrentfile.edit import edit_torrent
                    if op.get("via") == "cli":
                        from torrentfile.cli import execute
                        argv = ["edit", op["metafile"]]
                        for k, v in op["args"].items():
                            flag = {"comment": "--comment", "source": "--source", "announce": "--tracker", "url-list": "--web-seed"}[k]
                            argv += [flag] + (list(v) if isinstance(v, list) else [v])
                        execute(argv)
                    else:
                        edit_torrent(op["metafile"], dict(op["args"]))
                    return {"metafile": _meta_summary(op["metafile"])}
                if kind == "recheck":
                    if op.get("via") == "cli":
                        from torrentfile.cli import execute
                        r = execute(["recheck", op["metafile"], op["content"]])
                    else:
                        from torrentfile.recheck import Checker
                        r = Checker(op["metafile"], op["content"]).results()
                    return {"percent": repr(round(float(r), 9))}
                if kind == "rebuild":
                    if op.get("via") == "cli":
                        from torrentfile.cli import execute
                        n = execute(["rebuild", "-m", op["metafile"], "-c", op["contents"], "-d", op["dest"]])
                    else:
                        from torrentfile.rebuild import Assembler
                        n = Assembler([op["metafile"]], [op["contents"]], op["dest"]).assemble_torrents()
                    return {"count": n, "rebuilt": _tree_digest(op["dest"])}
                if kind == "magnet":
                    if op.get("via") == "cli":
                        from torrentfile.cli import execute
                        uri = execute(["magnet", op["metafile"], "--meta-version", str(op.get("version", 0))])
                    else:
                        from torrentfile.commands import magnet
                        uri = magnet(op["metafile"], version=op.get("version", 0))
                    return {"uri": uri}
                return {"error": f"unknown op {kind}"}
            finally:
                _drop_log_handlers()
    except SystemExit as e:
        return {"raised": f"SystemExit({e.code})"}
    except BaseException as e:      # noqa: BLE001
        return {"raised": f"{type(e).__name__}: {e}"[:300]}


WORKER = """import json, sys
from native.harness_misc import run_op
op = json.load(open(sys.argv[1]))
res = run_op(op)
json.dump(res, open(sys.argv[2], "w"))
"""


def _repo_root():
    import torrentfile
    return os.path.dirname(os.path.dirname(os.path.abspath(torrentfile.__file__)))


def fresh_start(d, op, idx):
    """start the same operation in a fresh interpreter; returns a handle for fresh_finish"""
    verif = os.path.dirname(os.path.dirname(os.path.abspath(__file__)))
    worker = os.path.join(d, "worker.py")
    if not os.path.exists(worker):
        with open(worker, "w") as fh:
            fh.write(WORKER)
    opf, resf = os.path.join(d, f"op{idx}.json"), os.path.join(d, f"res{idx}.json")
    with open(opf, "w") as fh:
        json.dump(op, fh)
    env = {k: v for k, v in os.environ.items() if k not in ("PYTHONPATH", "TORRENTFILE_DEBUG")}
    env["PYTHONPATH"] = _repo_root() + os.pathsep + verif
    p = subprocess.Popen(["/venv/bin/python", worker, opf, resf], env=env, cwd=d, stdout=subprocess.DEVNULL, stderr=subprocess.PIPE)
    return p, resf


def fresh_finish(handle):
    p, resf = handle
    try:
        _, err = p.communicate(timeout=300)
    except subprocess.TimeoutExpired:
        p.kill()
        return {"worker": "timeout"}
    if p.returncode != 0 or not os.path.exists(resf):
        return {"worker": f"exit {p.returncode}: {err.decode('utf-8', 'replace')[-300:]}"}
    with open(resf) as fh:
        return json.load(fh)


C09_PL = 16384


def c09_tree(seed, which):
    pl = C09_PL
    c = lambda tag, n: content(seed, "c09" + tag, n)      # noqa: E731
    if which == "file":
        return "single.bin", c("s", 2 * 65536 + 5)
    # a.bin: 3 pieces of 64 KiB, 5 of 32 KiB, 9 of 16 KiB -> its piece layer needs padding nodes at every piece length
    return "content", {"a.bin": c("a", 2 * 65536 + 1), "b.txt": c("b", 10), "sub": {"c.dat": c("c", pl), "deep": {"d.bin": c("d", 5000)}},
                       "z.nfo": c("z", 50)}


def _fs_change(payload, kind, seed, step):
    """apply one filesystem change under (or to) the payload"""
    j = os.path.join
    isdir = os.path.isdir(payload)
    c = lambda n: content(seed, f"fs{step}{kind}", n)      # noqa: E731
    target_big = j(payload, "a.bin") if isdir else payload
    if kind == "add-top":
        with open(j(payload, "m_new.bin"), "wb") as fh:
            fh.write(c(20000))
    elif kind == "add-sub":
        with open(j(payload, "sub", "c2.dat"), "wb") as fh:
            fh.write(c(C09_PL + 1))
    elif kind == "add-deep":
        os.makedirs(j(payload, "sub", "deep", "newdir"), exist_ok=True)
        with open(j(payload, "sub", "deep", "newdir", "n.bin"), "wb") as fh:
            fh.write(c(100))
    elif kind == "delete-top":
        os.remove(j(payload, "b.txt"))
    elif kind == "delete-sub":
        os.remove(j(payload, "sub", "c.dat"))
    elif kind == "grow":
        with open(target_big, "ab") as fh:
            fh.write(c(3000))
    elif kind == "shrink":
        with open(target_big, "r+b") as fh:
            fh.truncate(C09_PL + 7)
    elif kind == "rewrite":
        # same size, other bytes, and the old timestamps put back: invisible to anything keyed on stat()
        t = j(payload, "sub", "deep", "d.bin") if isdir else payload
        st = os.stat(t)
        dst = os.stat(os.path.dirname(t))
        with open(t, "r+b") as fh:
            fh.write(c(st.st_size))
        os.utime(t, ns=(st.st_atime_ns, st.st_mtime_ns))
        os.utime(os.path.dirname(t), ns=(dst.st_atime_ns, dst.st_mtime_ns))
    elif kind == "grow-big":
        # beyond the first threshold of the automatic piece length (1000 * 16 KiB)
        with open(target_big, "ab") as fh:
            blk = c(65536)
            for _ in range(265):
                fh.write(blk)
    elif kind == "shrink-small":
        with open(target_big, "r+b") as fh:
            fh.truncate(70000)
    else:
        raise ValueError(kind)


def _cb_var(*a, **k):
    return None


def _cb_one(value):
    return None


def _state_op(kind, target, ctx):
    """operations that only touch process-level state; nothing to compare, they must not change later results"""
    from torrentfile import torrent as T
    if kind in ("set_callback", "set_callback_one_arg"):
        fn = _cb_var if kind == "set_callback" else _cb_one
        getattr(T, CREATORS[target][0]).set_callback(fn)
    elif kind == "register_callback":
        from torrentfile.recheck import Checker
        Checker.register_callback(_cb_var)
    elif kind == "quiet-info":
        from torrentfile.cli import execute
        with quiet():
            try:
                execute(["-q", "info", ctx["mf"]])
            except BaseException:       # noqa: BLE001
                pass
    elif kind == "verbose-info":
        from torrentfile.cli import execute
        with quiet():
            try:
                execute(["-v", "info", ctx["mf"]])
            except BaseException:       # noqa: BLE001
                pass


def _reset_process_state():
    import importlib
    hasher, recheck, rebuild = (importlib.import_module("torrentfile." + m) for m in ("hasher", "recheck", "rebuild"))
    for cls in (hasher.Hasher, hasher.HasherV2, hasher.HasherHybrid, hasher.FileHasher, rebuild.Metadata, rebuild.Assembler):
        if "cb" in vars(cls):
            try:
                delattr(cls, "cb")
            except AttributeError:
                pass
    recheck.Checker._hook = None
    _drop_log_handlers()
    sys.stdout, sys.stderr = sys.__stdout__, sys.__stderr__


def _norm(res):
    return json.loads(json.dumps(res).replace(".main.", ".X.").replace(".fresh.", ".X."))


def _vclass(via):
    if via.startswith("cli"):
        return f"v{via[3:]}:cli"
    return f"v{CREATORS[via][1]}:{via}"


def _c09_case(acc, case):
    seed = case.get("seed", 0)
    name, tree = c09_tree(seed, case.get("tree", "dir"))
    pending = []
    try:
        with tempdir() as d:
            work = os.path.join(d, "work")
            os.makedirs(work)
            os.makedirs(os.path.join(d, "out"))
            payload = ref.write_tree(work, name, tree)
            ctx = {"mf": None}
            last_disturbance = "none"

            def settle():
                ok = True
                while pending:
                    handle, got, i, step, cls_mid, dist = pending.pop(0)
                    want = fresh_finish(handle)
                    if "worker" in want:
                        acc.fail("C09:harness:worker-failed", case, want["worker"])
                        ok = False
                        continue
                    g, w = _norm(got), _norm(want)
                    if g == w:
                        continue
                    what = "raises" if "raised" in g and "raised" not in w else "differs-from-fresh"
                    detail = {k: (g.get(k), w.get(k)) for k in set(g) | set(w) if g.get(k) != w.get(k)}
                    if "raised" in detail:
                        detail = {"raised": detail["raised"]}
                    if set(detail) == {"metafile"} and isinstance(g.get("metafile"), dict) and isinstance(w.get("metafile"), dict):
                        gm, wm = g["metafile"], w["metafile"]
                        detail = {k: (gm.get(k), wm.get(k)) for k in set(gm) | set(wm) if gm.get(k) != wm.get(k)}
                    acc.fail(f"C09:{cls_mid}:{what}:after-{dist}", dict(case, failed_step=i),
                             f"step {i} {step}: (in this process, in a fresh interpreter) = {detail}",
                             "the result a fresh interpreter computes on the same filesystem state")
                return ok

            for i, step in enumerate(case["seq"]):
                kind = step["op"]
                if kind == "fs":
                    if not settle():
                        return
                    try:
                        _fs_change(payload, step["kind"], seed, i)
                    except OSError as e:
                        acc.fail("C09:harness:fs-change-failed", case, f"{type(e).__name__}: {e}")
                        return
                    last_disturbance = step["kind"]
                    continue
                if kind == "state":
                    _state_op(step["kind"], step.get("target"), ctx)
                    last_disturbance = step["kind"]
                    continue
                # result-bearing operation: build the two concrete argument sets (outputs side by side)
                main, fresh = dict(step), dict(step)
                cls_mid = kind
                if kind == "create":
                    main.update(path=payload, out=os.path.join(d, "out", f"o{i}.main.torrent"))
                    fresh.update(path=payload, out=os.path.join(d, "out", f"o{i}.fresh.torrent"))
                    cls_mid = f"create:{_vclass(step['via'])}" + (":auto-pl" if not step.get("pl") else "")
                elif ctx["mf"] is None:
                    acc.fail("C09:harness:no-metafile", case, "sequence uses a metafile before any successful create")
                    return
                elif kind == "edit":
                    a, b2 = os.path.join(d, "out", f"e{i}.main.torrent"), os.path.join(d, "out", f"e{i}.fresh.torrent")
                    shutil.copy2(ctx["mf"], a)
                    shutil.copy2(ctx["mf"], b2)
                    main["metafile"], fresh["metafile"] = a, b2
                elif kind == "recheck":
                    main.update(metafile=ctx["mf"], content=payload if step.get("at") != "parent" else work)
                    fresh.update(main)
                elif kind == "rebuild":
                    main.update(metafile=ctx["mf"], contents=work, dest=os.path.join(d, f"dest{i}.main.d"))
                    fresh.update(metafile=ctx["mf"], contents=work, dest=os.path.join(d, f"dest{i}.fresh.d"))
                    os.makedirs(main["dest"])
                    os.makedirs(fresh["dest"])
                elif kind == "magnet":
                    main.update(metafile=ctx["mf"])
                    fresh.update(main)
                if kind != "create":
                    cls_mid = f"{kind}:v{ctx.get('mfv', '?')}:{step.get('via', 'lib')}"
                check = step.get("check", True)
                handle = fresh_start(d, fresh, i) if check else None
                os.chdir(d)
                got = run_op(main)
                sys.stdout, sys.stderr = sys.__stdout__, sys.__stderr__
                if kind == "create" and "metafile" in got:
                    ctx["mf"] = main["out"]
                    ctx["mfv"] = step["via"][3:] if step["via"].startswith("cli") else CREATORS[step["via"]][1]
                elif kind == "edit" and "metafile" in got:
                    ctx["mf"] = main["metafile"]
                if check:
                    # the fresh interpreter only reads the payload / metafiles and writes its own outputs: it may keep running
                    # until the next change of the filesystem state
                    pending.append((handle, got, i, step, cls_mid, last_disturbance))
            if not settle():
                return
    finally:
        for item in pending:
            fresh_finish(item[0])
        _reset_process_state()


LIB_CREATORS = list(CREATORS)
ALL_CREATORS = LIB_CREATORS + ["cli1", "cli2", "cli3"]
FS_DIR = ["add-top", "add-sub", "add-deep", "delete-top", "delete-sub", "grow", "shrink", "rewrite"]
FS_FILE = ["grow", "shrink", "rewrite"]


def _cr(via, pl=C09_PL, prog=0, **k):
    return dict({"op": "create", "via": via, "pl": pl, "prog": prog}, **k)


def _fs(kind):
    return {"op": "fs", "kind": kind}


def _st(kind, target=None):
    return {"op": "state", "kind": kind, "target": target}


def _observers():
    return ([_cr(v) for v in ALL_CREATORS] + [{"op": "recheck"}, {"op": "recheck", "via": "cli"}, {"op": "rebuild"}, {"op": "magnet"},
            {"op": "edit", "args": {"comment": "edited"}}])


def _c09_cases(tier, seed):
    cases = []

    def add(seq, tree="dir"):
        cases.append({"prop": "C09", "tree": tree, "seed": seed, "seq": seq})
    # A. create, change, create again with the same creator (every creator x a rotating choice of changes)
    # (the arguments vary between the operations as well: piece lengths 64K -> 16K, 32K -> 64K)
    for ci, via in enumerate(ALL_CREATORS):
        for r, (pl1, pl2) in enumerate(((16384, 16384), (65536, 16384), (32768, 65536))):
            add([_cr(via, pl=pl1), _fs(FS_DIR[(ci * 3 + r) % len(FS_DIR)]), _cr(via, pl=pl2)])
    # A2. no change in between, larger piece length first, then smaller ones through every hasher, then recheck / rebuild
    for big, small in (("TorrentFileV2", "TorrentAssembler2"), ("TorrentAssembler3", "TorrentFileHybrid"), ("TorrentFileHybrid", "TorrentFileV2"),
                       ("cli2", "cli3"), ("TorrentFile", "TorrentFile")):
        add([_cr(big, pl=262144), _cr(small, pl=32768), {"op": "recheck"}, {"op": "rebuild"}])
        add([_cr(big, pl=65536), _cr(small, pl=16384), _cr(big, pl=32768), {"op": "recheck"}])
    # B. another creator after the change
    for x, f, y in (("TorrentFile", "add-sub", "TorrentAssembler3"), ("TorrentFileV2", "delete-sub", "TorrentFile"),
                    ("cli1", "grow", "TorrentFileHybrid"), ("TorrentAssembler2", "add-deep", "cli1"),
                    ("TorrentFileHybrid", "shrink", "cli3"), ("cli2", "rewrite", "TorrentFileV2")):
        add([_cr(x, pl=65536), _fs(f), _cr(y, pl=32768)])
    # C. recheck / magnet / rebuild / edit interleaved with changes
    for via, f in (("TorrentFile", "grow"), ("TorrentAssembler2", "delete-top"), ("TorrentFileHybrid", "rewrite"), ("cli3", "add-sub")):
        add([_cr(via), {"op": "recheck"}, _fs(f), {"op": "recheck"}])
        add([_cr(via), _fs(f), {"op": "recheck", "via": "cli"}, _cr(via)])
    for via in ("TorrentFile", "TorrentFileV2", "TorrentAssembler3"):
        add([_cr(via), {"op": "rebuild"}, {"op": "rebuild"}])
        add([_cr(via), {"op": "rebuild"}, _fs("delete-sub"), {"op": "rebuild"}])
        # a candidate file rewritten in place (same size, same timestamps) between two rebuilds, with and without a new metafile
        add([_cr(via), {"op": "rebuild"}, _fs("rewrite"), {"op": "rebuild"}])
        add([_cr(via), {"op": "rebuild"}, _fs("rewrite"), _cr(via), {"op": "rebuild"}, {"op": "recheck"}])
        add([_cr(via), {"op": "edit", "args": {"comment": "c1", "announce": ["http://t/1"]}}, {"op": "magnet"},
             {"op": "edit", "args": {"source": "S", "url-list": ["http://w/1"]}}])
        add([_cr(via), {"op": "magnet"}, {"op": "edit", "args": {"comment": "c2"}, "via": "cli"}, {"op": "magnet", "via": "cli"}])
    # D. process-level state: callbacks, quiet / verbose mode
    for via in LIB_CREATORS:
        add([_st("set_callback", via), _cr(via), _fs("add-top"), _cr(via)])
    add([_cr("TorrentFile"), _st("register_callback"), {"op": "recheck"}, {"op": "rebuild"}])
    add([_cr("TorrentAssembler3"), _st("set_callback", "TorrentAssembler3"), {"op": "recheck"}, {"op": "magnet"}])
    add([_cr("cli1", quiet=True), _cr("TorrentFile", prog=1), {"op": "magnet"}, {"op": "recheck", "via": "cli"}])
    add([_cr("TorrentFileV2"), _st("quiet-info"), _cr("cli2", prog=2), {"op": "recheck"}])
    add([_cr("TorrentFile"), _st("verbose-info"), _cr("TorrentFile", prog=2), {"op": "rebuild", "via": "cli"}])
    # E. a callback of the documented shape (one parameter)
    for via in LIB_CREATORS:
        add([_st("set_callback_one_arg", via), _cr(via)])
    add([_cr("TorrentAssembler2"), _st("set_callback_one_arg", "TorrentAssembler2"), {"op": "recheck"}])
    add([_cr("TorrentFileV2"), _st("set_callback_one_arg", "TorrentFileV2"), {"op": "rebuild"}])
    # F. automatic piece length after the payload grew / shrank across a threshold
    add([_cr("TorrentFile", pl=None), _fs("grow-big"), _cr("TorrentFile", pl=None)])
    add([_cr("TorrentAssembler3", pl=None), _fs("grow-big"), _cr("cli2", pl=None), _cr("TorrentAssembler3", pl=None)])
    add([dict(_cr("cli1", pl=None), check=False), _fs("grow-big"), dict(_cr("cli1", pl=None), check=False), _fs("shrink-small"), _cr("cli1", pl=None)])
    # G. single-file payload
    for ci, via in enumerate(("TorrentFile", "TorrentFileV2", "TorrentFileHybrid", "cli3")):
        add([_cr(via), _fs(FS_FILE[ci % 3]), _cr(via), {"op": "recheck"}], tree="file")
    add([_cr("TorrentFile", pl=None), _fs("grow-big"), _cr("TorrentFile", pl=None)], tree="file")
    if tier == "quick":
        return cases
    # thorough: the full product create X ; change f ; observe Y, and length-4 continuations
    n = 0
    for x in ALL_CREATORS:
        for f in FS_DIR:
            for y in _observers():
                n += 1
                y = dict(y)
                if y["op"] == "create":
                    y["pl"] = (16384, 32768, 65536)[n % 3]
                add([dict(_cr(x, pl=(65536, 16384, 262144)[n % 3]), check=(n % 7 == 0)), _fs(f), y])
    for x in ALL_CREATORS:
        for f1, f2 in zip(FS_DIR, FS_DIR[3:] + FS_DIR[:3]):
            for yi, y in enumerate(_observers()):
                n += 1
                if (n + yi) % 3 == 0:
                    add([dict(_cr(x), check=False), _fs(f1), dict(y), dict(_cr(x))])
                elif (n + yi) % 3 == 1 and not (f1.startswith("delete") and f2.startswith("delete")):
                    add([dict(_cr(x), check=False), _fs(f1), _fs(f2), dict(y)])
    for x in ("TorrentFile", "TorrentFileV2", "TorrentFileHybrid", "TorrentAssembler2", "TorrentAssembler3", "cli1", "cli2", "cli3"):
        for f in FS_FILE:
            for y in (_cr(x), {"op": "recheck"}, {"op": "magnet"}, {"op": "rebuild"}):
                add([dict(_cr(x), check=False), _fs(f), y], tree="file")
        for f in ("grow-big",):
            add([_cr(x, pl=None), _fs(f), _cr(x, pl=None)])
    # no change in between: repeated operations and mixtures
    for x in ALL_CREATORS:
        for y in _observers():
            add([dict(_cr(x), check=False), y, dict(y)])
    for st in ("set_callback", "register_callback", "quiet-info", "verbose-info"):
        for x in LIB_CREATORS:
            for y in _observers()[8:]:
                add([dict(_cr(x), check=False), _st(st, x), y, dict(_cr(x))])
    return cases


def _seq_key(case):
    return json.dumps([case["tree"], case["seq"]], sort_keys=True)


@harness("C09")
def h_c09(tier, seed, hints):
    acc = Acc("C09", "operation sequences (length 2-4, plus longer mixed ones) over {create via 5 creator classes and the command line "
              "for v1/v2/hybrid, add / delete / grow / shrink / rewrite-with-old-timestamps of files under the payload, edit, recheck, "
              "rebuild, magnet, set_callback / register_callback / -q / -v} run in ONE process; every result-bearing step is repeated "
              "by a fresh interpreter (subprocess) on the same filesystem state and the observable results (metafile minus creation "
              "date, percentage, rebuilt tree + count, URI, edited file) must be equal; distinct = operation sequence",
              "quick: ~70 chosen sequences; thorough: full product creator x change x observer, repeated observers, state operations")
    seen = set()
    for case in _c09_cases(tier, seed):
        k = _seq_key(case)
        if k in seen:
            continue
        seen.add(k)
        _c09_case(acc, case)
        acc.case(k, case if len(case["seq"]) == 4 and case["seq"][1]["op"] == "fs" else None)
    return acc.result()


@replayer("C09")
def r_c09(acc, case):
    _c09_case(acc, case)
