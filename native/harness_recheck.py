"""Bounded native harnesses for the recheck side: C04, C05, C16.

The code under test is torrentfile.recheck.Checker: results() gives the percentage; the (chunk, piece, path, size) tuples
that its public generator iter_hashes() hands out while results() runs are tapped to obtain the individual piece
verdicts (second sentence of C16, and the diagnosis attached to every wrong percentage).  The oracle is native/ref.py
(ref_recheck_pieces): exact share of payload bytes lying in verifying pieces, absent data read as zeros.  Nothing of
/repo's algorithms is used to judge.

A case is a JSON dict
    prop     "C04" | "C05" | "C16"
    seed     content seed
    pl       piece length
    version  1 | 2 | 3
    src      who wrote the metafile: "tf" (torrentfile's creators), "ref" (reference encoder), "ref-padlast"
             (hybrid with a trailing padding entry), "ref-align" / "ref-align-padlast" (v1 with BEP 47 padding entries)
    layout   {"single": size} | {"files": [[path, size], ...]} (paths with '/', in tree order), optional "same": true
             (all files take their bytes from one stream, so equal sizes give identical files)
    via      "root" | "parent" | "parent-samename"  -- the content path handed to Checker
    damage   [ {"op": "flip", "file": path, "at": offset} | {"op": "trunc", "file": path, "to": length}
               | {"op": "rm", "file": path} ]

Failure classes  "<prop>:<checker family>:<what is reported>:<piece diagnosis>:<structural context>[:ref-encoded-only][:parent-only]"
    checker family     v1 (pieces of the concatenated stream) | v2+hybrid (per-file pieces)
    piece diagnosis    which reference pieces the real code did not check / checked in surplus / accepted though bad /
                       rejected though good
    structural context where those pieces lie (see context()); it does not name the individual damage operation
"""
import contextlib
import functools
import itertools
import os
import signal
import threading

from native.harness import Acc, harness, replayer, tempdir, quiet, content, small_trees, make_metafile   # noqa: F401
from native import ref

B = 16384
DIRNAME = "payload"
SINGLENAME = "single.bin"
EPS = 1e-9


# ----------------------------------------------------------------------------------------------- scope
def size_alphabet(pl):
    return sorted({0, 1, B - 1, B, B + 1, pl - 1, pl, pl + 1, 2 * pl - 1, 2 * pl, 2 * pl + 1, 3 * pl, 3 * pl + B + 1, 5 * pl})


def core_sizes(pl):
    """reduced alphabet: empty, tiny, exactly one piece, one piece + 1, several pieces + 1"""
    return [0, 1, pl, pl + 1, 2 * pl + 1]


SHAPES = {
    "flat": {1: ["a"], 2: ["a", "b"], 3: ["a", "b", "c"]},
    "sub": {1: ["s/a"], 2: ["a", "s/b"], 3: ["a", "s/b", "s/c"]},
    "two": {1: ["s/t/a"], 2: ["s/a", "s/t/b"], 3: ["a", "s/b", "s/t/c"]},
}


def layout_of(shape, sizes):
    return {"files": [[p, s] for p, s in zip(SHAPES[shape][len(sizes)], sizes)]}


def special_triples(pl):
    """the file lists the property statements name"""
    return [
        (0, pl, 2 * pl), (pl, 0, 2 * pl), (pl, 2 * pl, 0),             # empty file first / middle / last, files ending on boundaries
        (0, 0, pl + 1), (pl + 1, 0, 0), (0, pl + 1, 0), (1, 0, 1),      # several empty files, empty files next to small ones
        (pl, 2 * pl, 1), (pl, 2 * pl, pl + 1), (2 * pl, pl, 3 * pl),    # files that follow files ending on piece boundaries
        (pl - 1, 1, pl), (1, 1, 1), (B - 1, B + 1, 1),                  # pieces shared by several files
        (pl + 1, 2 * pl - 1, 5 * pl), (3 * pl + B + 1, 1, 2 * pl + 1), (5 * pl, pl, 0), (2 * pl - 1, 2 * pl + 1, 3 * pl),
    ]


def _uniq(lists):
    out, seen = [], set()
    for t in lists:
        t = tuple(t)
        if t not in seen and sum(t) > 0:
            seen.add(t)
            out.append(t)
    return out


def lists_small(pl):
    """lists of length <= 2 over the reduced alphabet + the special triples"""
    c = core_sizes(pl)
    return _uniq(list(itertools.product(c, repeat=1)) + list(itertools.product(c, repeat=2)) + special_triples(pl))


def lists_core(pl):
    """every list of length <= 2 over the full alphabet, 64 triples over {0, 1, pl, 2pl+1}, the special triples"""
    a = size_alphabet(pl)
    return _uniq(list(itertools.product(a, repeat=1)) + list(itertools.product(a, repeat=2))
                 + list(itertools.product([0, 1, pl, 2 * pl + 1], repeat=3)) + special_triples(pl))


def lists_quick(pl):
    """quick tier: lists of length <= 2 over 8 of the sizes, 64 triples over {0, 1, pl, 2pl+1}, the special triples"""
    q = [0, 1, pl - 1, pl, pl + 1, 2 * pl, 2 * pl + 1, 3 * pl + B + 1]
    return _uniq(list(itertools.product(q, repeat=1)) + list(itertools.product(q, repeat=2))
                 + list(itertools.product([0, 1, pl, 2 * pl + 1], repeat=3)) + special_triples(pl) + lists_small(pl))


def lists_all(pl):
    """every list of length <= 3 over the full alphabet (core lists first)"""
    a = size_alphabet(pl)
    return _uniq(lists_core(pl) + list(itertools.product(a, repeat=3)))


def variants(version, full=True):
    """metafile sources for a version"""
    if version == 1:
        return ["tf", "ref"] + (["ref-align", "ref-align-padlast"] if full else [])
    if version == 2:
        return ["tf", "ref"]
    return ["tf", "ref", "ref-padlast"]


# ----------------------------------------------------------------------------------------------- preparation
@functools.lru_cache(maxsize=512)
def _content(seed, tag, n):
    return content(seed, tag, n)


def _file_bytes(case, path, size):
    if case["layout"].get("same"):
        return _content(case["seed"], "same", size)
    return _content(case["seed"], path, size)


def case_sizes(case):
    """[(path, size)] in tree order; a single file has path ''"""
    lay = case["layout"]
    if "single" in lay:
        return [("", lay["single"])]
    return [(p, s) for p, s in lay["files"]]


def case_files(case):
    """[(path, bytes)] in tree order"""
    return [(p, _file_bytes(case, p or "single", s)) for p, s in case_sizes(case)]


def case_tree(case):
    files = case_files(case)
    if "single" in case["layout"]:
        return SINGLENAME, files[0][1]
    tree = {}
    for p, data in files:
        node = tree
        comps = p.split("/")
        for c in comps[:-1]:
            node = node.setdefault(c, {})
        node[comps[-1]] = data
    return DIRNAME, tree


class Ctx:
    pass


@contextlib.contextmanager
def prepared(case):
    """payload on disk + metafile; yields a Ctx"""
    with tempdir() as d:
        name, tree = case_tree(case)
        base = d
        if case.get("via") == "parent-samename":
            base = os.path.join(d, name)            # .../payload/payload: the parent carries the payload's name
            os.makedirs(base)
        ctx = Ctx()
        ctx.d, ctx.name, ctx.parent = d, name, base
        ctx.files = dict(case_files(case))
        ctx.root = ref.write_tree(base, name, tree)
        src, version, pl = case["src"], case["version"], case["pl"]
        mfdir = os.path.join(d, "__metafile")
        os.makedirs(mfdir)
        ctx.mf = os.path.join(mfdir, "m.torrent")
        if src == "tf":
            from torrentfile.torrent import TorrentFile, TorrentAssembler
            kw = dict(path=ctx.root, piece_length=pl, progress=0, outfile=ctx.mf)
            with quiet():
                t = TorrentFile(**kw) if version == 1 else TorrentAssembler(meta_version=str(version), **kw)
                t.write()
            with open(ctx.mf, "rb") as fh:
                raw = fh.read()
        else:
            opts = {"ref": {}, "ref-padlast": {"pad_last": True}, "ref-align": {"align": True},
                    "ref-align-padlast": {"align": True, "pad_last": True}}[src]
            raw = ref.bencode(ref.ref_metafile(name, tree, pl, version, **opts))
            with open(ctx.mf, "wb") as fh:
                fh.write(raw)
        ctx.meta = ref.to_text(ref.bdecode(raw, strict=False))
        yield ctx


def _fs_path(ctx, path):
    return ctx.root if path == "" else os.path.join(ctx.root, *path.split("/"))


def apply_damage(ctx, damage):
    touched = []
    for op in damage:
        p = _fs_path(ctx, op["file"])
        touched.append(op["file"])
        if op["op"] == "rm":
            if os.path.exists(p):
                os.remove(p)
        elif op["op"] == "trunc":
            if os.path.exists(p):
                with open(p, "r+b") as fh:
                    fh.truncate(op["to"])
        elif op["op"] == "flip":
            if os.path.exists(p) and os.path.getsize(p) > op["at"]:
                with open(p, "r+b") as fh:
                    fh.seek(op["at"])
                    fh.write(bytes([ctx.files[op["file"]][op["at"]] ^ 0xFF]))
        else:
            raise ValueError(op)
    return touched


def restore(ctx, touched):
    for path in set(touched):
        with open(_fs_path(ctx, path), "wb") as fh:
            fh.write(ctx.files[path])


def effective(case):
    """does the damage set change at least one described byte?  (contents are non-zero, so every flip / truncation /
    removal of a non-empty file does; removing an empty file does not)"""
    sizes = dict(case_sizes(case))
    for op in case.get("damage") or []:
        n = sizes[op["file"]]
        if op["op"] == "rm" and n > 0:
            return True
        if op["op"] == "trunc" and op["to"] < n:
            return True
        if op["op"] == "flip" and op["at"] < n:
            return True
    return False


# ----------------------------------------------------------------------------------------------- running the real code
class _Timeout(BaseException):
    pass


@contextlib.contextmanager
def deadline(seconds):
    """the code under test must not be able to hang the harness"""
    usable = hasattr(signal, "setitimer") and threading.current_thread() is threading.main_thread()
    if not usable:
        yield
        return

    def onalarm(signum, frame):
        raise _Timeout()
    old = signal.signal(signal.SIGALRM, onalarm)
    signal.setitimer(signal.ITIMER_REAL, seconds)
    try:
        yield
    finally:
        signal.setitimer(signal.ITIMER_REAL, 0)
        signal.signal(signal.SIGALRM, old)


def content_path(ctx, case):
    return ctx.root if case.get("via", "root") == "root" else ctx.parent


def run_checker(ctx, case):
    """Checker(metafile, content path).results(), with the tuples its iter_hashes() generator hands out recorded.
    Returns (kind, value, detail, pieces): kind "value" | "raised" | "timeout"; pieces = [(id, size, ok)] with ids as in
    ref_recheck_pieces (v1: running index; v2 / hybrid: (path components, running index within the file))"""
    from torrentfile.recheck import Checker
    rec = []
    try:
        with deadline(20), quiet():
            ck = Checker(ctx.mf, content_path(ctx, case))
            inner = ck.iter_hashes

            def tap():
                for item in inner():
                    rec.append(item)
                    yield item
            ck.iter_hashes = tap
            val = ck.results()
            rootp = str(ck.root)
    except _Timeout:
        return ("timeout", None, "no answer within 20 s", None)
    except BaseException as e:      # noqa: BLE001
        if isinstance(e, KeyboardInterrupt):
            raise
        return ("raised", type(e).__name__, f"{type(e).__name__}: {e}", None)
    pieces, per = [], {}
    for n, (chunk, piece, path, size) in enumerate(rec):
        if case["version"] == 1:
            pieces.append((n, size, chunk == piece))
        else:
            rel = os.path.relpath(str(path), rootp)
            comps = (ctx.name,) if rel == "." else tuple(rel.split(os.sep))
            j = per.get(comps, 0)
            per[comps] = j + 1
            pieces.append(((comps, j), size, chunk == piece))
    return ("value", val, None, pieces)


def oracle(ctx):
    """(share in percent, piece verdicts) from the reference"""
    verdicts = ref.ref_recheck_pieces(ctx.meta, ctx.root)
    total = sum(s for _, s, _ in verdicts)
    good = sum(s for _, s, ok in verdicts if ok)
    return (100.0 * good / total if total else 100.0), verdicts


def diagnose(case, got, want):
    """compare the piece verdicts of the real code with the reference; returns (stable keyword, full detail)"""
    if got is None:
        return "no-piece-verdicts", {}
    padded = case["src"].startswith("ref-align")
    wd = {i: (s, ok) for i, s, ok in want}
    gd, dup = {}, []
    for i, s, ok in got:
        if i in gd:
            dup.append(i)
        gd[i] = (s, ok)
    d = {
        "not checked": [i for i in wd if i not in gd],
        "surplus": [i for i in gd if i not in wd and gd[i][0] > 0] + dup,
        "bad accepted": [i for i in wd if i in gd and gd[i][1] and not wd[i][1]],
        "good rejected": [i for i in wd if i in gd and not gd[i][1] and wd[i][1]],
    }
    d["size differs"] = [] if padded or d["not checked"] or d["surplus"] else [i for i in wd if i in gd and gd[i][0] != wd[i][0]]
    words = [w for k, w in (("not checked", "pieces-not-checked"), ("surplus", "surplus-pieces"), ("bad accepted", "bad-piece-accepted"),
                            ("good rejected", "good-piece-rejected"), ("size differs", "piece-size")) if d[k]]
    return "+".join(words) or "piece-verdicts-agree", {k: v for k, v in d.items() if v}


def _show(d):
    return {k: v[:5] + (["..."] if len(v) > 5 else []) for k, v in d.items()}


# ----------------------------------------------------------------------------------------------- structural context
def family(case):
    return "v1" if case["version"] == 1 else "v2+hybrid"


def _v1_segments(ctx):
    """[(layout path | None for a padding entry, length)] of the v1 stream, in metafile order"""
    info = ctx.meta["info"]
    if "files" not in info:
        return [("", info["length"])]
    out = []
    for e in info["files"]:
        pad = "p" in (e.get("attr") or "")
        out.append((None if pad else "/".join(e["path"]), e["length"]))
    return out


def _v2_order(node, prefix=()):
    """[(layout path, length)] of a file tree, in metafile order"""
    out = []
    for k, v in node.items():
        if isinstance(v, dict) and isinstance(v.get(""), dict):
            out.append(("/".join(prefix + (k,)), v[""].get("length", 0)))
        elif isinstance(v, dict):
            out += _v2_order(v, prefix + (k,))
    return out


def context(case, ctx, d):
    """where the mis-handled pieces lie: a small stable vocabulary describing the structure around them"""
    if "single" in case["layout"]:
        if case["version"] != 1 and "length" not in ctx.meta["info"]:
            return "single-file-without-info-length"
        return "single-file"
    removed = {op["file"] for op in (case.get("damage") or []) if op["op"] == "rm"}
    pl = case["pl"]
    tags = []
    if case["version"] == 1:
        segs = _v1_segments(ctx)
        total = sum(n for _, n in segs)
        last = (total - 1) // pl
        real = [(p, n) for p, n in segs if p is not None]
        nc = d.get("not checked", [])
        if nc:
            if nc == [last] and total % pl:
                lp, ln = real[-1]
                state = "last-file-empty" if ln == 0 else ("last-file-missing" if lp in removed else "last-file-present")
                tags.append("trailing-partial-piece:" + state)
            else:
                tags.append("pieces-elsewhere")
        if d.get("surplus") or d.get("bad accepted") or d.get("good rejected") or d.get("size differs"):
            off, hit = 0, False
            for p, n in segs:
                if p in removed and n > 0 and off > 0 and off % pl == 0:
                    hit = True
                off += n
            tags.append("missing-file-starts-on-piece-boundary" if hit else "elsewhere")
    else:
        order = _v2_order(ctx.meta["info"]["file tree"])
        pos = {p: i for i, (p, _) in enumerate(order)}
        bad = set()
        for k in ("not checked", "surplus", "bad accepted", "good rejected", "size differs"):
            for ident in d.get(k, []):
                bad.add("/".join(ident[0]))
        if bad and all(p in pos and any(n == 0 for _, n in order[:pos[p]]) for p in bad):
            tags.append("file-after-empty-file")
        else:
            tags.append("elsewhere")
    return "+".join(tags) or "no-piece-differs"


GENERIC = ("single-file", "elsewhere", "pieces-elsewhere", "no-piece-differs")


def where(case, ctx, word, d):
    """class suffix: the structural context; the piece diagnosis is added only when the context says nothing specific"""
    c = context(case, ctx, d)
    return f"{word}:{c}" if any(g in c.split("+") for g in GENERIC) else c


def input_class(case):
    """fallback when the real code gives no piece verdicts at all (exception / time-out): structure of the input"""
    sizes = [s for _, s in case_sizes(case)]
    if "single" in case["layout"]:
        return "single-file"
    ops = sorted({op["op"] for op in (case.get("damage") or [])})
    tags = ["dir"]
    if 0 in sizes:
        tags.append("with-empty-file")
    if ops:
        tags.append("+".join(ops))
    return ":".join(tags)


def _is_100(kind, val):
    return kind == "value" and isinstance(val, (int, float)) and not isinstance(val, bool) and val == 100      # exactly 100: the property says so, and matched / consumed * 100 with matched == consumed is exact


def _bucket(val):
    if not isinstance(val, (int, float)) or isinstance(val, bool):
        return "non-number"
    if val == 0:
        return "0"
    if val >= 100:
        return "100"
    return "between"


# ----------------------------------------------------------------------------------------------- driving
def _grouped(cases, keyf):
    cur_key, group = None, []
    for case in cases:
        k = keyf(case)
        if k != cur_key and group:
            yield group
            group = []
        cur_key = k
        group.append(case)
    if group:
        yield group


def _prep_key(case):
    return (case["seed"], case["pl"], case["version"], case["src"], repr(case["layout"]), case.get("via") == "parent-samename")


def _case_key(case):
    return (case["pl"], case["version"], case["src"], repr(case["layout"]), case.get("via"), repr(case.get("damage")))


def _drive(acc, prop, cases, runner, sample_every=1999):
    """run consecutive cases that share payload and metafile on one prepared directory (damage is undone after each case)"""
    n = 0
    for group in _grouped(cases, _prep_key):
        try:
            with prepared(group[0]) as ctx:
                for case in group:
                    touched = apply_damage(ctx, case.get("damage") or [])
                    try:
                        runner(acc, case, ctx)
                    finally:
                        restore(ctx, touched)
                    acc.case(_case_key(case), case if n % sample_every == 0 else None)
                    n += 1
        except BaseException as e:      # noqa: BLE001
            if isinstance(e, KeyboardInterrupt):
                raise
            acc.fail(f"{prop}:prepare:{group[0]['src']}:v{group[0]['version']}:{type(e).__name__}", group[0], f"{type(e).__name__}: {e}",
                     "payload and metafile written")


def _replay(acc, case, runner):
    try:
        with prepared(case) as ctx:
            apply_damage(ctx, case.get("damage") or [])
            runner(acc, case, ctx)
    except BaseException as e:      # noqa: BLE001
        if isinstance(e, KeyboardInterrupt):
            raise
        acc.fail(f"{case['prop']}:prepare:{case['src']}:v{case['version']}:{type(e).__name__}", case, f"{type(e).__name__}: {e}",
                 "payload and metafile written")


# ----------------------------------------------------------------------------------------------- C05
def _passes_intact(case):
    try:
        with prepared(case) as ctx:
            kind, val, _, _ = run_checker(ctx, case)
            return _is_100(kind, val)
    except BaseException as e:      # noqa: BLE001
        if isinstance(e, KeyboardInterrupt):
            raise
        return False


def _c05_run(acc, case, ctx):
    kind, val, detail, pieces = run_checker(ctx, case)
    if _is_100(kind, val):
        return
    if case.get("via") == "parent-samename":
        # a class of its own: the parent directory carries the same name as the payload
        acc.fail(f"C05:content-path:parent-named-like-payload:{'single-file' if 'single' in case['layout'] else 'dir'}", case,
                 detail if kind != "value" else f"recheck reports {val}", "exactly 100.0 for intact content")
        return
    # is the failure tied to the foreign encoder / to the parent directory as content path?
    only = ""
    if case["src"] != "tf" and _passes_intact(dict(case, src="tf")):
        only += ":ref-encoded-only"
    if case.get("via") == "parent" and _passes_intact(dict(case, via="root")):
        only += ":parent-only"
    fam = family(case)
    if kind != "value":
        acc.fail(f"C05:{fam}:{kind}:{val}:{input_class(case)}{only}", case, detail, "100.0")
        return
    word, d = diagnose(case, pieces, oracle(ctx)[1])
    acc.fail(f"C05:{fam}:reports-{_bucket(val)}:{where(case, ctx, word, d)}{only}", case, f"recheck reports {val}; {word}: {_show(d)}",
             "exactly 100.0 for intact content")


def _c05_case(acc, case):
    _replay(acc, case, _c05_run)


def _intact_cases(tier, seed, prop):
    pls = (16384,) if tier == "quick" else (16384, 32768, 65536)
    for pl in pls:
        lists = lists_core(pl) if tier == "quick" else lists_all(pl)
        nested = set(special_triples(pl)) if tier == "quick" else set(lists_core(pl))
        for version in (1, 2, 3):
            for src in variants(version):
                def mk(layout, via):
                    return {"prop": prop, "seed": seed, "pl": pl, "version": version, "src": src, "layout": layout, "via": via, "damage": []}
                for s in size_alphabet(pl):
                    if s:
                        for via in ("root", "parent"):
                            yield mk({"single": s}, via)
                for sizes in lists:
                    for shape in ("flat", "sub", "two"):
                        if shape != "flat" and sizes not in nested:
                            continue
                        for via in ("root", "parent"):
                            yield mk(layout_of(shape, list(sizes)), via)
                # totals t for which t * (100 / t) != 100.0 in binary floating point (a percentage computed through a reciprocal
                # reports 99.99999999999999 / 100.00000000000001 for intact content)
                if pl == 16384:
                    for s in (11, 22, 39, 100001):
                        yield mk({"single": s}, "root")
                    yield mk(layout_of("flat", [65536, 0, 34465]), "root")
                # identical files (one piece-layers entry serves several files)
                for sizes in ((2 * pl + 1, 2 * pl + 1), (pl, pl, pl), (3 * pl, 1, 3 * pl)):
                    lay = layout_of("flat", list(sizes))
                    lay["same"] = True
                    for via in ("root", "parent"):
                        yield mk(lay, via)
                # the parent directory is named like the payload
                for lay in ({"single": pl + 1}, layout_of("flat", [pl + 1, 0, 1]), layout_of("sub", [1, 2 * pl])):
                    yield mk(lay, "parent-samename")


@harness("C05")
def h_c05(tier, seed, hints):
    acc = Acc("C05", "intact payloads: single files and file lists of length <= 3 over the size alphabet {0,1,B-1,B,B+1,pl-1,pl,pl+1,2pl-1,2pl,"
              "2pl+1,3pl,3pl+B+1,5pl} in flat / one sub-directory / two-level shapes, identical files; metafiles v1 / v2 / hybrid written by "
              "torrentfile's creators and by the reference encoder (incl. v2 single file without info.length, hybrid with and without "
              "trailing padding entry, v1 with BEP 47 padding entries); content path = payload root and its parent (also a parent named "
              "like the payload); oracle: exactly 100; distinct = (pl, version, source, layout, content path)",
              "quick: pl 16K, all lists of length <= 2, 81 triples (17 of them also nested); thorough: pl 16K/32K/64K, all lists of "
              "length <= 3 flat, the quick lists nested")
    _drive(acc, "C05", _intact_cases(tier, seed, "C05"), _c05_run)
    return acc.result()


@replayer("C05")
def r_c05(acc, case):
    _c05_case(acc, case)


# ----------------------------------------------------------------------------------------------- damage sets
def single_damages(path, size, pl, rich=True):
    """damage operations on one file"""
    if size == 0:
        return [{"op": "rm", "file": path}]
    out = []
    offs = [0, size // 2, size - 1] if rich else [0, size - 1]
    for at in sorted(set(offs)):
        out.append({"op": "flip", "file": path, "at": at})
    tr = [0, size - 1]
    if rich:
        k = (size - 1) // pl      # largest k with k * pl < size
        if k >= 1:
            tr += [k * pl - 1, k * pl]
    for to in sorted(set(t for t in tr if 0 <= t < size)):
        out.append({"op": "trunc", "file": path, "to": to})
    if path != "":
        out.append({"op": "rm", "file": path})        # (removing the only file of a single-file payload leaves no content at all)
    return out


def compatible(ops):
    """executable in any order: at most one truncation / removal per file, flips below the new length, no repeated flip"""
    by = {}
    for op in ops:
        by.setdefault(op["file"], []).append(op)
    for lst in by.values():
        cut = [o for o in lst if o["op"] in ("rm", "trunc")]
        if len(cut) > 1:
            return False
        if any(o["op"] == "rm" for o in lst) and len(lst) > 1:
            return False
        if cut and cut[0]["op"] == "trunc" and any(o["op"] == "flip" and o["at"] >= cut[0]["to"] for o in lst):
            return False
        flips = [o["at"] for o in lst if o["op"] == "flip"]
        if len(flips) != len(set(flips)):
            return False
    return True


def damage_sets(case, level):
    """level 1: every single operation; "lite": + pairs over the reduced operations; 2: + all compatible pairs;
    3: + triples (one reduced operation per file)"""
    pl = case["pl"]
    files = case_sizes(case)
    singles = [op for p, s in files for op in single_damages(p, s, pl)]
    for op in singles:
        yield [op]
    if level == "lite":
        red = [op for p, s in files for op in single_damages(p, s, pl, rich=False)]
        for a, b in itertools.combinations(red, 2):
            if compatible([a, b]):
                yield [a, b]
        return
    if level >= 2:
        for a, b in itertools.combinations(singles, 2):
            if compatible([a, b]):
                yield [a, b]
    if level >= 3 and len(files) == 3:
        for combo in itertools.product(*[single_damages(p, s, pl, rich=False) for p, s in files]):
            yield list(combo)


def _damage_cases(tier, seed, prop):
    quick = tier == "quick"
    pls = (16384,) if quick else (16384, 32768, 65536)
    for pl in pls:
        special = special_triples(pl)
        small = lists_small(pl)
        if quick:
            tf_lists = lists_quick(pl)
        else:
            tf_lists = lists_all(pl) if pl == 16384 else lists_core(pl)
        for version in (1, 2, 3):
            for src in variants(version, full=False):
                if quick and src == "ref-padlast":
                    continue

                def mk(layout, via="root"):
                    return {"prop": prop, "seed": seed, "pl": pl, "version": version, "src": src, "layout": layout, "via": via}
                singles = [1, pl, pl + 1, 2 * pl + 1, 3 * pl] if quick or src != "tf" else [x for x in size_alphabet(pl) if x]
                for s in singles:
                    base = mk({"single": s})
                    for dmg in damage_sets(base, 2 if src == "tf" else 1):
                        yield dict(base, damage=dmg)
                for sizes in (tf_lists if src == "tf" else small):
                    shapes = ["flat"]
                    if sizes in special and src == "tf":
                        shapes += ["two"] if quick else ["sub", "two"]
                    for shape in shapes:
                        base = mk(layout_of(shape, list(sizes)))
                        level = 1
                        if src == "tf" and shape == "flat" and sizes in small:
                            if quick:
                                level = "lite" if len(sizes) == 3 else 2
                            else:
                                level = 3 if len(sizes) == 3 else 2
                        for dmg in damage_sets(base, level):
                            yield dict(base, damage=dmg)
            # v1 metafiles with BEP 47 padding entries; the parent directory as the content path
            extra = [("ref-align", "root")] if quick else [("ref-align", "root"), ("ref-align-padlast", "root"), ("tf", "parent"), ("ref", "parent")]
            for src, via in extra:
                if version != 1 and src.startswith("ref-align"):
                    continue
                for sizes in (special[:7] if quick else special):
                    base = {"prop": prop, "seed": seed, "pl": pl, "version": version, "src": src, "layout": layout_of("flat", list(sizes)),
                            "via": via}
                    for dmg in damage_sets(base, 1):
                        yield dict(base, damage=dmg)


_DAMAGE_RULE = ("damaged payloads: metafiles v1 / v2 / hybrid from torrentfile's creators and the reference encoder over single files and file "
                "lists of length <= 3 (size alphabet around block and piece boundaries, empty files in every position, nested shapes); damage "
                "sets: flip a byte at the first / middle / last offset of a file, truncate a file to 0 / to a piece boundary / boundary-1 / by "
                "one byte, remove a file; singly, in pairs and (thorough) in triples; ")
_DAMAGE_BOUND = ("quick: pl 16K, single operations on lists of length <= 2 over 8 sizes and 81 triples, pairs on lists over "
                 "{0,1,pl,pl+1,2pl+1} and the 17 special triples; thorough: pl 16K (all lists of length <= 3) / 32K / 64K (quick lists), all pairs and triples on the "
                 "small lists, v1 with padding entries, parent directory as content path")


# ----------------------------------------------------------------------------------------------- C04
def _c04_run(acc, case, ctx):
    if not effective(case):
        return
    want, verdicts = oracle(ctx)
    fam = family(case)
    if want >= 100.0:
        acc.fail("C04:harness:reference-sees-no-damage", case, f"reference recheck = {want}", "< 100")
        return
    kind, val, detail, pieces = run_checker(ctx, case)
    if kind != "value":
        acc.fail(f"C04:{fam}:{kind}:{val}:{input_class(case)}", case, detail, f"a percentage < 100 (reference: {want:.4f})")
        return
    if not isinstance(val, (int, float)) or isinstance(val, bool) or not val < 100.0:
        word, d = diagnose(case, pieces, verdicts)
        acc.fail(f"C04:{fam}:reports-100:{where(case, ctx, word, d)}", case,
                 f"recheck reports {val} for damaged content; {word}: {_show(d)}", f"< 100 (reference: {want:.4f})")


def _c04_case(acc, case):
    _replay(acc, case, _c04_run)


@harness("C04")
def h_c04(tier, seed, hints):
    acc = Acc("C04", _DAMAGE_RULE + "oracle: every damage set that changes a described byte must give a percentage < 100; distinct = "
              "(pl, version, source, layout, damage set)", _DAMAGE_BOUND)
    _drive(acc, "C04", (c for c in _damage_cases(tier, seed, "C04") if effective(c)), _c04_run)
    return acc.result()


@replayer("C04")
def r_c04(acc, case):
    _c04_case(acc, case)


# ----------------------------------------------------------------------------------------------- C16
def _c16_run(acc, case, ctx):
    want, verdicts = oracle(ctx)
    fam = family(case)
    kind, val, detail, pieces = run_checker(ctx, case)
    if kind != "value":
        acc.fail(f"C16:{fam}:{kind}:{val}:{input_class(case)}", case, detail, f"{want:.6f}")
        return
    word, d = diagnose(case, pieces, verdicts)
    if not isinstance(val, (int, float)) or isinstance(val, bool) or abs(val - want) > EPS:
        if word == "piece-verdicts-agree":
            # every piece got the right verdict, exactly once: the arithmetic differs.  With BEP 47 padding entries the
            # bytes of the padding files are counted as if they were payload.
            spot = "padding-bytes-counted-as-payload" if case["src"].startswith("ref-align") else "piece-verdicts-agree"
        else:
            spot = where(case, ctx, word, d)
        acc.fail(f"C16:{fam}:wrong-share:{spot}", case, f"recheck reports {val}; {word}: {_show(d)}", f"{want:.6f}")
    elif d.get("bad accepted") or d.get("good rejected"):
        # the share happens to be right although pieces got the wrong verdict (errors cancelling out).  Pieces merely not
        # checked / checked twice while the percentage is right are not counted: the property speaks about the percentage.
        acc.fail(f"C16:{fam}:piece-verdicts:{where(case, ctx, word, d)}", case,
                 f"the share is right ({val}) but piece verdicts are wrong: {_show(d)}", "each piece judged on its own data")


def _c16_case(acc, case):
    _replay(acc, case, _c16_run)


@harness("C16")
def h_c16(tier, seed, hints):
    acc = Acc("C16", _DAMAGE_RULE + "also removal of empty files and the intact payload of every tree; oracle: percentage == reference share of "
              "payload bytes in verifying pieces (tolerance 1e-9) and the piece verdicts handed out by iter_hashes == reference verdicts "
              "(so damage in one piece cannot change another piece's verdict); distinct = (pl, version, source, layout, damage set)",
              _DAMAGE_BOUND)

    def cases():
        last = None
        for c in _damage_cases(tier, seed, "C16"):
            k = _prep_key(c)
            if k != last:
                last = k
                yield dict(c, damage=[])        # the intact payload of every prepared tree
            yield c
    _drive(acc, "C16", cases(), _c16_run)
    return acc.result()


@replayer("C16")
def r_c16(acc, case):
    _c16_case(acc, case)
