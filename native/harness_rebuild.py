"""Bounded native harnesses for the rebuild side: C13, C14, C19 (level B: labelled bounded, never counted as proved).

They drive torrentfile.rebuild.Assembler of /repo over enumerated small scopes.  Oracles come from the property
statements and native/ref.py only (reference recheck, reference creators / encoder); nothing of /repo's rebuild logic is
re-implemented here.

Failure classes
  C13:<v>:raised:<Exc>@<innermost torrentfile function>      rebuild raised
  C13:<v>:nothing-placed:<single-file|multi-file>            destination holds no file at all afterwards
  C13:<v>:incomplete:<features>                              something was placed but the result does not verify 100%;
                                                             features = subset of {boundary, multi-per-dir, empty-file, twin-names, padded}
                                                             of the TORRENT (input derived, see _features), or "plain"
  C13:<v>:counted-not-present:<single-file|multi-file>       returned count > number of files present in the destination
  C13:<v>:empty-file-missing                                 only zero-length files are missing (debatable reading)
  C13:hybrid:single-file-nested                              verifies 100% in the v2 view, but the single file sits at <dest>/<name>/<name>
  C13:<v>:<dim>=<value>:<symptom>                            the plain variant of the same torrent (original layout in one
                                                             search directory, no decoys, absolute destination, neutral cwd,
                                                             one metafile) passes and reverting <dim> makes this case pass
  C14:<v>:source-altered | metafile-altered | outside-altered | dest-file-removed | full-length-dest-file-altered |
          wrote-unassigned-path | wrote-unverified-content | decoy-placed | single-file-nested
  C19:<v>:<name|path-element|name+path-element>:<hostile token kinds>
<v> is v1 / v2 / hybrid (the kind of METAFILE fed to rebuild).
"""
import functools
import hashlib
import itertools
import json
import os
import traceback

from native.harness import Acc, harness, replayer, tempdir, quiet, content, small_trees, make_metafile  # noqa: F401
from native import ref

content = functools.lru_cache(maxsize=4096)(content)      # same deterministic bytes, computed once per (seed, tag, n)
B = 16384
VLABEL = {1: "v1", 2: "v2", 3: "hybrid"}
SEARCH_DIRS = ["A_before", "S1", "S2", "Z_after"]       # the order in which they are handed to rebuild
_XOR = bytes(b ^ 0x5A for b in range(256))


# =============================================================================================== shared helpers
class CapAcc(Acc):
    """Acc that keeps at most CAP failure records per class (the scopes here produce tens of thousands of failing cases for a
    single defect); the full per-class totals are returned under the extra key 'failure_counts'."""
    CAP = 40

    def __init__(self, *a):
        super().__init__(*a)
        self.counts = {}

    def fail(self, cls, case, observed, expected=None):
        self.counts[cls] = self.counts.get(cls, 0) + 1
        if self.counts[cls] <= self.CAP:
            super().fail(cls, case, observed, expected)

    def result(self):
        res = super().result()
        res["failure_counts"] = dict(sorted(self.counts.items()))
        return res


def _sizes(pl):
    return sorted({0, 1, B - 1, B, B + 1, pl - 1, pl, pl + 1, 2 * pl - 1, 2 * pl, 2 * pl + 1, 3 * pl, 3 * pl + B + 1, 5 * pl})


SHAPES = {
    "flat": ["a.bin", "b.bin", "c.bin"],
    "sub": ["a.bin", "sub/b.bin", "sub/c.bin"],
    "deep": ["a.bin", "sub/b.bin", "sub/deep/c.bin"],
}


def _spec(name, sizes, shape):
    """torrent description (JSON): single file, or a directory with the sizes laid out in a nesting shape"""
    if shape == "single":
        return {"name": name, "single": sizes[0]}
    return {"name": name, "files": [[SHAPES[shape][i], s] for i, s in enumerate(sizes)]}


def _tree_from_spec(spec, seed):
    name = spec["name"]
    if "single" in spec:
        return name, content(seed, name, spec["single"])
    tree = {}
    for rel, size in spec["files"]:
        parts = rel.split("/")
        node = tree
        for p in parts[:-1]:
            node = node.setdefault(p, {})
        node[parts[-1]] = content(seed, f"{name}/{rel}", size)
    return name, tree


def _decoy(data):
    """same length, EVERY byte different (so no piece overlapping it can verify)"""
    return bytes(data).translate(_XOR)


def _sha(data):
    return hashlib.sha256(data).hexdigest()


def _snap(root):
    """{relative path: (size, sha256)} for files, {relative path + '/': None} for directories (symlinks not followed)"""
    out = {}
    for dp, dns, fns in os.walk(root):
        rel = os.path.relpath(dp, root)
        if rel != ".":
            out[rel + "/"] = None
        for fn in fns:
            p = os.path.join(dp, fn)
            r = os.path.normpath(os.path.join(rel, fn))
            try:
                with open(p, "rb") as fh:
                    data = fh.read()
                out[r] = (len(data), _sha(data))
            except OSError as e:
                out[r] = ("unreadable", type(e).__name__)
    return out


def _diff(a, b):
    added = sorted(k for k in b if k not in a)
    removed = sorted(k for k in a if k not in b)
    changed = sorted(k for k in a if k in b and a[k] != b[k])
    return added, removed, changed


def _exc_label(e):
    """<ExceptionType>@<innermost function of the torrentfile package on the stack>"""
    func = "?"
    for fr in traceback.extract_tb(e.__traceback__):
        if "torrentfile" in fr.filename.replace("\\", "/").split("/"):
            func = fr.name
    return f"{type(e).__name__}@{func}"


def _rebuild(metapaths, contents, dest):
    """the operation under test; (count, None) or (None, 'Exc@func', message)"""
    from torrentfile.rebuild import Assembler
    try:
        with quiet():
            n = Assembler(list(metapaths), list(contents), dest).assemble_torrents()
        return n, None, None
    except KeyboardInterrupt:
        raise
    except BaseException as e:      # noqa: BLE001
        return None, _exc_label(e), f"{type(e).__name__}: {e}"


def _write(path, data):
    os.makedirs(os.path.dirname(path), exist_ok=True)
    n = 0
    base = path
    while os.path.lexists(path):           # never overwrite something already placed: use a sibling directory
        n += 1
        path = os.path.join(os.path.dirname(base), f"dup{n}", os.path.basename(base))
        os.makedirs(os.path.dirname(path), exist_ok=True)
    with open(path, "wb") as fh:
        fh.write(data)
    return path


def _materialise(d, case):
    """metafiles (real creator, reference creator as fall-back / on request) and search directories for a C13 / C14 case"""
    seed, pl, version = case.get("seed", 0), case["pl"], case["version"]
    creator = case.get("creator", "real")
    orig, metad, search = os.path.join(d, "orig"), os.path.join(d, "meta"), os.path.join(d, "search")
    for p in (orig, metad, search):
        os.makedirs(p)
    torrents = []
    for ti, spec in enumerate(case["torrents"]):
        name, tree = _tree_from_spec(spec, seed)
        files = ref.tree_files(tree)              # [(components, data)], components == [] for a single file
        mf = os.path.join(metad, f"{ti}_{name}.torrent")
        used = creator
        payload = os.path.join(orig, name)
        if creator == "real":
            try:
                mf0, payload = make_metafile(orig, name, tree, version, pl=pl)
                os.replace(mf0, mf)
                meta = ref.to_text(ref.bdecode(open(mf, "rb").read(), strict=False))
                if ref.ref_recheck(meta, payload) != 100.0:
                    used = "ref(fallback: created metafile does not verify its own payload)"
            except KeyboardInterrupt:
                raise
            except BaseException as e:      # noqa: BLE001
                used = f"ref(fallback: creator raised {type(e).__name__})"
        if used != "real":
            ref.write_tree(orig, name, tree)
            m = ref.ref_metafile(name, tree, pl, version, align=(creator == "ref-align"))
            with open(mf, "wb") as fh:
                fh.write(ref.bencode(m))
        meta = ref.to_text(ref.bdecode(open(mf, "rb").read(), strict=False))
        torrents.append({"name": name, "spec": spec, "files": files, "mf": mf, "meta": meta, "creator": used,
                         "single": "single" in spec})
    # ---- search directories
    reg = []        # (search dir index, path, basename, size, sha256, kind, global file index)

    def put(sd, rel, data, kind, gi):
        p = _write(os.path.join(search, SEARCH_DIRS[sd], rel), data)
        reg.append((sd, p, os.path.basename(p), len(data), _sha(data), kind, gi))

    scatter = case.get("scatter", "orig")
    decoys = case.get("decoys", [])
    intact_sel = case.get("intact", "all")
    gi = 0
    for t in torrents:
        for comps, data in t["files"]:
            fn = comps[-1] if comps else t["name"]
            have = {"all": True, "none": False, "even": gi % 2 == 0, "odd": gi % 2 == 1}[intact_sel]
            if have:
                if scatter == "orig":
                    put(1, os.path.join(t["name"], *comps) if comps else fn, data, "intact", gi)
                elif scatter == "flat":
                    put(1, fn, data, "intact", gi)
                elif scatter == "deep":
                    put(1, os.path.join(f"k{gi}", *(["lvl"] * (gi % 3 + 1)), fn), data, "intact", gi)
                elif scatter == "split":
                    if gi % 2 == 0:
                        put(1, os.path.join("p", "q", f"k{gi}", fn), data, "intact", gi)
                    else:
                        put(2, os.path.join(f"k{gi}", fn), data, "intact", gi)
                else:
                    raise ValueError(scatter)
            n = len(data)
            if "unrelated" in decoys:
                put(0, f"unrelated_{gi}.dat", content(seed, f"u0/{gi}", 10 + gi), "unrelated", gi)
                put(1, os.path.join(f"k{gi}", f"unrelated_{gi}.dat"), content(seed, f"u1/{gi}", n + 3), "unrelated", gi)
                put(3, os.path.join("deep", "er", f"unrelated_{gi}.txt"), content(seed, f"u3/{gi}", n), "unrelated", gi)
            if "diffsize" in decoys:
                put(0, os.path.join("ds", str(gi), fn), content(seed, f"ds0/{gi}", n + 1), "diffsize", gi)
                put(1, os.path.join("zz_ds", str(gi), fn), content(seed, f"ds1/{gi}", n + 2), "diffsize", gi)
                put(1, os.path.join("00_ds", str(gi), fn), data + b"x", "diffsize", gi)
                if n >= 1:
                    put(3, os.path.join("ds", str(gi), fn), data[:-1], "diffsize", gi)
            if n >= 1:
                if "same-before" in decoys:
                    put(0, os.path.join("sb", str(gi), fn), _decoy(data), "decoy", gi)
                if "same-after" in decoys:
                    put(3, os.path.join("sa", str(gi), fn), _decoy(data), "decoy", gi)
                if "same-sibling" in decoys:
                    put(1, os.path.join("00_sib", str(gi), fn), _decoy(data), "decoy", gi)
                    put(1, os.path.join("zz_sib", str(gi), fn), _decoy(data), "decoy", gi)
                if "half" in decoys and n > pl:
                    put(0, os.path.join("half", str(gi), fn), data[:pl] + _decoy(data[pl:]), "half", gi)
            gi += 1
    contents = [os.path.join(search, s) for s in SEARCH_DIRS if os.path.isdir(os.path.join(search, s))]
    return {"torrents": torrents, "reg": reg, "contents": contents, "search": search, "metad": metad, "orig": orig}


def _features(spec, version, pl, creator="real"):
    """input-derived description of the TORRENT used in the class of an 'incomplete' failure (the quantifier's dimensions):
    boundary      -- a file ends exactly on a piece boundary and more data follows (v1: boundary of the piece stream;
                     v2 / hybrid: length is a multiple of the piece length)
    multi-per-dir -- some directory of the torrent holds more than one file
    empty-file    -- the torrent has a zero-length file
    twin-names    -- two files of the torrent have the same name and size (each is a same-sized decoy for the other)
    padded        -- v1 metafile with BEP 47 padding files (reference creator with align)"""
    feats = []
    if "single" in spec:
        return "plain"
    name, tree = _tree_from_spec(spec, 0)
    files = ref.tree_files(tree)
    lens = [len(data) for _, data in files]
    if version == 1:
        cum, bnd = 0, False
        for i, n in enumerate(lens):
            cum += n
            if n and cum % pl == 0 and any(lens[i + 1:]):
                bnd = True
    else:
        bnd = any(n and n % pl == 0 for n in lens) and sum(1 for n in lens if n) > 1
    if bnd:
        feats.append("boundary")
    dirs = {}
    for comps, _ in files:
        dirs[tuple(comps[:-1])] = dirs.get(tuple(comps[:-1]), 0) + 1
    if any(n > 1 for n in dirs.values()):
        feats.append("multi-per-dir")
    if any(n == 0 for n in lens):
        feats.append("empty-file")
    seen = set()
    for comps, data in files:
        if (comps[-1], len(data)) in seen and data:
            if "twin-names" not in feats:
                feats.append("twin-names")
        seen.add((comps[-1], len(data)))
    if creator == "ref-align" and version == 1 and any(n % pl for n in lens[:-1]):
        feats.append("padded")
    return "+".join(feats) or "plain"


# =============================================================================================== C13
_MEMO = {}


def _c13_eval(case):
    """run one case; returns [(symptom, observed, expected)] (empty = property holds on this case)"""
    out = []
    version, pl = case["version"], case["pl"]
    with tempdir() as d:
        env = _materialise(d, case)
        outd = os.path.join(d, "out")
        destabs = os.path.join(outd, "dest")
        os.makedirs(destabs)
        neutral = os.path.join(d, "cwd")
        os.makedirs(neutral)
        form = case.get("dest", "abs")
        cwd = case.get("cwd", "neutral")
        if form == "abs":
            dest = destabs
            os.chdir(env["orig"] if cwd == "orig-parent" else neutral)
        elif form == "rel":
            dest = "dest"
            os.chdir(outd)
        else:
            dest = "."
            os.chdir(destabs)
        if case.get("meta_as", "list") == "dir":
            metapaths = [env["metad"]]
        else:
            metapaths = [t["mf"] for t in env["torrents"]]
        count, err, msg = _rebuild(metapaths, env["contents"], dest)
        os.chdir(d)
        if err:
            return [(f"raised:{err}", msg, "rebuild completes and restores every file")]
        present = [os.path.join(dp, f) for dp, _, fs in os.walk(destabs) for f in fs]
        layout = "single-file" if all(t["single"] for t in env["torrents"]) else "multi-file"
        bad, empties_missing, nested = [], [], []
        for t in env["torrents"]:
            root = os.path.join(destabs, t["name"])
            try:
                pct = ref.ref_recheck(t["meta"], root)
            except Exception as e:      # noqa: BLE001
                pct = f"reference recheck failed: {type(e).__name__}: {e}"
            if pct != 100.0:
                missing = []
                for comps, data in t["files"]:
                    p = os.path.join(root, *comps)
                    alt = os.path.join(root, t["name"]) if t["single"] else p
                    ok = any(os.path.isfile(q) and open(q, "rb").read() == data for q in {p, alt})
                    if not ok and data:
                        missing.append("/".join(comps) or t["name"])
                bad.append((t, pct, missing))
            else:
                if t["single"] and version == 3 and not os.path.isfile(root):
                    nested.append(t["name"])
                for comps, data in t["files"]:
                    if not data:
                        p = os.path.join(root, *comps)
                        alt = os.path.join(root, t["name"]) if (t["single"] and version == 2) else p
                        if not (os.path.isfile(p) or os.path.isfile(alt)):
                            empties_missing.append("/".join([t["name"]] + comps))
        if bad:
            obs = "; ".join(f"{t['name']}: reference recheck {pct if not isinstance(pct, float) else round(pct, 3)}%, files not intact in destination: {miss}"
                            for t, pct, miss in bad) + f"; returned count {count}; {len(present)} files under destination"
            if not present:
                out.append((f"nothing-placed:{layout}", obs, "100% for every metafile"))
            else:
                feats = sorted({_features(t["spec"], version, pl, case.get("creator", "real")) for t, _, _ in bad})
                out.append((f"incomplete:{'|'.join(feats)}", obs, "100% for every metafile"))
        elif nested:
            # a hybrid metafile with info.length says single file: its place is <dest>/<name>.  (A pure v2 metafile does not say
            # whether {name: leaf} is a file or a one-file directory, so the reference recheck accepts both layouts.)
            out.append(("single-file-nested", f"single-file torrents {nested} were placed as <dest>/<name>/<name>", "<dest>/<name> is the file"))
        elif empties_missing:
            out.append(("empty-file-missing", f"verifies 100% but zero-length files {empties_missing} were not created",
                        "full directory structure"))
        if isinstance(count, int) and count > len(present):
            out.append((f"counted-not-present:{layout}", f"returned count {count} but only {len(present)} files exist under the destination",
                        "count <= files present"))
    return out


def _c13_eval_memo(case, keep=True):
    """results of plain cases and of the intermediate cases of an attribution are kept for the duration of one harness run"""
    key = json.dumps(case, sort_keys=True)
    if key in _MEMO:
        return _MEMO[key]
    try:
        res = [(sym, str(obs)[:600], exp) for sym, obs, exp in _c13_eval(case)]
    except KeyboardInterrupt:
        raise
    except BaseException as e:      # noqa: BLE001
        res = [(f"harness-error:{type(e).__name__}", traceback.format_exc()[-500:], "harness runs")]
    if keep:
        _MEMO[key] = res
    return res


C13_DEFAULTS = [("dest", "abs"), ("cwd", "neutral"), ("meta_as", "list"), ("decoys", []), ("scatter", "orig")]


def _c13_plain(case, torrent):
    c = dict(case, torrents=[torrent])
    for k, v in C13_DEFAULTS:
        c[k] = v
    return c


def _is_plain(case):
    return len(case["torrents"]) == 1 and all(case.get(k, v) == v for k, v in C13_DEFAULTS)


def _head(sym):
    return sym if sym.startswith("raised:") else sym.split(":")[0]


def _c13_case(acc, case):
    case = dict(case)
    for k, v in C13_DEFAULTS:
        case.setdefault(k, v)
    res = _c13_eval_memo(case, keep=_is_plain(case))
    if not res:
        return
    v = VLABEL[case["version"]]
    if _is_plain(case):
        for sym, obs, exp in res:
            acc.fail(f"C13:{v}:{sym}", case, obs, exp)
        return
    # not a plain case: is the plain variant of one of its torrents already failing?  Then that is the finding.
    base = []
    for t in case["torrents"]:
        base += _c13_eval_memo(_c13_plain(case, t))
    if base:
        seen = set()
        for sym, obs, exp in base:
            if sym not in seen:
                seen.add(sym)
                acc.fail(f"C13:{v}:{sym}", case, f"[plain variant of the same torrent fails too] {obs}", exp)
        return
    # the plain variants pass: revert one dimension after the other until the case passes and blame that dimension
    cur, blamed = dict(case), None
    for k, dv in C13_DEFAULTS:
        if cur[k] != dv:
            val = cur[k]
            cur = dict(cur, **{k: dv})
            if not _c13_eval_memo(cur):
                blamed = f"{k}={'+'.join(val) if isinstance(val, list) else val}"
                break
    if blamed is None:
        blamed = "batch" if len(case["torrents"]) > 1 else "unattributed"
    for sym, obs, exp in res:
        acc.fail(f"C13:{v}:{blamed}:{_head(sym)}", case, f"{sym}: {obs}", exp)


def _c13_trees(pl, tier):
    """[(sizes tuple, shape)]; quick is a subset of thorough"""
    S = _sizes(pl)
    quick = []
    for s in S:
        quick.append(((s,), "single"))
        quick.append(((s,), "flat" if s % 2 else "sub"))
    firsts = [0, 1, pl - 1, pl, pl + 1, 2 * pl, 2 * pl + 1]
    seconds = [0, 1, pl, pl + 1, 3 * pl]
    for i, (a, b) in enumerate(itertools.product(firsts, seconds)):
        quick.append(((a, b), ["flat", "sub", "deep"][i % 3]))
    for i, t in enumerate(itertools.product([1, pl, 2 * pl + 1], [0, pl, pl + 1], [1, pl - 1, 2 * pl])):
        quick.append((t, ["flat", "sub", "deep"][i % 3]))
    for t in [(pl, pl, pl), (pl + 1, 3 * pl, 5), (2 * pl, 3 * pl, pl), (pl - 1, 1, pl), (0, 0, pl + 1), (5 * pl, pl, 3 * pl + B + 1)]:
        for sh in ("flat", "sub", "deep"):
            quick.append((t, sh))
    if tier == "quick":
        out = quick
    else:
        out = list(quick)
        for s in S:
            for sh in ("single", "flat", "sub"):
                out.append(((s,), sh))
        for t in itertools.product(S, repeat=2):
            for sh in ("flat", "sub", "deep"):
                out.append((t, sh))
        triples = list(itertools.product(S, repeat=3))
        if pl != 16384:
            triples = triples[::9]
        for i, t in enumerate(triples):
            out.append((t, ["flat", "sub", "deep"][i % 3]))
    seen, res = set(), []
    for t in out:
        if t not in seen:
            seen.add(t)
            res.append(t)
    return res


C13_VARIANTS = [
    {"scatter": "flat", "decoys": []},
    {"scatter": "deep", "decoys": ["unrelated"]},
    {"scatter": "split", "decoys": ["diffsize"]},
    {"scatter": "orig", "decoys": ["same-after"]},
    {"scatter": "deep", "decoys": ["same-before"]},
    {"scatter": "orig", "decoys": ["same-sibling"]},
    {"scatter": "split", "decoys": ["unrelated", "diffsize", "same-after"]},
    {"scatter": "orig", "decoys": [], "dest": "rel"},
    {"scatter": "orig", "decoys": [], "dest": "dot"},
    {"scatter": "orig", "decoys": [], "cwd": "orig-parent"},
]


def _c13_cases(tier, seed):
    cases = []
    pls = (16384,) if tier == "quick" else (16384, 32768, 65536)
    for pl in pls:
        trees = _c13_trees(pl, tier)
        for ti, (sizes, shape) in enumerate(trees):
            spec = _spec("t", list(sizes), shape) if shape != "single" else _spec("single.bin", list(sizes), "single")
            for version in (1, 2, 3):
                base = {"prop": "C13", "version": version, "pl": pl, "creator": "real", "torrents": [spec], "seed": seed}
                cases.append(dict(base))
                # one (quick) / three (thorough, pl = 16 KiB) rotating non-plain variants of every tree
                nvar = 1 if (tier == "quick" or pl != 16384) else 3
                for j in range(nvar):
                    var = C13_VARIANTS[(ti * 3 + version + j * 4) % len(C13_VARIANTS)]
                    cases.append(dict(base, **var))
        # designated clean torrents (no boundary, one file per directory, no empty file) get every variant
        clean = [_spec("single.bin", [pl + 5], "single"), _spec("t", [pl + 1, 3 * pl + 7, 100], "deep"), _spec("t", [2 * pl + 3, 700], "sub")]
        for spec in clean:
            for version in (1, 2, 3):
                for var in C13_VARIANTS:
                    cases.append(dict({"prop": "C13", "version": version, "pl": pl, "creator": "real", "torrents": [spec], "seed": seed}, **var))
        # reference-encoded metafiles (another conformant creator): v2 / hybrid with empty files have no "pieces root";
        # v1 with BEP 47 padding files
        refspecs = [_spec("t", [pl + 1, 0, 3 * pl], "deep"), _spec("t", [0, pl + 1, 10], "flat"), _spec("single.bin", [2 * pl + 1], "single"),
                    _spec("t", [pl + 1, 3 * pl + 7, 100], "deep"), _spec("t", [pl + 1, 100, 10], "deep")]
        for spec in refspecs:
            for version in (1, 2, 3):
                cases.append({"prop": "C13", "version": version, "pl": pl, "creator": "ref", "torrents": [spec], "seed": seed})
            cases.append({"prop": "C13", "version": 1, "pl": pl, "creator": "ref-align", "torrents": [spec], "seed": seed})
        # same file names inside one torrent (different / same sizes) and across the metafiles of a batch
        # (the third: a payload whose only top-level entry is a directory carrying the torrent's own name)
        twins = [{"name": "tw", "files": [["x/data.bin", pl + 7], ["y/data.bin", 2 * pl + 9]]},
                 {"name": "tw", "files": [["x/data.bin", pl + 7], ["y/data.bin", pl + 7]]},
                 {"name": "album", "files": [["album/a.bin", pl + 7], ["album/sub/b.bin", 2 * pl + 1], ["album/c.txt", 9]]},
                 # same basename in several directories, every file piece-aligned (all pieces of the later ones are single-file pieces)
                 {"name": "box", "files": [["d1/track.bin", 2 * pl], ["d2/track.bin", 2 * pl], ["d3/track.bin", pl]]},
                 # a directory torrent that holds exactly one file
                 {"name": "solo", "files": [["track.bin", pl + 9]]}]
        for spec in twins:
            for version in (1, 2, 3):
                for scatter in ("orig", "split"):
                    cases.append({"prop": "C13", "version": version, "pl": pl, "creator": "real", "torrents": [spec], "seed": seed, "scatter": scatter})
        batch_a = [_spec("single.bin", [pl + 5], "single"), _spec("t", [pl + 1, 3 * pl + 7, 100], "deep"),
                   {"name": "u", "files": [["m/a.bin", 2 * pl + 1], ["n/other.bin", 50]]}]
        batch_b = [_spec("t", [pl, pl + 1], "flat"), {"name": "u", "files": [["m/a.bin", 2 * pl + 1], ["n/other.bin", 50]]}]
        for batch in (batch_a, batch_b, batch_a[:2]):
            for version in (1, 2, 3):
                for meta_as in ("list", "dir"):
                    for var in ({"scatter": "orig", "decoys": []}, {"scatter": "split", "decoys": ["unrelated", "diffsize"]}):
                        cases.append(dict({"prop": "C13", "version": version, "pl": pl, "creator": "real", "torrents": batch, "seed": seed,
                                           "meta_as": meta_as}, **var))
    return cases


@harness("C13")
def h_c13(tier, seed, hints):
    acc = CapAcc("C13", "rebuild into an empty destination from search directories holding an intact copy of every file (original layout / flat / "
              "deep / split over two directories; unrelated files, same-named files of other sizes, same-named same-sized files with other "
              "content in directories handed over before / after / next to the intact copy; relative and '.' destinations; batches given as "
              "list and as directory); oracle = reference recheck of the destination == 100%, every zero-length file created, returned "
              "count <= files present; metafiles by torrentfile's creators (v1, v2, hybrid) and by the reference encoder; "
              "distinct = whole case description",
              "quick: pl 16 KiB, ~100 file lists of length <= 3 from the boundary size alphabet x 3 versions, 1 variant each; thorough: pl 16/32/64 KiB, "
              "all lists of length <= 2 in all nesting shapes, all (16 KiB) / every 9th (32, 64 KiB) list of length 3, 3 (16 KiB) / 1 (32, 64 KiB) variants each")
    _MEMO.clear()
    cases = _c13_cases(tier, seed) + [dict(c, prop="C13") for c in hints.get("cases", []) if c.get("prop", "C13") == "C13"]
    seen = set()
    for i, case in enumerate(cases):
        key = json.dumps(case, sort_keys=True)
        if key in seen:
            continue
        seen.add(key)
        _c13_case(acc, case)
        acc.case(key, case if i % 97 == 0 else None)
    _MEMO.clear()
    return acc.result()


@replayer("C13")
def r_c13(acc, case):
    _c13_case(acc, case)


# =============================================================================================== C14
def _prepopulate(dest, torrents, pattern, rot, seed, unrelated):
    """destination files per pattern letter: C correct, W wrong bytes of the recorded length, S shorter (a prefix of the correct
    bytes), G shorter garbage, A absent.  Returns {absolute assigned path: (file name, recorded length)}"""
    assigned = {}
    gi = 0
    for t in torrents:
        for comps, data in t["files"]:
            p = os.path.join(dest, t["name"], *comps)
            fn = comps[-1] if comps else t["name"]
            assigned[p] = (fn, len(data), t)
            mode = pattern[(gi + rot) % len(pattern)]
            n = len(data)
            body = None
            if mode == "C":
                body = data
            elif mode == "W":
                body = content(seed, f"wrong/{gi}", n)
                if body == data and n:
                    body = _decoy(data)
            elif mode == "S" and n >= 1:
                body = data[:n // 2]
            elif mode == "G" and n >= 1:
                body = content(seed, f"garbage/{gi}", max(0, n - 1 - n // 3))
            if body is not None:
                os.makedirs(os.path.dirname(p), exist_ok=True)
                with open(p, "wb") as fh:
                    fh.write(body)
            gi += 1
    if unrelated:
        t0 = torrents[0]
        _write(os.path.join(dest, "unrelated.txt"), b"an unrelated file in the destination")
        if not t0["single"]:
            _write(os.path.join(dest, t0["name"], "zz_unrelated.bin"), content(seed, "unrel-in-torrent-dir", 33))
        comps, data = t0["files"][0]
        fn = comps[-1] if comps else t0["name"]
        _write(os.path.join(dest, "elsewhere", fn), data[:len(data) // 3])       # torrent file name at a path no metafile assigns
    return assigned


def _c14_case(acc, case):
    version = case["version"]
    v = VLABEL[version]
    with tempdir() as d:
        env = _materialise(d, case)
        dest = os.path.join(d, "out", "dest")
        os.makedirs(dest)
        cwd = os.path.join(d, "cwd")
        os.makedirs(cwd)
        assigned = _prepopulate(dest, env["torrents"], case["destpat"], case.get("rot", 0), case.get("seed", 0), case.get("unrelated", True))
        pure_decoys = {(bn, sha) for _, _, bn, _, sha, kind, _ in env["reg"] if kind == "decoy"}
        metapaths = [env["metad"]] if case.get("meta_as", "list") == "dir" else [t["mf"] for t in env["torrents"]]
        reported = set()

        def fail(kind, obs, exp):
            if kind not in reported:            # one record per failure kind and case
                reported.add(kind)
                acc.fail(f"C14:{v}:{kind}", case, obs, exp)

        for ri, sel in enumerate(case["runs"]):
            if sel == "decoys":
                given = [p for p in env["contents"] if os.path.basename(p) in ("A_before", "Z_after")]
            else:
                given = env["contents"]
            allowed = {}
            for sd, p, bn, size, sha, kind, gi in env["reg"]:
                if os.path.join(env["search"], SEARCH_DIRS[sd]) in given:
                    allowed.setdefault((bn, size), set()).add(sha)
            os.chdir(cwd)
            before_all = _snap(d)
            count, err, msg = _rebuild(metapaths, given, dest)
            os.chdir(d)
            after_all = _snap(d)
            rel_dest = os.path.relpath(dest, d)
            added, removed, changed = _diff(before_all, after_all)
            tag = f"run #{ri + 1} ({sel}){' raised ' + msg if err else ''}: "
            for k in added + removed + changed:
                if k == rel_dest + "/" or k.startswith(rel_dest + os.sep):
                    continue
                top = k.split(os.sep)[0]
                kind = {"search": "source-altered", "meta": "metafile-altered"}.get(top, "outside-altered")
                what = "added" if k in added else ("removed" if k in removed else "changed")
                fail(kind, tag + f"{what} {k}", "nothing outside the destination changes")
            for k in removed:
                if k.startswith(rel_dest + os.sep):
                    fail("dest-file-removed", tag + f"removed {k}", "nothing is removed")
            for k in added + changed:
                if not k.startswith(rel_dest + os.sep) or k.endswith("/"):
                    continue
                p = os.path.join(d, k)
                size, sha = after_all[k]
                if p in assigned:
                    fn, length, t = assigned[p]
                    if k in changed and before_all[k][0] == length:
                        fail("full-length-dest-file-altered", tag + f"{k} had its recorded length {length} and was rewritten",
                             "files of full recorded length are left alone")
                    if (fn, sha) in pure_decoys:
                        fail("decoy-placed", tag + f"{k} now holds a same-named same-sized file none of whose bytes verify", "never placed")
                    elif size != length or sha not in allowed.get((fn, length), set()):
                        fail("wrote-unverified-content", tag + f"{k} ({size} bytes) is not a copy of any search-directory file named {fn} "
                             f"of the recorded length {length}", "byte-identical copy of such a file")
                    continue
                # not an assigned path
                nested = [t for t in env["torrents"] if t["single"] and p == os.path.join(dest, t["name"], t["name"])]
                if nested and version == 2:
                    continue            # a pure v2 metafile does not say whether {name: leaf} is a file or a one-file directory
                if nested:
                    fail("single-file-nested", tag + f"single-file torrent placed as {k}", f"{os.path.join(rel_dest, nested[0]['name'])}")
                else:
                    fail("wrote-unassigned-path", tag + f"{'created' if k in added else 'rewrote'} {k}", "only paths assigned by a metafile are written")


C14_TREES_Q = [
    ("single.bin", [None], "single", lambda pl: [pl + 5]),
    ("single.bin", [None], "single", lambda pl: [3 * pl]),
    ("t", None, "sub", lambda pl: [2 * pl + 1, 10, pl]),
    ("t", None, "deep", lambda pl: [pl + 1, 3 * pl + 7, 100]),
    ("t", None, "flat", lambda pl: [pl, pl, 1]),
    ("t", None, "flat", lambda pl: [5 * pl, pl - 1]),
    ("t", None, "deep", lambda pl: [pl - 1, 0, 2 * pl]),
]
C14_CONF = [([], "all"), (["same-before"], "all"), (["same-after"], "even"), (["same-before", "same-after", "same-sibling"], "none"),
            (["unrelated", "diffsize", "same-before", "same-after", "same-sibling", "half"], "all"), (["half", "same-before"], "odd")]
C14_PATTERNS = ["AAAA", "CWSA", "WSAC", "SACW", "ACWS", "GGGG", "CCCC", "WWWW"]
C14_RUNS = [["all", "all"], ["decoys", "all", "decoys"]]


def _c14_cases(tier, seed):
    cases = []
    pls = (16384,) if tier == "quick" else (16384, 32768, 65536)
    for pl in pls:
        specs = [_spec(nm, f(pl), sh) for nm, _, sh, f in C14_TREES_Q]
        specs.append({"name": "tw", "files": [["x/data.bin", pl + 7], ["y/data.bin", pl + 7], ["y/z.bin", 3]]})
        # a payload whose only top-level entry is a directory carrying the torrent's own name (first, so that it is not thinned)
        specs.insert(0, {"name": "album", "files": [["album/a.bin", pl + 7], ["album/sub/b.bin", 2 * pl + 1], ["album/c.txt", 9]]})
        specs.insert(0, {"name": "solo", "files": [["track.bin", pl + 9]]})          # a directory torrent that holds exactly one file
        if tier != "quick":
            S = _sizes(pl)
            for i, (a, b) in enumerate(itertools.product(S[::2], S[1::3])):
                specs.append(_spec("t", [a, b], ["flat", "sub", "deep"][i % 3]))
            for s in S:
                specs.append(_spec("single.bin", [s], "single"))
        n = 0
        for si, spec in enumerate(specs):
            for version in (1, 2, 3):
                for ci, (decoys, intact) in enumerate(C14_CONF):
                    for pi, pat in enumerate(C14_PATTERNS):
                        for ri, runs in enumerate(C14_RUNS):
                            n += 1
                            full = si < 10 and (tier != "quick" or (pi + ci + ri + si + version) % 4 == 0)
                            thin = si >= 10 and (pi + ci + ri + si + version) % 8 == 0
                            if not (full or thin):
                                continue
                            cases.append({"prop": "C14", "version": version, "pl": pl, "creator": "real", "torrents": [spec], "seed": seed,
                                          "scatter": ["orig", "deep", "split", "flat"][(si + ci) % 4], "decoys": decoys, "intact": intact,
                                          "destpat": pat, "rot": (si + ci) % 4, "unrelated": True, "runs": runs})
        # batches, reference-encoded metafiles
        batch = [_spec("single.bin", [pl + 5], "single"), _spec("t", [pl + 1, 3 * pl + 7, 100], "deep"),
                 {"name": "u", "files": [["m/a.bin", 2 * pl + 1], ["n/other.bin", 50]]}]
        for version in (1, 2, 3):
            for creator in ("real", "ref"):
                for ci, (decoys, intact) in enumerate(C14_CONF):
                    for pat in ("CWSA", "AAAA", "GGGG"):
                        cases.append({"prop": "C14", "version": version, "pl": pl, "creator": creator, "torrents": batch, "seed": seed,
                                      "scatter": ["split", "deep", "orig"][ci % 3], "decoys": decoys, "intact": intact, "destpat": pat,
                                      "rot": ci % 4, "unrelated": True, "runs": C14_RUNS[ci % 2], "meta_as": ["list", "dir"][ci % 2]})
    return cases


@harness("C14")
def h_c14(tier, seed, hints):
    acc = CapAcc("C14", "repeated rebuilds (with all search directories / with the decoy directories only) into destinations that already hold "
              "correct, wrong same-length, shorter (prefix / garbage) and unrelated files; search directories with intact copies of all / "
              "some / none of the files plus same-named same-sized decoys every byte of which differs (before / after / next to the intact "
              "copy), partly matching candidates, other sizes, unrelated files.  Full snapshots (names, sizes, SHA-256) before and after "
              "every run: nothing outside the destination changes, nothing is removed, full-length destination files are untouched, every "
              "written file sits at an assigned path and equals a search-directory file of the recorded name and length, no decoy is placed; "
              "distinct = whole case description",
              "quick: pl 16 KiB, 8 torrents x 3 versions x 6 search configurations x 8 destination patterns x 2 histories thinned to 1/4, "
              "batches of 3 metafiles; thorough: everything, pl 16/32/64 KiB, plus size-alphabet pairs and singles (thinned 1/8)")
    cases = _c14_cases(tier, seed) + [dict(c) for c in hints.get("cases", []) if c.get("prop") == "C14"]
    seen = set()
    for i, case in enumerate(cases):
        key = json.dumps(case, sort_keys=True)
        if key in seen:
            continue
        seen.add(key)
        try:
            _c14_case(acc, case)
        except KeyboardInterrupt:
            raise
        except BaseException as e:      # noqa: BLE001
            acc.fail(f"C14:harness-error:{type(e).__name__}", case, traceback.format_exc()[-500:], "harness runs")
        acc.case(key, case if i % 211 == 0 else None)
    return acc.result()


@replayer("C14")
def r_c14(acc, case):
    _c14_case(acc, case)


# =============================================================================================== C19
NEST = 16           # the destination lies NEST directories below the sandbox root; the longest '..' chain (name + elements) is 12
C19_NAMES = ["t", "..", ".", "", "{ABS}/evil", "a/../../b", "../../../../..", "sub/../../x", "../t"]
C19_DIRS = [[], [".."], ["..", ".."], ["."], [""], ["{ABS}/evil"], ["a/../../b"], ["..", "..", "..", "..", "..", ".."], ["x", "..", "..", ".."],
            ["../.."], ["in", "{ABS}/evil"],
            # the parent spelt with separators / dot segments (one "component" for a normalising path library, a parent reference for
            # os.path.join and the OS), and hostile elements hidden behind an empty element
            ["../", "../", "../"], ["./..", "./..", "./.."], ["..//", "..//", "..//"], ["", "..", "..", ".."],
            ["sub", "", "..", "..", "..", ".."], ["", "{ABS}/evil"], ["", "a/../../../../b"]]
C19_LAST = [None, "../c.bin", "a/../../c.bin", "{ABS}/c.bin"]


def _tok_kind(tok):
    if tok.startswith("{ABS}") or tok.startswith("/"):
        return "absolute"
    if "/" in tok:
        return "embedded-sep"
    return {"..": "dotdot", ".": "dot", "": "empty"}.get(tok, "benign")


def _c19_label(case):
    """(where, kinds): which part of the metafile carries hostile tokens and of which kind ('.' and '' are only named when
    nothing else is hostile)"""
    nk = _tok_kind(case["name"])
    pk = {_tok_kind(t) for t in case["dirs"] + ([case["last"]] if case.get("last") else [])} - {"benign"}
    allk = ({nk} | pk) - {"benign"}
    if allk - {"dot", "empty"}:
        pk -= {"dot", "empty"}
        if nk in ("dot", "empty"):
            nk = "benign"
    where = "+".join((["name"] if nk != "benign" else []) + (["path-element"] if pk else [])) or "benign"
    kinds = "/".join(([nk] if nk != "benign" else []) + (["+".join(sorted(pk))] if pk else [])) or "benign"
    return where, kinds


def _c19_eval(case):
    """run one case; returns (list of (path, effect) outside the destination, note)"""
    version, pl = case["version"], case.get("pl", 16384)
    with tempdir() as d:
        sandbox = os.path.join(d, "sandbox")
        nestp = os.path.join(sandbox, *[f"n{i}" for i in range(NEST)])
        dest = os.path.join(nestp, "dest")
        cwd = os.path.join(sandbox, *[f"m{i}" for i in range(NEST)], "cwd")      # equally deep, on another branch than the destination
        absarea = os.path.join(sandbox, "abs_area")
        search = os.path.join(sandbox, "search")
        metad = os.path.join(sandbox, "meta")
        for p in (dest, cwd, absarea, search, metad):
            os.makedirs(p)
        sub = lambda s: s.replace("{ABS}", absarea)       # noqa: E731
        name = sub(case["name"])
        dirs = [sub(x) for x in case["dirs"]]
        seed = case.get("seed", 0)
        # a benign torrent built by the reference creator, then renamed: names are not covered by piece hashes / merkle roots
        if case["layout"] == "single":
            fnames = ["c.bin"]
            tree0 = content(seed, "c19/c", pl + 9)
            meta = ref.ref_metafile("c.bin", tree0, pl, version)
            datas = {"c.bin": tree0}
        else:
            datas = {"c.bin": content(seed, "c19/c", pl + 9), "d.bin": content(seed, "c19/d", 3 * pl), "e.bin": content(seed, "c19/e", 77)}
            fnames = sorted(datas)
            meta = ref.ref_metafile("t", dict(datas), pl, version)
        info = meta["info"]
        last = sub(case["last"]) if case.get("last") else None
        targets = []            # where join(dest, name, *path) points for each file
        if case["layout"] == "single":
            # single file: the only place for hostile data is the name (v1) / the name and the single tree key (v2)
            info["name"] = name
            if "file tree" in info:
                leaf = list(info["file tree"].values())[0]
                info["file tree"] = {(last or "c.bin"): leaf}
            cand = {"c.bin": datas["c.bin"]}
            if os.path.basename(name) not in ("", ".", ".."):
                cand[os.path.basename(name)] = datas["c.bin"]
            targets.append(os.path.join(dest, name))
            targets.append(os.path.join(dest, name, last or "c.bin"))
        else:
            info["name"] = name
            paths = {}
            for fn in fnames:
                paths[fn] = dirs + [last if (last and fn == "c.bin") else fn]
            if "files" in info:
                newfiles = []
                for entry in info["files"]:
                    if entry.get("attr") == "p":
                        newfiles.append(entry)
                    else:
                        newfiles.append(dict(entry, path=paths[entry["path"][-1]]))
                info["files"] = newfiles
            if "file tree" in info:
                tree = {}
                for fn in fnames:
                    node = tree
                    for el in paths[fn][:-1]:
                        node = node.setdefault(el, {})
                    node[paths[fn][-1]] = info["file tree"][fn]
                info["file tree"] = tree
            cand = dict(datas)
            for fn in fnames:
                targets.append(os.path.join(dest, name, *paths[fn]))
        mf = os.path.join(metad, "hostile.torrent")
        with open(mf, "wb") as fh:
            fh.write(ref.bencode(meta))
        # matching candidates so that the copy is attempted
        for fn, data in cand.items():
            _write(os.path.join(search, "found", fn), data)
        # bystanders
        _write(os.path.join(sandbox, "bystander.txt"), b"bystander at the sandbox root")
        _write(os.path.join(nestp, "bystander.txt"), b"bystander next to the destination")
        destreal = os.path.realpath(dest)
        pre = case.get("pre", "absent")
        for tp in targets:
            rp = os.path.realpath(os.path.normpath(tp))
            if not rp.startswith(os.path.realpath(sandbox) + os.sep):
                return [], "skipped: the hostile path would leave the sandbox"      # never let the code under test touch the real system
            inside = rp == destreal or rp.startswith(destreal + os.sep)
            if inside or not rp.startswith(os.path.realpath(sandbox) + os.sep):
                continue
            if pre in ("shorter", "same") and not os.path.lexists(rp):
                src = cand.get(os.path.basename(rp))
                n = len(src) if src is not None else 100
                try:
                    _write(rp, content(seed, "victim/" + os.path.basename(rp), n // 2 if pre == "shorter" else n))
                except OSError:
                    pass
        if case.get("cwd_has_tree"):
            # the working directory happens to contain the torrent's directory structure (relative to itself)
            for fn in (fnames if case["layout"] != "single" else []):
                rel = os.path.join(name, *paths[fn][:-1])
                if not os.path.isabs(rel):
                    try:
                        os.makedirs(os.path.join(cwd, rel), exist_ok=True)
                    except OSError:
                        pass
        os.chdir(cwd)
        before = _snap(d)
        count, err, msg = _rebuild([mf], [search], dest)
        os.chdir(d)
        after = _snap(d)
        rel_dest = os.path.relpath(dest, d)
        added, removed, changed = _diff(before, after)
        out = [(k, w) for w, ks in (("created", added), ("deleted", removed), ("overwritten", changed)) for k in ks
               if not (k == rel_dest + "/" or k.startswith(rel_dest + os.sep))]
        return out, (f"rebuild raised {msg}" if err else f"returned {count}")


def _c19_case(acc, case):
    out, note = _c19_eval(case)
    if not out:
        return
    v = VLABEL[case["version"]]
    # hostile in several places: shrink to a minimal sub-case that still escapes and name the class after that one
    cur, progress = dict(case), True
    while progress:
        progress = False
        alts = []
        if cur.get("last"):
            alts.append(dict(cur, last=None))
        if any(_tok_kind(t) != "benign" for t in cur["dirs"]):
            alts.append(dict(cur, dirs=[]))
        if _tok_kind(cur["name"]) != "benign":
            alts.append(dict(cur, name="t"))
        for alt in alts:
            alt["pre"] = "absent"           # nothing in the way: the most sensitive setting
            if _c19_label(alt)[0] != "benign" and _c19_eval(alt)[0]:
                cur, progress = alt, True
                break
    where, kinds = _c19_label(cur)
    acc.fail(f"C19:{v}:{where}:{kinds}", case,
             "outside the destination: " + ", ".join(f"{w} {k}" for k, w in out[:8]) + f" ({note})",
             "nothing outside the destination is created, overwritten or deleted")


def _c19_cases(tier):
    cases = []
    for version in (1, 2, 3):
        for name in C19_NAMES:
            for dirs in C19_DIRS:
                hostile_name = _tok_kind(name) != "benign"
                hostile_dirs = any(_tok_kind(t) != "benign" for t in dirs)
                if tier == "quick" and hostile_name and hostile_dirs and not (
                        name in (".", "") or (name in ("..", "../../../../..") and dirs in ([".."], ["x", "..", "..", ".."], ["a/../../b"]))):
                    continue
                for pre in ("absent", "shorter") + (("same",) if tier != "quick" else ()):
                    for cwdt in (False, True):
                        if tier == "quick" and cwdt and pre != "absent":
                            continue
                        cases.append({"prop": "C19", "version": version, "pl": 16384, "layout": "multi", "name": name, "dirs": dirs, "last": None,
                                      "pre": pre, "cwd_has_tree": cwdt})
            for last in C19_LAST[1:]:
                cases.append({"prop": "C19", "version": version, "pl": 16384, "layout": "multi", "name": name, "dirs": [], "last": last,
                              "pre": "absent", "cwd_has_tree": False})
                cases.append({"prop": "C19", "version": version, "pl": 16384, "layout": "multi", "name": name, "dirs": ["..", ".."], "last": last,
                              "pre": "shorter", "cwd_has_tree": False})
            for last in C19_LAST:
                for pre in ("absent", "shorter"):
                    cases.append({"prop": "C19", "version": version, "pl": 16384, "layout": "single", "name": name, "dirs": [], "last": last,
                                  "pre": pre, "cwd_has_tree": False})
    if tier != "quick":
        extra = []
        for c in cases:
            if c["pre"] == "absent" and not c["cwd_has_tree"]:
                for pl in (32768, 65536):
                    extra.append(dict(c, pl=pl))
        cases += extra
    return cases


@harness("C19")
def h_c19(tier, seed, hints):
    acc = CapAcc("C19", "reference-encoded v1 / v2 / hybrid metafiles (single- and multi-file) whose name, directory elements and last path element "
              "are hostile ('..', '.', '', absolute, embedded separators, long '..' chains), matching candidate files present in the search "
              "directory, victims absent / shorter / same-sized at the place the hostile path points to, working directory with and without "
              "the torrent-relative directories; whole-sandbox snapshot (names, SHA-256) before / after: nothing outside the destination may "
              "be created, overwritten or deleted (rebuild may refuse by raising); distinct = whole case description",
              "9 names x 18 directory-element lists (incl. '../', './..', '..//' and hostile elements after an empty one) x 4 last elements x 3 "
              "versions; absolute paths and '..' chains resolve inside the sandbox")
    cases = _c19_cases(tier) + [dict(c) for c in hints.get("cases", []) if c.get("prop") == "C19"]
    seen = set()
    for i, case in enumerate(cases):
        key = json.dumps(case, sort_keys=True)
        if key in seen:
            continue
        seen.add(key)
        try:
            _c19_case(acc, case)
        except KeyboardInterrupt:
            raise
        except BaseException as e:      # noqa: BLE001
            acc.fail(f"C19:harness-error:{type(e).__name__}", case, traceback.format_exc()[-500:], "harness runs")
        acc.case(key, case if i % 301 == 0 else None)
    return acc.result()


@replayer("C19")
def r_c19(acc, case):
    _c19_case(acc, case)
