"""Bounded native harnesses, one per property (level B: labelled bounded, never counted as proved).

Each harness drives the REAL code of /repo over an exhaustively enumerated small scope and judges the outcome
with an oracle taken from the property statement (reference implementations live in native/ref.py).
A failure record carries
    class   -- a stable key describing *which* input class / call site fails (matched against known_findings.json)
    case    -- a JSON description from which replay() can re-run exactly this case
"""
import contextlib
import hashlib
import io
import itertools
import json
import os
import random
import shutil
import sys
import tempfile

from native import ref

HARNESS = {}
REPLAY = {}


def harness(prop):
    def deco(fn):
        HARNESS[prop] = fn
        return fn
    return deco


def replayer(prop):
    def deco(fn):
        REPLAY[prop] = fn
        return fn
    return deco


class Acc:
    """accumulates cases / failures for one run"""

    def __init__(self, prop, rule, bound):
        self.prop, self.rule, self.bound = prop, rule, bound
        self.cases = 0
        self.keys = set()
        self.failures = []
        self.samples = []

    def case(self, key, sample=None):
        self.cases += 1
        if key is not None:
            self.keys.add(key)
        if sample is not None and len(self.samples) < 6:
            self.samples.append(sample)

    def fail(self, cls, case, observed, expected=None):
        self.failures.append({"property": self.prop, "class": cls, "case": case, "observed": str(observed)[:600],
                              "expected": (str(expected)[:600] if expected is not None else None)})

    def result(self):
        return {"cases": self.cases, "distinct_nontrivial": len(self.keys), "rule": self.rule, "bound": self.bound,
                "failures": self.failures, "samples": self.samples}


def run(prop, tier, seed, hints):
    if prop not in HARNESS:
        return {"cases": 0, "distinct_nontrivial": 0, "rule": "no bounded harness for this property", "bound": "",
                "failures": [], "samples": []}
    random.seed(seed)
    return HARNESS[prop](tier, seed, hints or {})


def replay(rec):
    prop = rec["property"]
    acc = Acc(prop, "replay", "one case")
    REPLAY[prop](acc, rec["case"])
    return {"reproduced": bool(acc.failures), "failures": acc.failures}


@contextlib.contextmanager
def quiet():
    with contextlib.redirect_stdout(io.StringIO()), contextlib.redirect_stderr(io.StringIO()):
        yield


@contextlib.contextmanager
def tempdir():
    d = tempfile.mkdtemp(prefix="verif_")
    cwd = os.getcwd()
    try:
        yield d
    finally:
        os.chdir(cwd)
        shutil.rmtree(d, ignore_errors=True)


def content(seed, tag, n):
    """n deterministic pseudo-random non-zero bytes"""
    out = bytearray()
    ctr = 0
    while len(out) < n:
        out.extend(hashlib.sha256(f"{seed}/{tag}/{ctr}".encode()).digest())
        ctr += 1
    return bytes(b or 1 for b in out[:n])


# =============================================================================================== C12
def _c12_judge_value(x):
    """(must_accept, may_accept, expected_value) for an int argument"""
    valid = (14 <= x <= 25) or (x >= 16384 and x & (x - 1) == 0)
    free = 26 <= x <= 29
    val = 2 ** x if x <= 29 else x
    return valid, valid or free, val


def ref_auto_piece_length(size):
    """the documented automatic choice: the smallest power of two >= 16 KiB with at most 1000 pieces... as the code's own
    get_piece_length is proved to compute (C12 contract); here only: the same function of the TRUE payload size"""
    from torrentfile import utils
    return utils.get_piece_length(size)


def _c12_case(acc, case):
    from torrentfile import utils
    route, arg = case["route"], case["arg"]
    PLVE = utils.PieceLengthValueError
    if route == "auto":
        sizes = arg
        prev = None
        for s in sizes:
            r = utils.get_piece_length(s)
            if not (r >= 16384 and r <= 2 ** 24 and r & (r - 1) == 0):
                acc.fail("C12:auto:range", {"route": "auto", "arg": [s]}, f"get_piece_length({s}) = {r}", "power of two in [2^14, 2^24]")
            if prev is not None and r < prev[1]:
                acc.fail("C12:auto:monotone", {"route": "auto", "arg": [prev[0], s]},
                         f"get_piece_length({prev[0]}) = {prev[1]} > get_piece_length({s}) = {r}", "non-decreasing")
            prev = (s, r)
        return
    if route == "auto-path":
        # the automatic choice for a real payload: the piece length chosen must be the one for the payload's true size (the sizes the
        # hashers read: symbolic links to files count with the size of what they point to); sparse files keep this cheap
        with tempdir() as d:
            store = os.path.join(d, "store")
            os.makedirs(store)
            root = os.path.join(d, "payload")
            os.makedirs(root)
            total = 0
            for i, (n, linked) in enumerate(arg):
                target = os.path.join(store if linked else root, f"f{i}.bin")
                with open(target, "wb") as fh:
                    fh.truncate(n)
                if linked:
                    os.symlink(target, os.path.join(root, f"f{i}.bin"))
                total += n
            try:
                with quiet():
                    got = utils.path_piece_length(root)
            except BaseException as e:       # noqa: BLE001
                acc.fail("C12:auto-path:raised", case, f"{type(e).__name__}: {e}", "a piece length")
                return
            want = ref_auto_piece_length(total)
            if got != want:
                acc.fail("C12:auto-path:not-the-choice-for-the-payload-size" + (":symlinked" if any(l for _, l in arg) else ""), case,
                         f"path_piece_length = {got} for a payload of {total} bytes", want)
        return
    # explicit argument through one of the routes
    intval = None
    if isinstance(arg, int):
        intval = arg
    elif isinstance(arg, str) and arg and all(c in "0123456789" for c in arg):
        intval = int(arg)
    outcome = None
    with tempdir() as d:
        p = os.path.join(d, "payload.bin")
        with open(p, "wb") as fh:
            fh.write(content(0, "c12", 70000))
        try:
            with quiet():
                if route == "normalize":
                    outcome = ("value", utils.normalize_piece_length(arg))
                elif route == "library":
                    from torrentfile.torrent import TorrentFile
                    t = TorrentFile(path=p, piece_length=arg, progress=0)
                    outcome = ("value", t.meta["info"]["piece length"])
                elif route == "cli":
                    from torrentfile.cli import execute
                    out = os.path.join(d, "o.torrent")
                    execute(["create", p, "--piece-length", str(arg), "-o", out, "--prog", "0"])
                    import pyben
                    outcome = ("value", pyben.load(out)["info"]["piece length"])
                elif route == "config":
                    from torrentfile.cli import execute
                    out = os.path.join(d, "o.torrent")
                    ini = os.path.join(d, "torrentfile.ini")
                    with open(ini, "w", encoding="utf-8") as fh:
                        fh.write(f"[config]\npiece-length = {arg}\n")
                    execute(["create", p, "--config", "--config-path", ini, "-o", out, "--prog", "0"])
                    import pyben
                    outcome = ("value", pyben.load(out)["info"]["piece length"])
        except PLVE:
            outcome = ("rejected", None)
        except SystemExit as e:
            outcome = ("error", f"SystemExit({e.code})")
        except BaseException as e:       # noqa: BLE001
            outcome = ("error", f"{type(e).__name__}: {e}")
    cdesc = {"route": route, "arg": arg}
    if arg == "" and route != "normalize":
        # the empty string means "none given" (documented by the interactive front end: "empty=auto")
        if outcome[0] != "value" or not (outcome[1] >= 16384 and outcome[1] & (outcome[1] - 1) == 0):
            acc.fail(f"C12:{route}:empty-not-auto", cdesc, outcome, "automatic choice")
        return
    if intval is not None:
        must, may, val = _c12_judge_value(intval)
        if outcome[0] == "value":
            if not may:
                acc.fail(f"C12:{route}:accepts-invalid", cdesc, f"accepted, recorded {outcome[1]}", "PieceLengthValueError")
            elif outcome[1] != val:
                acc.fail(f"C12:{route}:wrong-value", cdesc, f"recorded {outcome[1]}", val)
        elif outcome[0] == "rejected":
            if must:
                acc.fail(f"C12:{route}:rejects-valid", cdesc, "PieceLengthValueError", f"accepted as {val}")
        else:
            acc.fail(f"C12:{route}:other-error", cdesc, outcome[1], "value or PieceLengthValueError")
    else:
        # not an ASCII decimal numeral: must be rejected with the piece-length error, or (if int() parses it)
        # treated as that integer
        if outcome[0] == "error":
            acc.fail(f"C12:{route}:other-error", cdesc, outcome[1], "PieceLengthValueError")
        elif outcome[0] == "value":
            try:
                iv = int(arg)
            except (ValueError, TypeError):
                iv = None
            if iv is None:
                acc.fail(f"C12:{route}:accepts-invalid", cdesc, f"accepted non-numeral, recorded {outcome[1]}", "PieceLengthValueError")
            else:
                must, may, val = _c12_judge_value(iv)
                if not may or outcome[1] != val:
                    acc.fail(f"C12:{route}:accepts-invalid", cdesc, f"accepted, recorded {outcome[1]}", "PieceLengthValueError or " + str(val))


@harness("C12")
def h_c12(tier, seed, hints):
    acc = Acc("C12", "explicit piece-length arguments (ints, numeral and non-numeral strings) through normalize / library / "
              "CLI / config routes, and sorted payload sizes for the automatic choice; distinct = (route, argument class)",
              "ints -5..45, 2^k+{-1,0,1} for k<=72 (quick) / k<=130 (thorough), listed odd values; sizes 0..2^50 at thresholds +-1")
    kmax = 72 if tier == "quick" else 130
    ints = set(range(-5, 46))
    for k in range(0, kmax + 1):
        ints.update([2 ** k - 1, 2 ** k, 2 ** k + 1])
    ints.update([16385, 16395, 41931, 100000, 3 * 2 ** 14, 2 ** 64 + 1, 2 ** 64 + 2 ** 20, 10 ** 12])
    ints.update(int(x) for x in hints.get("ints", []))
    strs = ["", " ", "hello", "1e5", "0x10", "-5", "+16", " 16", "16 ", "1_6", "½", "²", "١٦٣٨٤", "१४", "16.0", "１６", "0", "00016",
            "16384", "14", "25", "26", "29", "30", "13", "65536", "100000", "16385"]
    strs += [str(x) for x in hints.get("strs", [])]
    for x in sorted(ints):
        _c12_case(acc, {"route": "normalize", "arg": x})
        acc.case(("normalize", "int", min(max(x, -1), 31) if x < 31 else ("pow2" if x & (x - 1) == 0 else "other")))
    for s in strs + [str(x) for x in sorted(ints) if -1 <= x <= 40]:
        _c12_case(acc, {"route": "normalize", "arg": s})
        acc.case(("normalize", "str", s if len(s) < 4 else "long"), {"route": "normalize", "arg": s})
    sample_ints = [0, 1, 13, 14, 20, 25, 26, 29, 30, 32, 8192, 16383, 16384, 16385, 32768, 41931, 2 ** 30, 2 ** 30 + 1]
    routes = ["library", "cli", "config"]
    for r in routes:
        for x in sample_ints:
            arg = x if r == "library" else str(x)
            _c12_case(acc, {"route": r, "arg": arg})
            acc.case((r, x), {"route": r, "arg": arg})
        for s in ["hello", "½", "-5", ""]:
            if r == "config" and s in ("", "½"):
                continue
            if r == "cli" and s in ("-5", ""):
                continue
            _c12_case(acc, {"route": r, "arg": s})
            acc.case((r, s))
    sizes = {0, 1, 2 ** 50, 2 ** 50 + 1}
    for e in range(13, 26):
        for d in (-1, 0, 1):
            sizes.add(1000 * 2 ** e + d)
            sizes.add(1024 * 2 ** e + d)
    rnd = random.Random(seed)
    for _ in range(200 if tier == "quick" else 3000):
        sizes.add(rnd.randrange(0, 2 ** rnd.randrange(1, 51)))
    _c12_case(acc, {"route": "auto", "arg": sorted(sizes)})
    acc.case(("auto", len(sizes)), {"route": "auto", "arg": sorted(sizes)[:8]})
    MiB = 2 ** 20
    for layout in ([(17 * MiB, False)], [(35 * MiB, True)], [(MiB, False), (17 * MiB, True), (35 * MiB, True)], [(16384 * 1000 + 1, False)],
                   [(16384 * 1000, False), (1, True)]):
        case = {"route": "auto-path", "arg": layout}
        _c12_case(acc, case)
        acc.case(("auto-path", json.dumps(layout)), case)
    return acc.result()


@replayer("C12")
def r_c12(acc, case):
    _c12_case(acc, case)


# =============================================================================================== shared helpers
def small_trees(seed, pl=16384):
    """a few payload shapes (name, tree) around block / piece boundaries"""
    c = lambda tag, n: content(seed, tag, n)      # noqa: E731
    return [
        ("single.bin", c("s", pl + 5)),
        ("dirA", {"a.bin": c("a", pl * 2 + 1), "b.txt": c("b", 10), "sub": {"c.dat": c("c", pl), "e": b""}}),
        ("dirB", {"x": c("x", 3 * pl + 100), "y": c("y", 16383)}),
        # payload paths named like metafile fields (hostile naming) and a tree without any multi-piece file
        ("fieldnames", {"source": {"main.c": c("m", 700), "info": c("i", pl + 3)}, "comment": c("cm", 20), "private": c("p", 1),
                        "announce": {"url-list": c("u", 5)}, "httpseeds": b"", "pieces": c("pc", 2 * pl)}),
        ("tiny", {"a": c("ta", 1), "b": c("tb", 5000), "c": b"", "d": c("td", pl - 1), "e": c("te", pl)}),
    ]


def make_metafile(d, name, tree, version, pl=16384, **opts):
    """create a metafile with the real creators; returns (metafile path, payload path)"""
    from torrentfile import torrent as _t
    p = ref.write_tree(d, name, tree)
    out = os.path.join(d, f"{name}.v{version}.torrent")
    kw = dict(path=p, piece_length=pl, progress=0, outfile=out)
    kw.update(opts)
    creator = kw.pop("creator", None)          # the class-per-version creators instead of the command line's assembler
    with quiet():
        if version == 1:
            t = _t.TorrentFile(**kw)
        elif creator:
            t = getattr(_t, creator)(**kw)
        else:
            t = _t.TorrentAssembler(meta_version=str(version), **kw)
        t.write()
    return out, p


def load_strict(path):
    with open(path, "rb") as fh:
        data = fh.read()
    return ref.bdecode(data, strict=True), data


# =============================================================================================== C07 / C06 (edit part)
EDIT_FIELDS = ["announce", "url-list", "httpseeds", "comment", "source", "private"]
EDIT_VALUES = {
    "announce": [None, "", "http://t1/a", "http://t1/a http://t2/b", ["http://t3/c"], ["http://t3/c", "http://t4/d"]],
    "url-list": [None, "", "http://w1/x", ["http://w2/y", "http://w3/z"]],
    "httpseeds": [None, "", "http://h1/x http://h2/y", ["http://h3/z"]],
    "comment": [None, "", "a comment", "zz & more"],
    "source": [None, "", "SRC"],
    "private": [None, "", True],
}
CLI_FLAG = {"announce": "--tracker", "url-list": "--web-seed", "httpseeds": "--http-seed", "comment": "--comment",
            "source": "--source", "private": "--private"}


def spec_edit(meta, req):
    """reference semantics of one edit request on a decoded metafile (bytes keys).  Returns the expected value, with
    `announce-list` marked unjudged when the tracker is cleared."""
    import copy
    m = copy.deepcopy(meta)
    info = m[b"info"]
    judged_skip = set()
    for f, v in req.items():
        if v is None:
            continue
        key = f.encode()
        target = info if f in ("comment", "source", "private") else m
        if v == "":
            target.pop(key, None)
            if f == "announce":
                judged_skip.add(b"announce-list")
            continue
        if f == "private":
            info[b"private"] = 1
        elif f in ("comment", "source"):
            info[key] = v.encode()
        else:
            lst = v.split() if isinstance(v, str) else list(v)
            lst = [x.encode() for x in lst]
            if f == "announce":
                m[b"announce"] = lst[0]
                m[b"announce-list"] = [lst]
            else:
                m[key] = lst
    return m, judged_skip


def same_modulo(a, b, skip):
    ka = {k for k in a if k not in skip}
    kb = {k for k in b if k not in skip}
    return ka == kb and all(a[k] == b[k] for k in ka)


def do_edit(route, metafile, req):
    if route == "library":
        from torrentfile.edit import edit_torrent
        args = {k: v for k, v in req.items()}
        with quiet():
            edit_torrent(metafile, args)
    else:
        from torrentfile.cli import execute
        argv = ["edit", metafile]
        for f, v in req.items():
            if v is None:
                continue
            if f == "private":
                if v is True:
                    argv.append("--private")
                continue
            argv.append(CLI_FLAG[f])
            if isinstance(v, list):
                argv.extend(v)
            elif f in ("announce", "url-list", "httpseeds"):
                argv.extend(v.split())      # a shell user types the urls as separate words
            else:
                argv.append(v)
        with quiet():
            execute(argv)


def cli_expressible(req):
    for f, v in req.items():
        if f == "private" and v == "":
            return False            # the command line cannot clear the private flag
        if v == "" and f in ("announce", "url-list", "httpseeds"):
            return False            # nargs='+' with an empty string: ambiguous, not judged
    return True


def _c07_case(acc, case, check_canonical=False):
    version, opts, route, reqs = case["version"], case["opts"], case["route"], case["reqs"]
    with tempdir() as d:
        name, tree = small_trees(0)[case.get("tree", 1)]
        mf, _ = make_metafile(d, name, tree, version, **opts)
        if case.get("inject"):
            # a metafile as another (specification-conformant) encoder may have written it: falsy-valued fields
            m0 = ref.bdecode(open(mf, "rb").read(), strict=False)
            for lvl, k, v in case["inject"]:
                (m0[b"info"] if lvl == "info" else m0)[k.encode()] = v
            with open(mf, "wb") as fh:
                fh.write(ref.bencode(m0))
        cur, raw0 = load_strict(mf) if not case.get("nonstrict") else (ref.bdecode(open(mf, "rb").read(), strict=False), None)
        info_hash0 = hashlib.sha1(ref.info_span(open(mf, "rb").read())).digest()
        hash_must_hold = True
        skip = set()
        for i, req in enumerate(reqs):
            try:
                do_edit(route, mf, req)
            except BaseException as e:      # noqa: BLE001
                acc.fail(f"{case['prop']}:{route}:edit-raised", case, f"{type(e).__name__}: {e}", "edit succeeds")
                return
            cur, s2 = spec_edit(cur, req)
            skip |= s2
            if any(v is not None for f, v in req.items() if f in ("comment", "source", "private")):
                hash_must_hold = False
            data = open(mf, "rb").read()
            if check_canonical:
                try:
                    ref.bdecode(data, strict=True)
                except ref.NonCanonical as e:
                    acc.fail(f"C06:{route}:edit-noncanonical", case, str(e), "canonical bencoding after edit")
                    return
                continue
            got = ref.bdecode(data, strict=False)
            if not same_modulo(got, cur, skip):
                diff = [k for k in set(got) | set(cur) if k not in skip and got.get(k) != cur.get(k)]
                idiff = []
                if b"info" in diff:
                    gi, ci = got.get(b"info", {}), cur.get(b"info", {})
                    idiff = [k for k in set(gi) | set(ci) if gi.get(k) != ci.get(k)]
                acc.fail(f"C07:{route}:wrong-result:{','.join(sorted(x.decode() for x in diff))}:{','.join(sorted(x.decode() for x in idiff))}",
                         case, f"after request #{i} {req}: top-level keys differing {diff}, info keys differing {idiff}",
                         "original with each named field set to its last-written value")
                return
            if hash_must_hold and hashlib.sha1(ref.info_span(data)).digest() != info_hash0:
                acc.fail(f"C07:{route}:infohash-changed", case, f"info-hash changed after {req}", "unchanged info-hash")
                return


def _edit_cases(tier, prop):
    cases = []
    base_opts = [{}, {"announce": ["http://orig/a", "http://orig/b"], "url_list": ["http://ow/1"], "httpseeds": ["http://oh/1"],
                      "comment": "orig", "source": "osrc", "private": True}]
    singles = []
    for f in EDIT_FIELDS:
        for v in EDIT_VALUES[f]:
            if v is not None:
                singles.append({f: v})
    pairs = []
    for a, b in itertools.combinations(EDIT_FIELDS, 2):
        for va in EDIT_VALUES[a][1:3]:
            for vb in EDIT_VALUES[b][1:3]:
                pairs.append({a: va, b: vb})
    full = {f: EDIT_VALUES[f][-1] for f in EDIT_FIELDS}
    clear_all = {f: "" for f in EDIT_FIELDS}
    for version in (1, 2, 3):
        for oi, opts in enumerate(base_opts):
            for route in ("library", "cli"):
                reqsets = [[s] for s in singles] + [[full], [clear_all], [full, clear_all], [clear_all, full]]
                if tier == "thorough" or version == 1:
                    reqsets += [[p] for p in pairs]
                    reqsets += [[s1, s2] for s1 in singles[::3] for s2 in singles[1::4]]
                else:
                    reqsets += [[p] for p in pairs[::5]]
                for reqs in reqsets:
                    reqs = [dict({f: None for f in EDIT_FIELDS}, **r) for r in reqs]
                    if route == "cli" and not all(cli_expressible(r) for r in reqs):
                        continue
                    cases.append({"prop": prop, "version": version, "opts": opts, "optset": oi, "route": route, "reqs": reqs, "tree": 1})
    # hostile payload naming, and falsy-valued fields written by another encoder
    inject = [("info", "private", 0), ("top", "x-note", ""), ("top", "creation date", 0), ("info", "x-empty", []), ("top", "nodes", [])]
    extra = [[{"source": ""}], [{"comment": ""}], [{"private": ""}], [{"announce": ""}, {"url-list": ""}], [{"announce": ["http://n/1"]}],
             [{"httpseeds": ""}, {"comment": "c2"}], [{"url-list": ["http://w/9"], "httpseeds": ["http://h/9"]}]]
    for version in (1, 2, 3):
        for route in ("library", "cli"):
            for reqs in extra:
                reqs = [dict({f: None for f in EDIT_FIELDS}, **r) for r in reqs]
                if route == "cli" and not all(cli_expressible(r) for r in reqs):
                    continue
                cases.append({"prop": prop, "version": version, "opts": base_opts[1], "optset": "names", "route": route, "reqs": reqs, "tree": 3})
                cases.append({"prop": prop, "version": version, "opts": base_opts[0], "optset": "inject", "route": route, "reqs": reqs, "tree": 1,
                              "inject": inject})
    return cases


@harness("C07")
def h_c07(tier, seed, hints):
    acc = Acc("C07", "edit request sequences over the six fields (unnamed / str / list / cleared) on v1, v2, hybrid metafiles with and "
              "without the optional fields, through edit_torrent and through the command line; oracle = reference edit on the "
              "strictly decoded original + info-hash stability; distinct = (version, option set, route, request sequence)",
              "all single-field requests, all pairs of fields x 2 values, all-set / all-cleared, sequences of length <= 2")
    for case in _edit_cases(tier, "C07"):
        _c07_case(acc, case)
        acc.case(json.dumps([case["version"], case["optset"], case["route"], case["reqs"]], sort_keys=True, default=str),
                 {"version": case["version"], "route": case["route"], "reqs": case["reqs"]})
    return acc.result()


@replayer("C07")
def r_c07(acc, case):
    _c07_case(acc, case)


# =============================================================================================== C06
def structure_issues(meta, version):
    """structural requirements of C06 on a strictly decoded metafile (bytes keys)"""
    issues = []
    info = meta.get(b"info")
    if not isinstance(info, dict):
        return ["no info dict"]
    if not isinstance(info.get(b"name"), bytes) or not isinstance(info.get(b"piece length"), int):
        issues.append("name / piece length missing")
    if version in (1, 3):
        if (b"length" in info) == (b"files" in info):
            issues.append("exactly one of length / files required")
        if not isinstance(info.get(b"pieces"), bytes) or len(info[b"pieces"]) % 20:
            issues.append("pieces must be a string of 20-byte hashes")
    if version in (2, 3):
        if info.get(b"meta version") != 2:
            issues.append("meta version 2 missing")
        if not isinstance(info.get(b"file tree"), dict):
            issues.append("file tree missing")
        pl = meta.get(b"piece layers")
        if not isinstance(pl, dict):
            issues.append("top-level piece layers missing")
        else:
            for k, v in pl.items():
                if len(k) != 32 or not isinstance(v, bytes) or len(v) % 32 or not v:
                    issues.append("piece layers entry malformed")
    return issues


def _c06_case(acc, case):
    if case.get("reqs") is not None:
        return _c07_case(acc, case, check_canonical=True)
    with tempdir() as d:
        name, tree = c06_trees(case["seed"])[case["tree"]]
        try:
            mf, _ = make_metafile(d, name, tree, case["version"], pl=case["pl"], **case["opts"])
        except BaseException as e:      # noqa: BLE001
            acc.fail("C06:create-raised", case, f"{type(e).__name__}: {e}")
            return
        data = open(mf, "rb").read()
        try:
            meta = ref.bdecode(data, strict=True)
        except ref.NonCanonical as e:
            where = "piece-layers" if b"piece layers" in data and "ascending" in str(e) else "other"
            acc.fail(f"C06:create-noncanonical:v{case['version']}", case, str(e)[:300], "canonical bencoding")
            return
        iss = structure_issues(meta, case["version"])
        if iss:
            acc.fail(f"C06:create-structure:v{case['version']}", case, iss, "structure required by the version")


def c06_trees(seed):
    pl = 16384
    c = lambda tag, n: content(seed, tag, n)      # noqa: E731
    many = {f"f{i:02d}": c(f"m{i}", pl * 2 + i * 7 + 1) for i in range(7)}
    # a directory beside siblings whose names extend its name with characters below and above '/' (0x2f): a flat sort of whole
    # path strings orders these differently from a per-component sort
    prefixes = {"docs": {"b": c("pb", pl + 1), "a": c("pa", 7)}, "docs.txt": c("p1", 5), "docs-x": c("p2", pl + 3), "docs!": c("p3", 1),
                "docs 1": c("p4", 9), "docs0": c("p5", 2 * pl + 1), "docs_z": {"docs": c("p6", 4), "docs.": c("p7", 6)}}
    return small_trees(seed)[:3] + [("many", many), ("nested", {"z": {"b": c("zb", pl + 1), "a": c("za", 3 * pl)}, "a": c("a", 2 * pl + 5),
                                                            "é": c("e", 5), "B": c("B", pl * 4)})] + small_trees(seed)[3:] + [("prefixes", prefixes)]


@harness("C06")
def h_c06(tier, seed, hints):
    acc = Acc("C06", "metafiles written by create (all versions x option combinations x trees with several files larger than a piece) "
              "and by edit sequences, decoded with a strict canonical decoder; plus the structure each version requires",
              "8 trees (incl. a directory beside siblings extending its name with characters below and above '/'), piece lengths 16K/32K, "
              "4 option sets + aligned v1 + the per-version creator classes, 3 versions; edit sequences as in C07")
    optsets = [{}, {"announce": ["http://t/a"], "comment": "c", "private": True, "source": "s", "url_list": ["http://w"], "httpseeds": ["http://h"]},
               {"url_list": ["http://w/1", "http://w/2"]}, {"private": True}]
    ntrees = len(c06_trees(seed))
    for version in (1, 2, 3):
        # every creator that writes this version: the assembler behind the command line, the per-version classes, and for v1
        # the piece-aligned layout (padding entries)
        extra = {1: [{"align": True}, {"align": True, "comment": "c", "private": True}], 2: [{"creator": "TorrentFileV2"}],
                 3: [{"creator": "TorrentFileHybrid"}]}[version]
        for ti in range(ntrees):
            for pl in ((16384,) if tier == "quick" else (16384, 32768)):
                for oi, opts in enumerate(optsets + extra):
                    for sd in ((seed,) if tier == "quick" else (seed, seed + 1, seed + 2)):
                        case = {"prop": "C06", "version": version, "tree": ti, "pl": pl, "opts": opts, "seed": sd}
                        _c06_case(acc, case)
                        acc.case(("create", version, ti, pl, oi, sd), case if ti == 3 else None)
    for case in _edit_cases("quick", "C06"):
        if case["route"] == "cli" and tier == "quick" and case["version"] != 3:
            continue
        _c06_case(acc, case)
        acc.case(json.dumps(["edit", case["version"], case["optset"], case["route"], case["reqs"]], sort_keys=True, default=str))
    return acc.result()


@replayer("C06")
def r_c06(acc, case):
    _c06_case(acc, case)


# =============================================================================================== C17
class Fault(BaseException):
    """stands for the process dying at this point"""


def _c17_case(acc, case):
    """inject a fault (OSError, or the process 'dying' = BaseException) at the n-th file-system operation that the edit
    performs, then look at what is at the metafile path"""
    import builtins
    import shutil as _shutil
    import tempfile as _tempfile
    import pyben
    import importlib
    editmod = importlib.import_module("torrentfile.edit")
    with tempdir() as d:
        name, tree = small_trees(0)[case.get("tree", 1)]
        mf, _ = make_metafile(d, name, tree, case["version"], announce=["http://orig/a"], comment="orig")
        if case.get("symlink"):
            # the metafile path handed to the edit is a symbolic link to the real file (a library layout)
            os.makedirs(os.path.join(d, "store"))
            real = os.path.join(d, "store", "real.torrent")
            os.replace(mf, real)
            mf = os.path.join(d, "link.torrent")
            os.symlink(real, mf)
        old = open(mf, "rb").read()
        counter = {"n": 0}
        target, kind = case["at"], case["fault"]
        log = []

        exdev = kind.startswith("exdev+")
        if exdev:
            kind = kind[6:]

        def hit(label):
            counter["n"] += 1
            log.append(label)
            if exdev and label in ("rename", "replace"):
                raise OSError(18, "Invalid cross-device link (injected)")
            if counter["n"] == target:
                if kind == "exit":
                    os._exit(70)            # the process really dies here: no unwinding, no flush of buffered writers
                if kind == "die":
                    raise Fault(label)
                raise OSError(28, f"injected fault at {label}")

        real = {"remove": os.remove, "replace": os.replace, "rename": os.rename, "open": builtins.open, "fdopen": os.fdopen,
                "mkstemp": _tempfile.mkstemp, "copymode": _shutil.copymode, "unlink": os.unlink}

        class W:
            def __init__(self, f):
                self._f = f

            def write(self, b):
                counter["n"] += 1
                log.append("write")
                if counter["n"] == target:
                    if kind == "exit":
                        os._exit(70)
                    if kind == "exit-after":
                        self._f.write(b)    # accepted by the buffered writer, never flushed
                        os._exit(70)
                    if kind == "short":
                        self._f.write(b[:max(0, len(b) // 2)])
                        self._f.flush()
                        raise OSError(28, "injected short write")
                    if kind == "die":
                        self._f.write(b[:max(0, len(b) // 2)])
                        self._f.flush()
                        raise Fault("write")
                    raise OSError(28, "injected write fault")
                return self._f.write(b)

            def __getattr__(self, a):
                return getattr(self._f, a)

            def __enter__(self):
                return self

            def __exit__(self, *a):
                return self._f.__exit__(*a)

        def p_open(file, mode="r", *a, **k):
            if any(m in mode for m in "wax+"):
                hit(f"open({mode})")
                return W(real["open"](file, mode, *a, **k))
            return real["open"](file, mode, *a, **k)

        def p_fdopen(fd, mode="r", *a, **k):
            f = real["fdopen"](fd, mode, *a, **k)
            return W(f) if any(m in mode for m in "wax+") else f

        def wrap(nm):
            def f(*a, **k):
                if kind == "exit-after":
                    counter["n"] += 1
                    log.append(nm)
                    r = real[nm](*a, **k)
                    if counter["n"] == target:
                        os._exit(70)        # the process dies right after this operation returned
                    return r
                hit(nm)
                return real[nm](*a, **k)
            return f
        real["write"] = os.write
        real["sendfile"] = getattr(os, "sendfile", None)

        def p_oswrite(fd, data):
            counter["n"] += 1
            log.append("os.write")
            if counter["n"] == target:
                if kind == "exit":
                    os._exit(70)
                if kind == "short":
                    return real["write"](fd, bytes(data)[:max(0, len(data) // 2)])      # short write, no exception
                if kind == "die":
                    real["write"](fd, bytes(data)[:max(0, len(data) // 2)])
                    raise Fault("os.write")
                raise OSError(28, "injected os.write fault")
            return real["write"](fd, data)

        def p_sendfile(*a, **k):
            hit("sendfile")
            return real["sendfile"](*a, **k)
        patches = [(os, "write", p_oswrite)] + ([(os, "sendfile", p_sendfile)] if real["sendfile"] else []) + [
                   (os, "remove", wrap("remove")), (os, "unlink", wrap("unlink")), (os, "replace", wrap("replace")),
                   (os, "rename", wrap("rename")), (builtins, "open", p_open), (os, "fdopen", p_fdopen),
                   (_tempfile, "mkstemp", wrap("mkstemp")), (_shutil, "copymode", wrap("copymode"))]
        saved = [(o, n, getattr(o, n)) for o, n, _ in patches]
        outcome = "completed"
        if kind in ("exit", "exit-after"):
            # real process death: the edit runs in a forked child that calls os._exit at the chosen operation
            sys.stdout.flush()
            sys.stderr.flush()
            pid = os.fork()
            if pid == 0:
                code = 0
                try:
                    for o, n, f in patches:
                        setattr(o, n, f)
                    with quiet():
                        editmod.edit_torrent(mf, dict(case["req"]))
                except BaseException:      # noqa: BLE001
                    code = 1
                finally:
                    os._exit(code)
            _, st = os.waitpid(pid, 0)
            ec = os.waitstatus_to_exitcode(st)
            outcome = {0: "completed", 70: "died"}.get(ec, "raised (in child)")
            counter["n"] = target
            log.append("exit")
        else:
            try:
                for o, n, f in patches:
                    setattr(o, n, f)
                try:
                    with quiet():
                        editmod.edit_torrent(mf, dict(case["req"]))
                except Fault:
                    outcome = "died"
                except BaseException as e:      # noqa: BLE001
                    outcome = f"raised {type(e).__name__}"
            finally:
                for o, n, f in saved:
                    setattr(o, n, f)
        nops = counter["n"]
        if not os.path.isfile(mf):
            acc.fail(f"C17:{kind}:metafile-missing", case, f"{outcome} at op {target} ({log[-1] if log else '-'}); metafile path is gone",
                     "complete old or new metafile")
            return nops
        now = open(mf, "rb").read()
        ok = now == old
        if not ok:
            try:
                m = ref.bdecode(now, strict=False)
                ok = isinstance(m, dict) and b"info" in m and len(now) > 0
                exp, _ = spec_edit(ref.bdecode(old, strict=False), {k: v for k, v in case["req"].items() if isinstance(v, (str, list, bool, type(None)))})
                ok = ok and same_modulo(m, exp, set())
            except Exception:       # noqa: BLE001
                ok = False
        if not ok:
            acc.fail(f"C17:{kind}:metafile-damaged", case, f"{outcome} at op {target} ({log[-1] if log else '-'}); {len(now)} bytes at the path, "
                     f"neither the old ({len(old)} bytes) nor the complete edited metafile", "complete old or new metafile")
        elif outcome.startswith("raised") and now != old and target <= nops and case["fault"] != "none":
            pass
        return nops


@harness("C17")
def h_c17(tier, seed, hints):
    acc = Acc("C17", "fault injection into edit_torrent: OSError / short write / process death at the n-th file-system operation "
              "(open-for-write, write, remove, replace, rename, mkstemp, copymode), n = 1..(number of operations), and un-encodable "
              "values; afterwards the metafile path must hold the complete old or the complete edited metafile",
              "3 versions x 4 requests x every operation index x {oserror, short, die (exception), exit (os._exit in a forked child: "
              "nothing is unwound or flushed; before and right after the operation)}, also with the metafile path a symbolic link, and with rename/replace failing EXDEV "
              "(cross-device) so that fall-back copy paths are exercised")
    reqs = [{"comment": "new comment"}, {"announce": ["http://n/1", "http://n/2"], "private": True},
            {"comment": "", "announce": ""}, {"url-list": "http://w/1 http://w/2", "source": "S"}]
    bad = [{"comment": 3.5}, {"url-list": [object()]}, {"announce": [b"ok", 1.5]}]
    for version in (1, 2, 3):
        for ri, req in enumerate(reqs):
            n = _c17_case(acc, {"prop": "C17", "version": version, "req": req, "at": 10 ** 6, "fault": "none"}) or 0
            acc.case(("nofault", version, ri))
            nx = _c17_case(acc, {"prop": "C17", "version": version, "req": req, "at": 10 ** 6, "fault": "exdev+none"}) or 0
            for at in range(1, max(n, nx) + 1):
                for kind in ("oserror", "short", "die", "exit", "exit-after") + (
                        ("exdev+oserror", "exdev+short", "exdev+die", "exdev+exit", "exdev+exit-after") if at <= nx else ()):
                    case = {"prop": "C17", "version": version, "req": req, "at": at, "fault": kind}
                    _c17_case(acc, case)
                    acc.case((version, ri, at, kind), case if version == 1 and ri == 0 else None)
        # the same with the metafile path being a symbolic link (one request per version)
        req = reqs[version % len(reqs)]
        n = _c17_case(acc, {"prop": "C17", "version": version, "req": req, "at": 10 ** 6, "fault": "none", "symlink": True}) or 0
        acc.case(("nofault-symlink", version))
        for at in range(1, n + 3):
            for kind in ("oserror", "short", "die", "exit", "exit-after"):
                case = {"prop": "C17", "version": version, "req": req, "at": at, "fault": kind, "symlink": True}
                _c17_case(acc, case)
                acc.case(("symlink", version, at, kind))
        for bi, req in enumerate(bad):
            case = {"prop": "C17", "version": version, "req": req, "at": 10 ** 6, "fault": "unencodable"}
            _c17_case(acc, case)
            acc.case(("unencodable", version, bi))
    return acc.result()


@replayer("C17")
def r_c17(acc, case):
    _c17_case(acc, case)


# =============================================================================================== C20
C20_OPTS = {
    "announce": ["http://t1/announce", "http://t2/announce"],
    "web-seed": ["http://w1/x", "http://w2/y"],
    "http-seed": ["http://h1/z"],
    "private": True,
    "source": "Tracker #1",
    "comment": "Season 2 disc #14 ; second = pressing: 100 [x]",
    "piece-length": "15",
    "align": True,
}
C20_KW = {"announce": "announce", "web-seed": "url_list", "http-seed": "httpseeds", "private": "private", "source": "source",
          "comment": "comment", "piece-length": "piece_length", "meta-version": "meta_version", "out": "outfile", "align": "align"}
C20_FIELD = {"announce": ("top", "announce"), "web-seed": ("top", "url-list"), "http-seed": ("top", "httpseeds"),
             "private": ("info", "private"), "source": ("info", "source"), "comment": ("info", "comment"),
             "piece-length": ("info", "piece length")}


def _c20_run(route, d, payload, opts, version, order, out=None):
    """create through one route; returns decoded metafile (bytes keys) without creation date"""
    from torrentfile.cli import execute
    out = out or os.path.join(d, f"out_{route}_{order}.torrent")
    opts = {k: v for k, v in opts.items() if k != "out"}
    if route == "keyword":
        from torrentfile.torrent import TorrentFile, TorrentAssembler
        kw = {C20_KW[k]: v for k, v in opts.items()}
        kw.update(path=payload, outfile=out, meta_version=str(version), progress=0)
        with quiet():
            t = TorrentFile(**kw) if version == 1 else TorrentAssembler(**kw)
            t.write()
    elif route == "flags":
        flags = []
        for k, v in opts.items():
            if v is True:
                flags.append([f"--{k}"])
            elif isinstance(v, list):
                flags.append([f"--{k}"] + v)
            else:
                flags.append([f"--{k}", v])
        flags.append(["--meta-version", str(version)])
        flags.append(["-o", out])
        flags.append(["--prog", "0"])
        flat = [x for f in flags for x in f]
        if order == "first":
            argv = ["create", payload] + flat
        elif order == "last":
            # list-valued flags placed right before the positional content path
            listflags = [f for f in flags if len(f) > 2]
            others = [f for f in flags if len(f) <= 2]
            argv = ["create"] + [x for f in others + listflags for x in f] + [payload]
        else:
            half = len(flags) // 2
            argv = ["create"] + [x for f in flags[:half] for x in f if True]
            # a list flag must not directly precede the path in the middle position unless it is the documented recovery
            argv += [payload] + [x for f in flags[half:] for x in f]
            if len(flags[half - 1]) > 2:
                argv = ["create"] + [x for f in flags[:half] for x in f] + ["--prog", "0", payload] + [x for f in flags[half:] for x in f]
        with quiet():
            execute(argv)
    else:
        ini = os.path.join(d, f"cfg_{order}.ini")
        lines = ["[config]"]
        for k, v in opts.items():
            if v is True:
                lines.append(f"{k} = " + {"ini": "true", "ini-cap": "True", "ini-upper": "TRUE"}.get(order, "true"))
            elif isinstance(v, list):
                lines.append(f"{k} =")
                lines += [f"    {x}" for x in v]
            else:
                lines.append(f"{k} = {v}")
        lines.append(f"meta-version = {version}")
        lines.append(f"out = {out}")
        with open(ini, "w", encoding="utf-8") as fh:
            fh.write("\n".join(lines) + "\n")
        with quiet():
            execute(["create", payload, "--config", "--config-path", ini, "--prog", "0"])
    if not os.path.isfile(out):
        return None
    m = ref.bdecode(open(out, "rb").read(), strict=False)
    m.pop(b"creation date", None)
    return m


def _c20_inside_case(acc, case):
    """`out` names an existing file INSIDE the content directory (re-creating a torrent in place): every route works on its own
    identical copy of the payload; the three metafiles must still be identical"""
    opts, version = case["opts"], case["version"]
    with tempdir() as d:
        name, tree = small_trees(0)[1]
        old = content(7, "oldmeta", 183)
        results = {}
        for route, order in (("keyword", "kw"), ("flags", "first"), ("config", "ini")):
            sub = os.path.join(d, f"copy_{route}")
            os.makedirs(sub)
            payload = ref.write_tree(sub, name, dict(tree, **{"old.torrent": old}))
            out = os.path.join(payload, "old.torrent")
            os.chdir(sub)
            try:
                m = _c20_run(route, sub, payload, dict(opts, out=out) if route != "keyword" else opts, version, order, out=out)
                results[route] = m
            except BaseException as e:      # noqa: BLE001
                results[route] = f"raised {type(e).__name__}: {e}"
        base = results["keyword"]
        for route, m in results.items():
            if route != "keyword" and m != base:
                what = m if not isinstance(m, dict) else sorted(k.decode() for k in set(m.get(b"info", {})) | set(base.get(b"info", {}))
                                                                 if m.get(b"info", {}).get(k) != base.get(b"info", {}).get(k)) if isinstance(base, dict) else "?"
                acc.fail(f"C20:{route}:out-inside-content:differs", case, f"differs from the keyword route: {what}", "identical metafiles")


def _c20_case(acc, case):
    if case.get("out_inside"):
        return _c20_inside_case(acc, case)
    opts, version = case["opts"], case["version"]
    with tempdir() as d:
        name, tree = small_trees(0)[1]
        payload = ref.write_tree(d, name, tree)
        os.chdir(d)
        results = {}
        routes = [("keyword", "kw"), ("flags", "first"), ("flags", "last"), ("flags", "middle"), ("config", "ini")]
        if any(v is True for v in opts.values()):
            routes += [("config", "ini-cap"), ("config", "ini-upper")]       # the switch spelled True / TRUE in the configuration file
        for route, order in routes:
            try:
                results[(route, order)] = _c20_run(route, d, payload, opts, version, order)
            except BaseException as e:      # noqa: BLE001
                results[(route, order)] = f"raised {type(e).__name__}: {e}"
        base = results[("keyword", "kw")]
        if not isinstance(base, dict):
            acc.fail("C20:keyword:failed", case, base, "metafile")
            return
        # documented field of every option (keyword route)
        for k, v in opts.items():
            if k in C20_FIELD:
                lvl, key = C20_FIELD[k]
                got = (base[b"info"] if lvl == "info" else base).get(key.encode())
                exp = 1 if v is True else ([x.encode() for x in v] if isinstance(v, list) else v.encode())
                if k == "announce":
                    exp = v[0].encode()
                if k == "piece-length":
                    exp = 2 ** int(v)
                if got != exp:
                    acc.fail(f"C20:keyword:field:{k}", case, f"{key} = {got!r}", exp)
        for (route, order), m in results.items():
            if route == "keyword":
                continue
            if m is None:
                acc.fail(f"C20:{route}:{order}:no-output-at-out:{'+'.join(sorted(opts))}", case, "no metafile at the requested output path", "metafile at out")
            elif not isinstance(m, dict):
                acc.fail(f"C20:{route}:{order}:failed", case, m, "metafile")
            elif m != base:
                diff = sorted(k.decode() for k in set(m) | set(base) if m.get(k) != base.get(k))
                idiff = sorted(k.decode() for k in set(m.get(b"info", {})) | set(base[b"info"]) if m.get(b"info", {}).get(k) != base[b"info"].get(k))
                acc.fail(f"C20:{route}:{order}:differs:{','.join(diff)}:{','.join(idiff)}", case,
                         f"top-level keys {diff}, info keys {idiff} differ from the keyword route", "identical metafiles")


@harness("C20")
def h_c20(tier, seed, hints):
    acc = Acc("C20", "the same option set supplied as keyword arguments, as command-line flags (content path first / in the middle / "
              "after the list-valued flags) and as a configuration file; the five metafiles must be identical apart from the "
              "creation date and every option must land in its documented field; distinct = (option subset, version)",
              "all single options, all pairs, the full set; versions 1,2,3")
    keys = list(C20_OPTS)
    subsets = [[k] for k in keys] + [list(p) for p in itertools.combinations(keys, 2)] + [keys, []]
    if tier == "quick":
        subsets = [[k] for k in keys] + [list(p) for p in itertools.combinations(keys, 2)][::3] + [keys, []]
    for version in (1, 2, 3):
        for sub in subsets:
            if "align" in sub and version != 1:
                continue
            case = {"prop": "C20", "opts": {k: C20_OPTS[k] for k in sub}, "version": version}
            _c20_case(acc, case)
            acc.case((version, tuple(sub)), case if len(sub) == 2 else None)
        case = {"prop": "C20", "opts": {"comment": "in place"}, "version": version, "out_inside": True}
        _c20_case(acc, case)
        acc.case((version, "out-inside"), case)
    return acc.result()


@replayer("C20")
def r_c20(acc, case):
    _c20_case(acc, case)


# =============================================================================================== C11
NASTY = ["plain", "with space", "a&b=c", "100%+x#frag", "ünï cødé ✓", "semi;colon?q=1", "trailing/", "  "]


def _c11_case(acc, case):
    from urllib.parse import parse_qsl
    from torrentfile.commands import magnet
    with tempdir() as d:
        nm = case["name"]
        tree = small_trees(0)[1][1] if case["dir"] else small_trees(0)[0][1]
        version = case["version"]
        info = ref.ref_info(nm, tree, 16384, version)
        meta = {"info": info}
        if version != 1:
            meta["piece layers"] = ref.ref_piece_layers(tree, 16384)
        tr = case["trackers"]
        if tr is not None:
            if case["tiers"]:
                meta["announce"] = tr[0]
                meta["announce-list"] = [tr[:1], tr[1:]] if len(tr) > 1 else [tr]
            else:
                meta["announce"] = tr[0]
        if case["ws"] is not None:
            meta["url-list"] = case["ws"]
        for k, v in case.get("extra", {}).items():
            meta["info" if False else k] = v
        if case.get("extra_info"):
            info.update(case["extra_info"])
        data = ref.bencode(meta, sort_keys=not case.get("unsorted"))
        if case.get("unsorted"):
            # arbitrary key order as another encoder might emit it (reverse order at top level and in info)
            m2 = {k: meta[k] for k in reversed(list(meta))}
            m2["info"] = {k: info[k] for k in reversed(list(info))}
            data = ref.bencode(m2, sort_keys=False)
        mf = os.path.join(d, "m.torrent")
        with open(mf, "wb") as fh:
            fh.write(data)
        if case.get("edit"):
            from torrentfile.edit import edit_torrent
            with quiet():
                edit_torrent(mf, dict(case["edit"]))
            data = open(mf, "rb").read()
            cur = ref.to_text(ref.bdecode(data, strict=False))
            tr = None
            if "announce-list" in cur:
                tr = [u for tier in cur["announce-list"] for u in tier]
            elif "announce" in cur:
                tr = [cur["announce"]]
            case_ws = cur.get("url-list")
        else:
            case_ws = case["ws"]
        span = ref.info_span(data)
        for req in case["requests"]:
            try:
                with quiet():
                    uri = magnet(mf, version=req)
            except BaseException as e:      # noqa: BLE001
                acc.fail("C11:magnet-raised", dict(case, requests=[req]), f"{type(e).__name__}: {e}")
                continue
            if not uri.startswith("magnet:?"):
                acc.fail("C11:not-a-magnet-uri", dict(case, requests=[req]), uri[:200])
                continue
            params = parse_qsl(uri[len("magnet:?"):], keep_blank_values=True)
            xts = [v for k, v in params if k == "xt"]
            want = []
            has_v1, has_v2 = version in (1, 3), version in (2, 3)
            if has_v1 and (not has_v2 or req in (0, 1, 3)):
                want.append("urn:btih:" + hashlib.sha1(span).hexdigest())
            if has_v2 and req != 1:
                want.append("urn:btmh:1220" + hashlib.sha256(span).hexdigest())
            c1 = dict(case, requests=[req])
            if xts != want:
                acc.fail(f"C11:xt:v{version}:req{req}", c1, xts, want)
            dn = [v for k, v in params if k == "dn"]
            if dn != [nm]:
                acc.fail("C11:dn", c1, dn, [nm])
            trs = [v for k, v in params if k == "tr"]
            if trs != (tr or []):
                acc.fail("C11:tr", c1, trs, tr or [])
            wss = [v for k, v in params if k == "ws"]
            if wss != (case_ws or []):
                acc.fail("C11:ws", c1, wss, case_ws or [])
            other = [k for k, v in params if k not in ("xt", "dn", "tr", "ws")]
            if other:
                acc.fail("C11:stray-parameters", c1, other, [])


@harness("C11")
def h_c11(tier, seed, hints):
    acc = Acc("C11", "magnet URIs of reference-encoded metafiles (v1 / v2 / hybrid, single file and directory, sorted and arbitrary key "
              "order, extra keys, edited here) parsed with urllib.parse: xt against SHA-1 / SHA-256 of the exact info span of the file, "
              "dn / tr / ws against name and URL lists; distinct = (version, request, name, trackers, web seeds, key order)",
              "8 hostile names, tracker lists of 0..3 URLs with/without tiers, web-seed lists 0..2, versions x requests")
    urls = ["http://t.example/announce", "udp://open.example.net", "http://x/y?a=1&b=2 3+4#f", "http://ü.example/ä"]
    n = 0
    for version in (1, 2, 3):
        reqs = [0] if version != 3 else [0, 1, 2, 3]
        if version == 1:
            reqs = [0, 1]
        if version == 2:
            reqs = [0, 2]
        for ni, nm in enumerate(NASTY):
            if nm.endswith("/") or nm.strip() == "":
                continue
            for ti, (tr, tiers) in enumerate([(None, False), (urls[:1], False), (urls[:1], True), (urls[:3], True), (urls[1:4], True)]):
                for wi, ws in enumerate([None, urls[2:3], urls[:2] + ["http://mirror.example/files"]]):
                    if tier == "quick" and (ni + ti + wi) % 3 and not (ni == 0 or ti == 3):
                        continue
                    for unsorted in (False, True):
                        case = {"prop": "C11", "version": version, "name": nm, "dir": bool((ni + ti) % 2), "trackers": tr, "tiers": tiers,
                                "ws": ws, "requests": reqs, "unsorted": unsorted,
                                "extra_info": ({"zz-extra": 5, "aa-first": "x"} if unsorted else None)}
                        _c11_case(acc, case)
                        acc.case((version, ni, ti, wi, unsorted), case if n % 40 == 0 else None)
                        n += 1
        # edited here
        for edit in ({"comment": "added later"}, {"announce": ["http://new/a", "http://new/b"], "source": "S"}, {"url-list": ["http://w/z"]}):
            case = {"prop": "C11", "version": version, "name": "edited name", "dir": True, "trackers": urls[:2], "tiers": True, "ws": None,
                    "requests": reqs, "unsorted": False, "edit": edit}
            _c11_case(acc, case)
            acc.case((version, "edit", json.dumps(edit)))
    return acc.result()


@replayer("C11")
def r_c11(acc, case):
    _c11_case(acc, case)


# =============================================================================================== C18
def snapshot(root):
    out = {}
    for dp, dns, fns in os.walk(root):
        rel = os.path.relpath(dp, root)
        out[("d", rel)] = None
        for fn in fns:
            p = os.path.join(dp, fn)
            with open(p, "rb") as fh:
                out[("f", os.path.normpath(os.path.join(rel, fn)))] = hashlib.sha256(fh.read()).hexdigest()
    return out


def snap_diff(a, b):
    added = sorted(str(k) for k in b if k not in a)
    removed = sorted(str(k) for k in a if k not in b)
    changed = sorted(str(k) for k in a if k in b and a[k] != b[k])
    return added, removed, changed


def _c18_case(acc, case):
    from torrentfile.cli import execute
    kind = case["kind"]
    with tempdir() as d:
        work = os.path.join(d, "work")
        os.makedirs(work)
        name, tree = small_trees(0)[case.get("tree", 1)]
        version = case.get("version", 1)
        mf, payload = make_metafile(work, name, tree, version, announce=["http://t/a"], url_list=["http://w/b"])
        if case.get("damage"):
            # flip a byte in the first file, remove the last
            files = sorted(p for p in (os.path.join(dp, f) for dp, _, fs in os.walk(payload) for f in fs)) if os.path.isdir(payload) else [payload]
            with open(files[0], "r+b") as fh:
                fh.write(b"\\xff")
            if len(files) > 1:
                os.remove(files[-1])
        # bystanders that a sloppy implementation might clobber
        for by in (".torrent", "torrentfile.log", name + ".torrent"):
            with open(os.path.join(work, by), "wb") as fh:
                fh.write(b"bystander " + by.encode())
        if case.get("outdir"):
            os.makedirs(os.path.join(work, "outdir"))
            with open(os.path.join(work, "outdir", ".torrent"), "wb") as fh:
                fh.write(b"bystander in the output directory")
        os.chdir(work)
        before = snapshot(d)
        argv = [a.replace("{mf}", mf).replace("{payload}", payload).replace("{work}", work).replace("{rel_mf}", os.path.relpath(mf, work))
                .replace("{rel_payload}", os.path.relpath(payload, work)) for a in case["argv"]]
        err = None
        try:
            with quiet():
                execute(list(argv))
        except SystemExit as e:
            err = f"SystemExit({e.code})"
        except BaseException as e:      # noqa: BLE001
            err = f"{type(e).__name__}: {e}"
        import logging
        for h in list(logging.getLogger().handlers):
            try:
                h.close()
            except Exception:       # noqa: BLE001
                pass
            logging.getLogger().removeHandler(h)
        sys.stdout, sys.stderr = sys.__stdout__, sys.__stderr__
        after = snapshot(d)
        added, removed, changed = snap_diff(before, after)
        label = " ".join(case["argv"][:3])
        if kind == "readonly":
            if added or removed or changed:
                acc.fail(f"C18:{case['cmd']}:modified-filesystem", case, f"{label}: added {added} removed {removed} changed {changed} (err={err})",
                         "no change at all")
        elif kind == "create":
            exp = os.path.normpath(os.path.relpath(case["expect_out"].replace("{work}", work).replace("{name}", name), d))
            if err:
                acc.fail("C18:create:raised", case, err)
            elif removed or changed or added != [str(("f", exp))]:
                acc.fail("C18:create:not-exactly-one-file", case, f"added {added} removed {removed} changed {changed}", f"exactly one new file {exp}")
        elif kind == "create-default":
            exp = os.path.normpath(os.path.relpath(os.path.join(work, name + ".torrent"), d))
            if err:
                acc.fail("C18:create:raised", case, err)
            elif removed or added or changed != [str(("f", exp))]:
                acc.fail("C18:create:not-exactly-one-file", case, f"added {added} removed {removed} changed {changed}", f"only {exp} written")
        elif kind == "create-over":
            exp = os.path.normpath(os.path.relpath(mf, d))
            if err:
                acc.fail("C18:create:raised", case, err)
            elif removed or added or changed != [str(("f", exp))]:
                acc.fail("C18:create:not-exactly-one-file", case, f"added {added} removed {removed} changed {changed}", f"only {exp} rewritten")
        elif kind == "rename-clobber":
            if not (err and "FileExistsError" in err) or added or removed or changed:
                acc.fail("C18:rename:clobbered-or-no-refusal", case, f"err={err} added {added} removed {removed} changed {changed}",
                         "FileExistsError and nothing changed")
        elif kind == "rename":
            src = os.path.normpath(os.path.relpath(case["src"].replace("{work}", work), d))
            dst = os.path.normpath(os.path.relpath(os.path.join(os.path.dirname(case["src"].replace("{work}", work)), name + ".torrent"), d))
            ok = (not err and removed == [str(("f", src))] and added == [str(("f", dst))] and not changed
                  and after.get(("f", dst)) == before.get(("f", src)))
            if not ok:
                acc.fail("C18:rename:wrong-effect", case, f"err={err} added {added} removed {removed} changed {changed}", f"{src} -> {dst}, same bytes")


def _c18_cases(tier):
    cases = []
    for version in (1, 2, 3):
        for tree in ((1,) if tier == "quick" else (0, 1, 2)):
            for damage in (False, True):
                for pre in ([], ["-q"], ["-v"]):
                    for cmd, argv in (("recheck", ["recheck", "{mf}", "{payload}"]), ("recheck", ["check", "{rel_mf}", "{work}"]),
                                      ("info", ["info", "{mf}"]), ("magnet", ["magnet", "{mf}"]), ("magnet", ["m", "{rel_mf}", "--meta-version", "0"])):
                        if damage and cmd != "recheck":
                            continue
                        cases.append({"prop": "C18", "kind": "readonly", "cmd": cmd, "argv": pre + argv, "version": version, "tree": tree,
                                      "damage": damage})
    for version in ("1", "2", "3"):
        cases.append({"prop": "C18", "kind": "create", "version": 1, "argv": ["create", "{payload}", "--meta-version", version, "-o", "{work}/out/new.torrent".replace("/out", "")],
                      "expect_out": "{work}/new.torrent"})
        cases.append({"prop": "C18", "kind": "create", "version": 1, "argv": ["-q", "create", "--meta-version", version, "--prog", "0", "-o", "{work}/sub.torrent", "{rel_payload}"],
                      "expect_out": "{work}/sub.torrent"})
        cases.append({"prop": "C18", "kind": "create-over", "version": 1, "argv": ["create", "{payload}", "--meta-version", version, "-o", "{mf}"]})
        # no -o: the default output <cwd>/<name>.torrent exists as a bystander and is the one file that may change
        cases.append({"prop": "C18", "kind": "create-default", "version": 1, "argv": ["create", "{payload}", "--meta-version", version, "--prog", "0"]})
        cases.append({"prop": "C18", "kind": "create", "version": 1, "argv": ["create", "{payload}", "--meta-version", version, "-o", "{work}/outdir/"],
                      "expect_out": "{work}/outdir/{name}.torrent", "outdir": True})
        cases.append({"prop": "C18", "kind": "create", "version": 1, "argv": ["create", "{payload}", "--meta-version", version, "--magnet", "-o", "{work}/m.torrent"],
                      "expect_out": "{work}/m.torrent"})
    return cases


@harness("C18")
def h_c18(tier, seed, hints):
    acc = Acc("C18", "whole-directory snapshots (names and SHA-256 of every file, with bystander files '.torrent', 'torrentfile.log', "
              "'<name>.torrent' in the working directory) before and after recheck / info / magnet in all spellings (-q, -v, aliases, "
              "relative paths, intact and damaged content), create (exactly one new file), rename (no clobber, same bytes)",
              "3 versions x spellings x {intact, damaged}; create to new / existing output; rename with and without collision")
    for case in _c18_cases(tier):
        _c18_case(acc, case)
        acc.case(json.dumps([case["kind"], case.get("cmd"), case["argv"], case.get("version"), case.get("damage")]),
                 case if case["kind"] != "readonly" or case["argv"][0] == "-v" else None)
    # rename
    for case in ({"prop": "C18", "kind": "rename-clobber", "version": 1, "argv": ["rename", "{mf}x"], "pre_copy": True},):
        pass
    _c18_rename(acc)
    return acc.result()


def _c18_rename(acc):
    from torrentfile.cli import execute
    for sub, collide in (("", False), ("", True), ("store", False), ("store", True)):
        with tempdir() as d:
            work = os.path.join(d, "work")
            os.makedirs(os.path.join(work, "store"))
            name, tree = small_trees(0)[1]
            mf, payload = make_metafile(work, name, tree, 1)
            src = os.path.join(work, sub, "download_77.torrent")
            os.replace(mf, src)
            dst = os.path.join(work, sub, name + ".torrent")
            if collide:
                with open(dst, "wb") as fh:
                    fh.write(b"an older metafile that must survive")
            with open(os.path.join(work, "bystander.torrent"), "wb") as fh:
                fh.write(b"x")
            os.chdir(work)
            before = snapshot(d)
            err = None
            try:
                with quiet():
                    execute(["rename", src if sub else os.path.relpath(src, work)])
            except BaseException as e:      # noqa: BLE001
                err = f"{type(e).__name__}"
            after = snapshot(d)
            added, removed, changed = snap_diff(before, after)
            case = {"prop": "C18", "kind": "rename", "sub": sub, "collide": collide}
            acc.case(("rename", sub, collide), case)
            rs, rd = os.path.normpath(os.path.relpath(src, d)), os.path.normpath(os.path.relpath(dst, d))
            if collide:
                if err != "FileExistsError" or added or removed or changed:
                    acc.fail("C18:rename:clobbered-or-no-refusal", case, f"err={err} added {added} removed {removed} changed {changed}",
                             "FileExistsError, nothing changed")
            else:
                ok = not err and removed == [str(("f", rs))] and added == [str(("f", rd))] and not changed and after[("f", rd)] == before[("f", rs)]
                if not ok:
                    acc.fail("C18:rename:wrong-effect", case, f"err={err} added {added} removed {removed} changed {changed}", "moved, same bytes")


@replayer("C18")
def r_c18(acc, case):
    if case["kind"] == "rename":
        _c18_rename(acc)
    else:
        _c18_case(acc, case)


# ----------------------------------------------------------------------------------------------- further harness modules
# (each registers its @harness / @replayer functions on import)
for _mod in ("harness_create", "harness_recheck", "harness_rebuild", "harness_misc"):
    try:
        __import__("native." + _mod)
    except ImportError as _e:          # a missing module must not take the other properties down
        sys.stderr.write(f"harness module {_mod} not available: {_e}\n")


# =============================================================================================== C14 (additional scenarios)
def _c14x_case(acc, case):
    """scenarios the enumerated scope of harness_rebuild does not contain: (a) a same-named candidate that is LONGER than recorded and
    starts with the right bytes; (b) two releases of a torrent (same paths, longer files in the second) rebuilt into one destination"""
    from torrentfile.rebuild import Assembler
    pl = 16384
    with tempdir() as d:
        search, dest, metas = os.path.join(d, "search"), os.path.join(d, "dest"), os.path.join(d, "metas")
        for x in (search, dest, metas):
            os.makedirs(x)
        version = case["version"]
        if case["kind"] == "longer-prefix-decoy":
            good = content(1, "track", case["size"])
            tree = {"cover.bin": content(1, "cover", 700), "track.bin": good, "notes.txt": content(1, "notes", pl + 11)}
            mf, _ = make_metafile(metas, "album", tree, version, pl=pl)
            meta = ref.to_text(ref.bdecode(open(mf, "rb").read(), strict=False))
            shutil.rmtree(os.path.join(metas, "album"))
            sub = os.path.join(search, "a_first")
            os.makedirs(sub)
            for nm, data in tree.items():
                if nm != "track.bin":
                    open(os.path.join(sub, nm), "wb").write(data)
            open(os.path.join(sub, "track.bin"), "wb").write(good + content(2, "appendix", case["extra"]))   # longer than recorded
            before = snapshot(search)
            with quiet():
                try:
                    Assembler([mf], [search], dest).assemble_torrents()
                    Assembler([mf], [search], dest).assemble_torrents()
                except BaseException as e:      # noqa: BLE001
                    acc.fail("C14x:rebuild-raised", case, f"{type(e).__name__}: {e}")
                    return
            after = snapshot(search)
            if before != after:
                acc.fail("C14x:search-dir-altered", case, snap_diff(before, after))
            placed = os.path.join(dest, "album", "track.bin")
            if os.path.exists(placed) and os.path.getsize(placed) != len(good):
                acc.fail(f"C14x:v{version}:placed-file-with-wrong-length", case,
                         f"album/track.bin placed with {os.path.getsize(placed)} bytes, metafile records {len(good)}", "nothing placed, or the recorded length")
        else:
            old_tree = {"data.bin": content(3, "v1", case["size"]), "readme": content(3, "r", 100)}
            new_tree = {"data.bin": content(3, "v1", case["size"]) + content(4, "more", case["extra"]), "readme": content(3, "r", 100)}
            s1, s2 = os.path.join(search, "v1"), os.path.join(search, "v2")
            os.makedirs(s1)
            os.makedirs(s2)
            mf1, _ = make_metafile(s1, "pack", old_tree, version, pl=pl)
            mf2, _ = make_metafile(s2, "pack", new_tree, version, pl=pl)
            m1, m2 = os.path.join(metas, "one.torrent"), os.path.join(metas, "two.torrent")
            os.replace(mf1, m1)
            os.replace(mf2, m2)
            before = snapshot(search)
            with quiet():
                try:
                    Assembler([m1], [s1], dest).assemble_torrents()
                    Assembler([m2], [s2], dest).assemble_torrents()
                except BaseException as e:      # noqa: BLE001
                    acc.fail("C14x:rebuild-raised", case, f"{type(e).__name__}: {e}")
                    return
            after = snapshot(search)
            if before != after:
                added, removed, changed = snap_diff(before, after)
                acc.fail(f"C14x:v{version}:search-file-altered-by-second-rebuild", case, f"changed {changed} added {added} removed {removed}",
                         "search directories untouched")


@harness("C14x")
def h_c14x(tier, seed, hints):
    acc = Acc("C14", "", "")
    for case in _c14x_cases(tier):
        _c14x_case(acc, case)
        acc.case(json.dumps(case, sort_keys=True), case)
    return acc.result()


def _c14x_cases(tier):
    out = []
    for version in (1, 2, 3):
        for size, extra in ((100000, 4096), (3 * 16384, 1), (2 * 16384 + 5, 16384)):
            out.append({"prop": "C14", "kind": "longer-prefix-decoy", "version": version, "size": size, "extra": extra})
            out.append({"prop": "C14", "kind": "two-releases", "version": version, "size": size, "extra": extra})
    return out


_h_c14_base = HARNESS.get("C14")
_r_c14_base = REPLAY.get("C14")


@harness("C14")
def h_c14_all(tier, seed, hints):
    res = _h_c14_base(tier, seed, hints) if _h_c14_base else Acc("C14", "", "").result()
    acc = Acc("C14", "", "")
    for case in _c14x_cases(tier):
        _c14x_case(acc, case)
        acc.case(json.dumps(case, sort_keys=True), case)
    extra = acc.result()
    res["cases"] += extra["cases"]
    res["distinct_nontrivial"] += extra["distinct_nontrivial"]
    res["failures"] += extra["failures"]
    res["rule"] = (res.get("rule") or "") + "; plus longer-than-recorded prefix decoys and two releases rebuilt into one destination"
    return res


@replayer("C14")
def r_c14_all(acc, case):
    if case.get("kind") in ("longer-prefix-decoy", "two-releases"):
        _c14x_case(acc, case)
    elif _r_c14_base:
        _r_c14_base(acc, case)


# =============================================================================================== C05 (additional scenario)
def _c05x_case(acc, case):
    """the payload root directory X itself contains an entry named X (file or sub-directory)"""
    from torrentfile.recheck import Checker
    with tempdir() as d:
        name = "album"
        inner = content(5, "inner", 16384 + 7) if case["inner"] == "file" else {"t.bin": content(5, "t", 16384 + 7), "e": b""}
        tree = {name: inner, "other.bin": content(5, "o", 3 * 16384)}
        mf, payload = make_metafile(d, name, tree, case["version"])
        cpath = payload if case["via"] == "root" else d
        try:
            with quiet():
                r = Checker(mf, cpath).results()
        except BaseException as e:      # noqa: BLE001
            acc.fail(f"C05x:payload-contains-entry-named-like-itself:{case['inner']}:raised", case, f"{type(e).__name__}: {e}", 100)
            return
        if r != 100:
            acc.fail(f"C05x:payload-contains-entry-named-like-itself:{case['inner']}:via-{case['via']}", case, f"recheck reports {r}", 100)


def _c05x_cases():
    return [{"prop": "C05", "kind": "self-named-entry", "version": v, "inner": i, "via": via}
            for v in (1, 2, 3) for i in ("file", "dir") for via in ("root", "parent")]


_h_c05_base = HARNESS.get("C05")
_r_c05_base = REPLAY.get("C05")


@harness("C05")
def h_c05_all(tier, seed, hints):
    res = _h_c05_base(tier, seed, hints) if _h_c05_base else Acc("C05", "", "").result()
    acc = Acc("C05", "", "")
    for case in _c05x_cases():
        _c05x_case(acc, case)
        acc.case(json.dumps(case, sort_keys=True), case)
    extra = acc.result()
    res["cases"] += extra["cases"]
    res["distinct_nontrivial"] += extra["distinct_nontrivial"]
    res["failures"] += extra["failures"]
    res["rule"] = (res.get("rule") or "") + "; plus payload roots that contain an entry carrying the payload's own name"
    return res


@replayer("C05")
def r_c05_all(acc, case):
    if case.get("kind") == "self-named-entry":
        _c05x_case(acc, case)
    elif _r_c05_base:
        _r_c05_base(acc, case)


# =============================================================================================== C19 (additional scenario)
def _c19x_case(acc, case):
    """bare-root elements: name (or an inner path element) is exactly '/', '//' ... and the remaining elements spell an absolute
    location outside the destination, component by component"""
    from torrentfile.rebuild import Assembler
    with tempdir() as d:
        sandbox = os.path.join(d, "sandbox")
        dest = os.path.join(sandbox, "deep", "dest")
        search = os.path.join(sandbox, "search")
        outside = os.path.join(sandbox, "outside", "victimdir")
        for x in (dest, search, os.path.dirname(outside)):
            os.makedirs(x)
        data = content(9, "payload", 16384 + 100)
        other = content(9, "other", 5000)
        with open(os.path.join(search, "payload.bin"), "wb") as fh:
            fh.write(data)
        with open(os.path.join(search, "other.bin"), "wb") as fh:
            fh.write(other)
        comps = [c for c in outside.split(os.sep) if c]
        root = case["root"]
        version = case["version"]
        if case["where"] == "name":
            name, prefix = root, comps
        else:
            name, prefix = "t", [root] + comps
        tree = {}
        node = tree
        for c in prefix:
            node = node.setdefault(c, {})
        node["payload.bin"] = data
        tree["other.bin"] = other
        meta = ref.ref_metafile(name, tree, 16384, version)
        mf = os.path.join(sandbox, "hostile.torrent")
        with open(mf, "wb") as fh:
            fh.write(ref.bencode(meta))
        before = snapshot(sandbox)
        note = "returned"
        try:
            with quiet():
                Assembler([mf], [search], dest).assemble_torrents()
        except BaseException as e:      # noqa: BLE001
            note = f"raised {type(e).__name__}"
        after = snapshot(sandbox)
        destrel = os.path.relpath(dest, sandbox)
        added, removed, changed = snap_diff(before, after)
        bad = [x for x in added + removed + changed if destrel not in x]
        if bad:
            acc.fail(f"C19x:v{version}:{case['where']}:bare-root", case, f"outside the destination: {bad[:6]} ({note})",
                     "nothing outside the destination is created, overwritten or deleted")


def _c19x_cases():
    return [{"prop": "C19", "kind": "bare-root", "version": v, "where": w, "root": r}
            for v in (1, 2, 3) for w in ("name", "element") for r in ("/", "//", "///")]


_h_c19_base = HARNESS.get("C19")
_r_c19_base = REPLAY.get("C19")


@harness("C19")
def h_c19_all(tier, seed, hints):
    res = _h_c19_base(tier, seed, hints) if _h_c19_base else Acc("C19", "", "").result()
    acc = Acc("C19", "", "")
    for case in _c19x_cases():
        _c19x_case(acc, case)
        acc.case(json.dumps(case, sort_keys=True), case)
    extra = acc.result()
    res["cases"] += extra["cases"]
    res["distinct_nontrivial"] += extra["distinct_nontrivial"]
    res["failures"] += extra["failures"]
    res["rule"] = (res.get("rule") or "") + "; plus bare-root elements ('/', '//') followed by the components of an absolute outside location"
    return res


@replayer("C19")
def r_c19_all(acc, case):
    if case.get("kind") == "bare-root":
        _c19x_case(acc, case)
    elif _r_c19_base:
        _r_c19_base(acc, case)


# =============================================================================================== C16 (additional scenario)
def _c16x_case(acc, case):
    """absent data is read as zeros: an all-zero file that is missing verifies, whatever the process rechecked before
    (a recheck at another piece length that also had to substitute zeros comes first)"""
    from torrentfile.recheck import Checker
    with tempdir() as d:
        pl1, pl2 = case["first_pl"], case["pl"]
        tree1 = {"a.bin": content(3, "a", 2 * pl1 + 5), "b.bin": content(3, "b", 3 * pl1 + 1)}
        mf1, p1 = make_metafile(d, "alpha", tree1, case["version"], pl=pl1)
        os.remove(os.path.join(p1, "b.bin"))
        zeros = bytes(case["zeros"])
        tree2 = {"data.bin": content(3, "d", pl2 + 9), "zeros.bin": zeros}
        mf2, p2 = make_metafile(d, "beta", tree2, case["version"], pl=pl2)
        os.remove(os.path.join(p2, "zeros.bin"))
        try:
            with quiet():
                Checker(mf1, p1).results()
                r = Checker(mf2, p2).results()
        except BaseException as e:      # noqa: BLE001
            acc.fail(f"C16x:absent-zero-file:raised:v{case['version']}", case, f"{type(e).__name__}: {e}", 100)
            return
        if r != 100:
            acc.fail(f"C16x:absent-zero-file-after-recheck-at-other-piece-length:v{case['version']}", case, f"recheck reports {r}",
                     "100 (every piece of the absent all-zero file hashes to its recorded value)")


def _c16x_cases():
    return [{"prop": "C16", "kind": "absent-zero-file", "version": v, "first_pl": f, "pl": 16384, "zeros": z}
            for v in (2, 3) for f in (32768, 65536) for z in (40000, 16384)]


_h_c16_base = HARNESS.get("C16")
_r_c16_base = REPLAY.get("C16")


@harness("C16")
def h_c16_all(tier, seed, hints):
    # the history scenario runs FIRST: it must be the first recheck of this process that substitutes zeros for absent data
    acc = Acc("C16", "", "")
    for case in _c16x_cases():
        _c16x_case(acc, case)
        acc.case(json.dumps(case, sort_keys=True), case)
    extra = acc.result()
    res = _h_c16_base(tier, seed, hints) if _h_c16_base else Acc("C16", "", "").result()
    res["cases"] += extra["cases"]
    res["distinct_nontrivial"] += extra["distinct_nontrivial"]
    res["failures"] += extra["failures"]
    res["rule"] = (res.get("rule") or "") + ("; plus an absent all-zero file at 16 KiB pieces after a recheck at another piece length that also "
                                             "substituted zeros (v2 / hybrid)")
    return res


@replayer("C16")
def r_c16_all(acc, case):
    if case.get("kind") == "absent-zero-file":
        _c16x_case(acc, case)
    elif _r_c16_base:
        _r_c16_base(acc, case)
