"""Bounded native harnesses, one per property (level B: labelled bounded, never counted as proved).

Each harness drives the REAL code of /repo over an exhaustively enumerated small scope and judges the outcome
with an oracle taken from the property statement (reference implementations live in native/ref.py).
A failure record carries
    class   -- a stable key describing *which* input class / call site fails (matched against known_findings.json)
    case    -- a JSON description from which replay() can re-run exactly this case
"""
import contextlib
import hashlib
import io
import itertools
import json
import os
import random
import shutil
import sys
import tempfile

from native import ref

HARNESS = {}
REPLAY = {}


def harness(prop):
    def deco(fn):
        HARNESS[prop] = fn
        return fn
    return deco


def replayer(prop):
    def deco(fn):
        REPLAY[prop] = fn
        return fn
    return deco


class Acc:
    """accumulates cases / failures for one run"""

    def __init__(self, prop, rule, bound):
        self.prop, self.rule, self.bound = prop, rule, bound
        self.cases = 0
        self.keys = set()
        self.failures = []
        self.samples = []

    def case(self, key, sample=None):
        self.cases += 1
        if key is not None:
            self.keys.add(key)
        if sample is not None and len(self.samples) < 6:
            self.samples.append(sample)

    def fail(self, cls, case, observed, expected=None):
        self.failures.append({"property": self.prop, "class": cls, "case": case, "observed": str(observed)[:600],
                              "expected": (str(expected)[:600] if expected is not None else None)})

    def result(self):
        return {"cases": self.cases, "distinct_nontrivial": len(self.keys), "rule": self.rule, "bound": self.bound,
                "failures": self.failures, "samples": self.samples}


def run(prop, tier, seed, hints):
    if prop not in HARNESS:
        return {"cases": 0, "distinct_nontrivial": 0, "rule": "no bounded harness for this property", "bound": "",
                "failures": [], "samples": []}
    random.seed(seed)
    return HARNESS[prop](tier, seed, hints or {})


def replay(rec):
    prop = rec["property"]
    acc = Acc(prop, "replay", "one case")
    REPLAY[prop](acc, rec["case"])
    return {"reproduced": bool(acc.failures), "failures": acc.failures}


@contextlib.contextmanager
def quiet():
    with contextlib.redirect_stdout(io.StringIO()), contextlib.redirect_stderr(io.StringIO()):
        yield


@contextlib.contextmanager
def tempdir():
    d = tempfile.mkdtemp(prefix="verif_")
    cwd = os.getcwd()
    try:
        yield d
    finally:
        os.chdir(cwd)
        shutil.rmtree(d, ignore_errors=True)


def content(seed, tag, n):
    """n deterministic pseudo-random non-zero bytes"""
    out = bytearray()
    ctr = 0
    while len(out) < n:
        out.extend(hashlib.sha256(f"{seed}/{tag}/{ctr}".encode()).digest())
        ctr += 1
    return bytes(b or 1 for b in out[:n])


# =============================================================================================== C12
def _c12_judge_value(x):
    """(must_accept, may_accept, expected_value) for an int argument"""
    valid = (14 <= x <= 25) or (x >= 16384 and x & (x - 1) == 0)
    free = 26 <= x <= 29
    val = 2 ** x if x <= 29 else x
    return valid, valid or free, val


def _c12_case(acc, case):
    from torrentfile import utils
    route, arg = case["route"], case["arg"]
    PLVE = utils.PieceLengthValueError
    if route == "auto":
        sizes = arg
        prev = None
        for s in sizes:
            r = utils.get_piece_length(s)
            if not (r >= 16384 and r <= 2 ** 24 and r & (r - 1) == 0):
                acc.fail("C12:auto:range", {"route": "auto", "arg": [s]}, f"get_piece_length({s}) = {r}", "power of two in [2^14, 2^24]")
            if prev is not None and r < prev[1]:
                acc.fail("C12:auto:monotone", {"route": "auto", "arg": [prev[0], s]},
                         f"get_piece_length({prev[0]}) = {prev[1]} > get_piece_length({s}) = {r}", "non-decreasing")
            prev = (s, r)
        return
    # explicit argument through one of the routes
    intval = None
    if isinstance(arg, int):
        intval = arg
    elif isinstance(arg, str) and arg and all(c in "0123456789" for c in arg):
        intval = int(arg)
    outcome = None
    with tempdir() as d:
        p = os.path.join(d, "payload.bin")
        with open(p, "wb") as fh:
            fh.write(content(0, "c12", 70000))
        try:
            with quiet():
                if route == "normalize":
                    outcome = ("value", utils.normalize_piece_length(arg))
                elif route == "library":
                    from torrentfile.torrent import TorrentFile
                    t = TorrentFile(path=p, piece_length=arg, progress=0)
                    outcome = ("value", t.meta["info"]["piece length"])
                elif route == "cli":
                    from torrentfile.cli import execute
                    out = os.path.join(d, "o.torrent")
                    execute(["create", p, "--piece-length", str(arg), "-o", out, "--prog", "0"])
                    import pyben
                    outcome = ("value", pyben.load(out)["info"]["piece length"])
                elif route == "config":
                    from torrentfile.cli import execute
                    out = os.path.join(d, "o.torrent")
                    ini = os.path.join(d, "torrentfile.ini")
                    with open(ini, "w", encoding="utf-8") as fh:
                        fh.write(f"[config]\npiece-length = {arg}\n")
                    execute(["create", p, "--config", "--config-path", ini, "-o", out, "--prog", "0"])
                    import pyben
                    outcome = ("value", pyben.load(out)["info"]["piece length"])
        except PLVE:
            outcome = ("rejected", None)
        except SystemExit as e:
            outcome = ("error", f"SystemExit({e.code})")
        except BaseException as e:       # noqa: BLE001
            outcome = ("error", f"{type(e).__name__}: {e}")
    cdesc = {"route": route, "arg": arg}
    if arg == "" and route != "normalize":
        # the empty string means "none given" (documented by the interactive front end: "empty=auto")
        if outcome[0] != "value" or not (outcome[1] >= 16384 and outcome[1] & (outcome[1] - 1) == 0):
            acc.fail(f"C12:{route}:empty-not-auto", cdesc, outcome, "automatic choice")
        return
    if intval is not None:
        must, may, val = _c12_judge_value(intval)
        if outcome[0] == "value":
            if not may:
                acc.fail(f"C12:{route}:accepts-invalid", cdesc, f"accepted, recorded {outcome[1]}", "PieceLengthValueError")
            elif outcome[1] != val:
                acc.fail(f"C12:{route}:wrong-value", cdesc, f"recorded {outcome[1]}", val)
        elif outcome[0] == "rejected":
            if must:
                acc.fail(f"C12:{route}:rejects-valid", cdesc, "PieceLengthValueError", f"accepted as {val}")
        else:
            acc.fail(f"C12:{route}:other-error", cdesc, outcome[1], "value or PieceLengthValueError")
    else:
        # not an ASCII decimal numeral: must be rejected with the piece-length error, or (if int() parses it)
        # treated as that integer
        if outcome[0] == "error":
            acc.fail(f"C12:{route}:other-error", cdesc, outcome[1], "PieceLengthValueError")
        elif outcome[0] == "value":
            try:
                iv = int(arg)
            except (ValueError, TypeError):
                iv = None
            if iv is None:
                acc.fail(f"C12:{route}:accepts-invalid", cdesc, f"accepted non-numeral, recorded {outcome[1]}", "PieceLengthValueError")
            else:
                must, may, val = _c12_judge_value(iv)
                if not may or outcome[1] != val:
                    acc.fail(f"C12:{route}:accepts-invalid", cdesc, f"accepted, recorded {outcome[1]}", "PieceLengthValueError or " + str(val))


@harness("C12")
def h_c12(tier, seed, hints):
    acc = Acc("C12", "explicit piece-length arguments (ints, numeral and non-numeral strings) through normalize / library / "
              "CLI / config routes, and sorted payload sizes for the automatic choice; distinct = (route, argument class)",
              "ints -5..45, 2^k+{-1,0,1} for k<=45 (quick) / k<=70 (thorough), listed odd values; sizes 0..2^50 at thresholds +-1")
    kmax = 45 if tier == "quick" else 70
    ints = set(range(-5, 46))
    for k in range(0, kmax + 1):
        ints.update([2 ** k - 1, 2 ** k, 2 ** k + 1])
    ints.update([16385, 16395, 41931, 100000, 3 * 2 ** 14, 2 ** 64 + 1, 2 ** 64 + 2 ** 20, 10 ** 12])
    ints.update(int(x) for x in hints.get("ints", []))
    strs = ["", " ", "hello", "1e5", "0x10", "-5", "+16", " 16", "16 ", "1_6", "½", "²", "١٦٣٨٤", "१४", "16.0", "１６", "0", "00016",
            "16384", "14", "25", "26", "29", "30", "13", "65536", "100000", "16385"]
    strs += [str(x) for x in hints.get("strs", [])]
    for x in sorted(ints):
        _c12_case(acc, {"route": "normalize", "arg": x})
        acc.case(("normalize", "int", min(max(x, -1), 31) if x < 31 else ("pow2" if x & (x - 1) == 0 else "other")))
    for s in strs + [str(x) for x in sorted(ints) if -1 <= x <= 40]:
        _c12_case(acc, {"route": "normalize", "arg": s})
        acc.case(("normalize", "str", s if len(s) < 4 else "long"), {"route": "normalize", "arg": s})
    sample_ints = [0, 1, 13, 14, 20, 25, 26, 29, 30, 32, 8192, 16383, 16384, 16385, 32768, 41931, 2 ** 30, 2 ** 30 + 1]
    routes = ["library", "cli", "config"]
    for r in routes:
        for x in sample_ints:
            arg = x if r == "library" else str(x)
            _c12_case(acc, {"route": r, "arg": arg})
            acc.case((r, x), {"route": r, "arg": arg})
        for s in ["hello", "½", "-5", ""]:
            if r == "config" and s in ("", "½"):
                continue
            if r == "cli" and s in ("-5", ""):
                continue
            _c12_case(acc, {"route": r, "arg": s})
            acc.case((r, s))
    sizes = {0, 1, 2 ** 50, 2 ** 50 + 1}
    for e in range(13, 26):
        for d in (-1, 0, 1):
            sizes.add(1000 * 2 ** e + d)
            sizes.add(1024 * 2 ** e + d)
    rnd = random.Random(seed)
    for _ in range(200 if tier == "quick" else 3000):
        sizes.add(rnd.randrange(0, 2 ** rnd.randrange(1, 51)))
    _c12_case(acc, {"route": "auto", "arg": sorted(sizes)})
    acc.case(("auto", len(sizes)), {"route": "auto", "arg": sorted(sizes)[:8]})
    return acc.result()


@replayer("C12")
def r_c12(acc, case):
    _c12_case(acc, case)
