"""
Independent reference implementation ("oracle") of the BitTorrent metafile
formats: bencode, BEP 3 (v1 pieces), BEP 47 (padding files), BEP 52 (v2
merkle trees, piece layers, file tree, hybrid torrents).

Written from the specifications.  Standard library only.  Runs unchanged on
Python 3.11 and 3.12.  Everything is a pure function of its arguments except
``write_tree`` / ``read_tree`` / ``ref_recheck*`` which touch the filesystem.

Conventions
-----------
* "tree": either ``bytes`` (payload of a single file whose name is supplied
  separately) or a nested ``dict`` mapping ``str`` names to ``bytes`` (file)
  or ``dict`` (directory).
* Info / metafile dictionaries produced here use ``str`` keys; hashes
  ("pieces", "pieces root", keys and values of "piece layers") are ``bytes``.
"""

import hashlib
import os

__all__ = [
    "NonCanonical", "MalformedBencode", "bdecode", "bencode", "info_span",
    "to_text", "BLOCK", "ZERO_HASH", "v1_pieces", "leaf_hashes",
    "merkle_root", "pieces_root", "piece_layer", "layer_root", "tree_files",
    "ref_info", "ref_piece_layers", "ref_metafile", "write_tree",
    "read_tree", "ref_recheck", "ref_recheck_pieces",
]

# --------------------------------------------------------------------------
# 1. Bencode
# --------------------------------------------------------------------------


class NonCanonical(ValueError):
    """Input is not the canonical bencoding of a value (strict mode)."""


class MalformedBencode(ValueError):
    """Input is not bencode at all (either mode)."""


_NOKEY = object()
_E, _L, _D, _I, _COLON, _ZERO, _NINE = 0x65, 0x6C, 0x64, 0x69, 0x3A, 0x30, 0x39


def _fail(strict, canonical_kind, what, offset):
    """Raise the right exception class.

    ``canonical_kind`` marks the defects the task statement lists as
    canonicity violations.  In strict mode those raise NonCanonical; in
    non-strict mode the only thing ever tolerated is dict key order, so
    everything else that reaches here is MalformedBencode.
    """
    msg = "%s at offset %d" % (what, offset)
    if strict and canonical_kind:
        raise NonCanonical(msg)
    raise MalformedBencode(msg)


def _parse_int(data, pos, strict):
    # data[pos] == 'i'
    end = data.find(b"e", pos + 1)
    if end < 0:
        _fail(strict, True, "truncated input: unterminated integer", pos)
    body = data[pos + 1:end]
    digits = body[1:] if body[:1] == b"-" else body
    if not digits:
        _fail(strict, True, "empty integer %r" % (b"i" + body + b"e"), pos)
    if not digits.isdigit():  # bytes.isdigit(): ASCII 0-9 only
        _fail(strict, False, "invalid character in integer %r" % body, pos)
    if digits[0] == _ZERO and len(digits) > 1:
        _fail(strict, True, "integer with leading zero %r" % body, pos)
    if body == b"-0":
        _fail(strict, True, "negative zero integer", pos)
    try:
        return int(body), end + 1
    except ValueError:  # 3.11+ int/str digit limit
        _fail(strict, False, "integer too large for this implementation", pos)


def _parse_str(data, pos, strict):
    n = len(data)
    j = pos
    while j < n and _ZERO <= data[j] <= _NINE:
        j += 1
    if j >= n:
        _fail(strict, True, "truncated input: string length without ':'", pos)
    if data[j] != _COLON:
        _fail(strict, False, "expected ':' after string length", j)
    field = data[pos:j]
    if len(field) > 1 and field[0] == _ZERO:
        _fail(strict, True, "string length with leading zero %r" % field, pos)
    if len(field) > 18:
        _fail(strict, True, "truncated input: string longer than input", pos)
    start = j + 1
    end = start + int(field)
    if end > n:
        _fail(strict, True, "truncated input: string runs past end", pos)
    return data[start:end], end


def _parse(data, pos, strict):
    """Parse exactly one value starting at ``pos``.  Iterative (no recursion
    limit).  Returns (value, end_offset)."""
    n = len(data)
    # frame: [container, is_dict, pending_key, previous_key, open_offset]
    stack = []
    while True:
        if pos >= n:
            _fail(strict, True, "truncated input", pos)
        c = data[pos]
        vstart = pos
        if c == _E:
            if not stack:
                _fail(strict, False, "unexpected 'e'", pos)
            frame = stack.pop()
            if frame[1] and frame[2] is not _NOKEY:
                _fail(strict, False, "dict key %r without value" % frame[2],
                      pos)
            value = frame[0]
            vstart = frame[4]
            pos += 1
        elif c == _L:
            stack.append([[], False, _NOKEY, None, pos])
            pos += 1
            continue
        elif c == _D:
            stack.append([{}, True, _NOKEY, None, pos])
            pos += 1
            continue
        elif c == _I:
            value, pos = _parse_int(data, pos, strict)
        elif _ZERO <= c <= _NINE:
            value, pos = _parse_str(data, pos, strict)
        else:
            _fail(strict, False, "invalid type byte %r" % data[pos:pos + 1],
                  pos)
        if not stack:
            return value, pos
        top = stack[-1]
        if not top[1]:
            top[0].append(value)
        elif top[2] is _NOKEY:
            if not isinstance(value, bytes):
                _fail(strict, True, "dict key is not a byte string", vstart)
            prev = top[3]
            if strict and prev is not None and not prev < value:
                what = "duplicate dict key" if prev == value else \
                    "dict keys not in ascending order"
                raise NonCanonical("%s: %r after %r at offset %d" %
                                   (what, value, prev, vstart))
            top[2] = value
        else:
            top[0][top[2]] = value  # duplicates (non-strict): last wins
            top[3] = top[2]
            top[2] = _NOKEY


def _as_input_bytes(data):
    if isinstance(data, bytes):
        return data
    if isinstance(data, (bytearray, memoryview)):
        return bytes(data)
    raise TypeError("bencoded input must be bytes, got %s" %
                    type(data).__name__)


def bdecode(data, strict=True):
    """Decode one bencoded value occupying the whole of ``data``.

    ints -> int, byte strings -> bytes, lists -> list, dicts -> dict with
    bytes keys in file order.

    strict=True raises NonCanonical (message names the defect and the byte
    offset) for: dict keys not strictly ascending by raw bytes (this covers
    duplicates), integers with leading zeros / "-0" / no digits, string
    lengths with leading zeros, non-bytestring dict keys, truncated input,
    trailing bytes.  Other garbage (unknown type byte, stray 'e', junk inside
    an integer, key without value) raises MalformedBencode.  Both are
    ValueError subclasses.

    strict=False tolerates only unsorted / duplicate dict keys (last value
    wins, position of first occurrence); every other defect above raises
    MalformedBencode.
    """
    data = _as_input_bytes(data)
    value, end = _parse(data, 0, strict)
    if end != len(data):
        _fail(strict, True, "trailing bytes after top-level value", end)
    return value


def _key_bytes(key):
    if isinstance(key, str):
        return key.encode("utf-8")
    if isinstance(key, (bytes, bytearray)):
        return bytes(key)
    raise TypeError("dict key must be str or bytes, got %s" %
                    type(key).__name__)


def _enc(value, sort_keys, out):
    if isinstance(value, bool):
        raise TypeError("bool cannot be bencoded")
    if isinstance(value, int):
        out.append(b"i%de" % value)
    elif isinstance(value, (bytes, bytearray)):
        out.append(b"%d:" % len(value))
        out.append(bytes(value))
    elif isinstance(value, str):
        raw = value.encode("utf-8")
        out.append(b"%d:" % len(raw))
        out.append(raw)
    elif isinstance(value, (list, tuple)):
        out.append(b"l")
        for item in value:
            _enc(item, sort_keys, out)
        out.append(b"e")
    elif isinstance(value, dict):
        items = [(_key_bytes(k), v) for k, v in value.items()]
        if len({k for k, _ in items}) != len(items):
            raise ValueError("dict has keys that collide once encoded")
        if sort_keys:
            items.sort(key=lambda kv: kv[0])
        out.append(b"d")
        for k, v in items:
            out.append(b"%d:" % len(k))
            out.append(k)
            _enc(v, sort_keys, out)
        out.append(b"e")
    else:
        raise TypeError("cannot bencode %s" % type(value).__name__)


def bencode(value, sort_keys=True):
    """Encode.  int (bool -> TypeError), bytes/bytearray, str (UTF-8),
    list/tuple, dict with str or bytes keys.  sort_keys=True sorts keys by
    their raw bytes at every level (canonical form); sort_keys=False keeps
    insertion order everywhere (for building non-canonical inputs)."""
    out = []
    _enc(value, sort_keys, out)
    return b"".join(out)


def info_span(data):
    """Exact byte slice holding the value of top-level key b"info".

    Non-strict parse, nothing is re-encoded, so sha1/sha256 of the result is
    the infohash a client would compute.  If "info" occurs more than once the
    last occurrence is returned (same rule as bdecode(strict=False)).
    Raises MalformedBencode for syntax errors / non-dict top level,
    KeyError when there is no "info" key.
    """
    data = _as_input_bytes(data)
    if data[:1] != b"d":
        raise MalformedBencode("top-level value is not a dict at offset 0")
    n = len(data)
    pos = 1
    span = None
    while True:
        if pos >= n:
            raise MalformedBencode("truncated input at offset %d" % pos)
        if data[pos] == _E:
            pos += 1
            break
        kstart = pos
        key, pos = _parse(data, pos, False)
        if not isinstance(key, bytes):
            raise MalformedBencode(
                "dict key is not a byte string at offset %d" % kstart)
        if pos < n and data[pos] == _E:
            raise MalformedBencode(
                "dict key %r without value at offset %d" % (key, pos))
        vstart = pos
        _, pos = _parse(data, pos, False)
        if key == b"info":
            span = (vstart, pos)
    if pos != n:
        raise MalformedBencode(
            "trailing bytes after top-level value at offset %d" % pos)
    if span is None:
        raise KeyError("info")
    return data[span[0]:span[1]]


_BINARY_VALUE_KEYS = ("pieces", "pieces root")


def _text_or_bytes(raw):
    try:
        return bytes(raw).decode("utf-8")
    except UnicodeDecodeError:
        return bytes(raw)


def to_text(value, _under=None):
    """Present a bdecode() result the way pyben.load presents a metafile.

    * dict keys: bytes -> str when valid UTF-8 (otherwise left as bytes, as
      pyben does); str keys pass through, so the function is idempotent.
    * byte-string values: -> str when valid UTF-8, otherwise bytes.
    * exceptions that always stay bytes: a byte-string value directly under a
      key named "pieces" or "pieces root"; keys and values of a dict stored
      under a key named "piece layers" *provided all its values are byte
      strings* (so a directory that merely happens to be called
      "piece layers" inside a v2 file tree is not mistaken for one).

    Differences from pyben (pyben 0.3.x decodes *every* byte string that is
    valid UTF-8, it has no notion of which fields are binary):
      - pyben turns "pieces" / "pieces root" / piece-layer keys or values
        into str whenever the hash bytes happen to be valid UTF-8.  For real
        digests that is astronomically unlikely, with one systematic case:
        an empty "pieces" string (v1 torrent whose files are all empty)
        loads as '' from pyben and as b'' from to_text.  Consumers in this
        module (ref_recheck*) accept either form.
      - pyben accepts leading zeros, "-0", unsorted and duplicate keys and
        silently ignores trailing bytes; that is a property of the decoder,
        not of the presentation, and is handled by bdecode's strict flag.
    """
    if isinstance(value, (bytes, bytearray)):
        if _under in _BINARY_VALUE_KEYS:
            return bytes(value)
        return _text_or_bytes(value)
    if isinstance(value, (list, tuple)):
        return [to_text(item) for item in value]
    if isinstance(value, dict):
        out = {}
        for key, val in value.items():
            tkey = _text_or_bytes(key) if isinstance(
                key, (bytes, bytearray)) else key
            if (tkey == "piece layers" and isinstance(val, dict) and all(
                    isinstance(x, (bytes, bytearray)) for x in val.values())):
                out[tkey] = {
                    (bytes(k) if isinstance(k, bytearray) else k): bytes(v)
                    for k, v in val.items()
                }
            else:
                out[tkey] = to_text(val, tkey)
        return out
    return value


# --------------------------------------------------------------------------
# 2. BEP 3
# --------------------------------------------------------------------------


def v1_pieces(chunks, piece_length):
    """SHA-1 of each successive piece_length slice of concat(chunks),
    concatenated.  Only the last piece may be short.  Empty stream -> b""."""
    if isinstance(piece_length, bool) or not isinstance(piece_length, int) \
            or piece_length <= 0:
        raise ValueError("piece_length must be a positive int")
    if isinstance(chunks, (bytes, bytearray)):
        chunks = [chunks]
    stream = b"".join(bytes(c) for c in chunks)
    out = []
    for off in range(0, len(stream), piece_length):
        out.append(hashlib.sha1(stream[off:off + piece_length]).digest())
    return b"".join(out)


# --------------------------------------------------------------------------
# 3. BEP 52
# --------------------------------------------------------------------------

BLOCK = 16384
ZERO_HASH = bytes(32)


def _is_pow2(n):
    return n >= 1 and n & (n - 1) == 0


def _next_pow2(n):
    """Smallest power of two >= n (n >= 1)."""
    p = 1
    while p < n:
        p <<= 1
    return p


def _check_v2_piece_length(piece_length):
    if isinstance(piece_length, bool) or not isinstance(piece_length, int) \
            or piece_length < BLOCK or not _is_pow2(piece_length):
        raise ValueError(
            "BEP 52 piece length must be a power of two >= 16 KiB, got %r" %
            (piece_length, ))
    return piece_length // BLOCK


def leaf_hashes(data):
    """SHA-256 of each 16 KiB block; the last block may be short (it is
    hashed as is, NOT zero extended).  [] for empty data."""
    data = bytes(data)
    return [
        hashlib.sha256(data[off:off + BLOCK]).digest()
        for off in range(0, len(data), BLOCK)
    ]


def merkle_root(hashes):
    """Root of the balanced binary SHA-256 tree over ``hashes``.

    Definition by halves: root([h]) = h;
    root(hs) = SHA256(root(left half) + root(right half)).
    len(hashes) must be a power of two."""
    n = len(hashes)
    if not _is_pow2(n):
        raise ValueError("merkle_root needs a power-of-two count, got %d" % n)
    if n == 1:
        return bytes(hashes[0])
    half = n // 2
    return hashlib.sha256(
        merkle_root(hashes[:half]) + merkle_root(hashes[half:])).digest()


def pieces_root(data, piece_length):
    """BEP 52 "pieces root" of a file; None for an empty file.

    BEP 52: leaves are the SHA-256 of the file's 16 KiB blocks; "the
    remaining leaf hashes beyond the end of the file required to construct
    upper layers of the merkle tree are set to zero".  So: pad the leaf list
    with 32-zero-byte hashes to the next power of two and take the root.

    That single rule covers both cases in the task statement.  For a file
    larger than piece_length the leaf count n satisfies n > bpp
    (bpp = piece_length // BLOCK, a power of two), hence next_pow2(n) is a
    multiple of bpp and equals next_pow2(ceil(n / bpp)) * bpp: the piece
    layer comes out complete and the extra piece-layer nodes are roots of
    all-zero-leaf subtrees of piece size.  (test_ref.py checks this
    equivalence against layer_root(piece_layer(...)).)  For a file of at
    most piece_length the tree is only as tall as the file needs.
    """
    _check_v2_piece_length(piece_length)
    leaves = leaf_hashes(data)
    if not leaves:
        return None
    leaves += [ZERO_HASH] * (_next_pow2(len(leaves)) - len(leaves))
    return merkle_root(leaves)


def piece_layer(data, piece_length):
    """Concatenated hashes of the tree layer in which one hash covers
    piece_length bytes: one hash per piece that contains file data
    (ceil(len / piece_length) of them; padding-only nodes are omitted, as
    BEP 52 requires for "piece layers").  Each hash is the merkle root of
    that piece's leaf hashes zero-hash padded to piece_length // BLOCK.

    Defined for any size; note that for a file *smaller* than piece_length
    the single hash returned here is generally NOT the file's pieces root
    (the file's own tree is shorter).  b"" for empty data."""
    bpp = _check_v2_piece_length(piece_length)
    leaves = leaf_hashes(data)
    out = []
    for off in range(0, len(leaves), bpp):
        group = leaves[off:off + bpp]
        group += [ZERO_HASH] * (bpp - len(group))
        out.append(merkle_root(group))
    return b"".join(out)


def layer_root(layer, piece_length):
    """Root obtained from a piece layer (bytes, multiple of 32, non-empty):
    pad the layer to a power-of-two count with the root of an all-zero-leaf
    subtree of piece size, then take the merkle root.  For every file longer
    than piece_length (more generally: whose leaf count is at least
    piece_length // BLOCK) layer_root(piece_layer(data)) == pieces_root(data);
    this is the check a client performs to authenticate a piece layer."""
    bpp = _check_v2_piece_length(piece_length)
    layer = bytes(layer)
    if not layer or len(layer) % 32:
        raise ValueError("piece layer must be a non-empty multiple of 32")
    nodes = [layer[i:i + 32] for i in range(0, len(layer), 32)]
    pad = merkle_root([ZERO_HASH] * bpp)
    nodes += [pad] * (_next_pow2(len(nodes)) - len(nodes))
    return merkle_root(nodes)


# --------------------------------------------------------------------------
# 4. Reference creators
# --------------------------------------------------------------------------


def _is_payload(node):
    return isinstance(node, (bytes, bytearray))


def _check_name(name):
    if not isinstance(name, str) or name == "":
        raise ValueError("file / directory names must be non-empty str, "
                         "got %r" % (name, ))


def tree_files(tree):
    """All files of a tree as [(path_components, data)].

    Order: at every directory level names in Python str order, depth first.
    (str order is code point order, which for well formed text is the same as
    raw byte order of the UTF-8 encodings, i.e. exactly the order bencode
    imposes on the keys of a BEP 52 "file tree".  Hence v1 "files" order of a
    hybrid == v2 file tree order, as BEP 52 demands.)
    A bare payload gives [([], data)].  Empty directories contribute nothing.
    """
    if _is_payload(tree):
        return [([], bytes(tree))]
    if not isinstance(tree, dict):
        raise TypeError("tree must be bytes or dict, got %s" %
                        type(tree).__name__)
    out = []
    for name in sorted(tree):
        _check_name(name)
        for comps, data in tree_files(tree[name]):
            out.append(([name] + comps, data))
    return out


def _v2_leaf(data, piece_length):
    if len(data) == 0:
        return {"": {"length": 0}}
    return {
        "": {
            "length": len(data),
            "pieces root": pieces_root(data, piece_length)
        }
    }


def _v2_file_tree(tree, piece_length):
    out = {}
    for name in sorted(tree):
        _check_name(name)
        node = tree[name]
        if _is_payload(node):
            out[name] = _v2_leaf(bytes(node), piece_length)
        elif isinstance(node, dict):
            sub = _v2_file_tree(node, piece_length)
            if sub:  # directories without any file are not representable
                out[name] = sub
        else:
            raise TypeError("tree node must be bytes or dict")
    return out


def _pad_entry(gap):
    return {"attr": "p", "length": gap, "path": [".pad", str(gap)]}


def _v1_files_and_pieces(tree, piece_length, padded, pad_last):
    files = tree_files(tree)
    entries, chunks = [], []
    for idx, (comps, data) in enumerate(files):
        entries.append({"length": len(data), "path": list(comps)})
        chunks.append(data)
        if padded:
            gap = -len(data) % piece_length
            if gap and (pad_last or idx != len(files) - 1):
                entries.append(_pad_entry(gap))
                chunks.append(bytes(gap))
    return entries, v1_pieces(chunks, piece_length)


def ref_info(name,
             tree,
             piece_length,
             version,
             private=False,
             source=None,
             comment=None,
             align=False,
             pad_last=False):
    """Info dictionary a spec-conformant creator produces (str keys, emitted
    in sorted order; bytes for "pieces" / "pieces root").

    version 1  BEP 3.  Single file (tree is bytes): "length".  Directory:
               "files" = [{"length","path"}...] in tree_files order.
               align=True (BEP 47): in a directory torrent every file whose
               length is not a multiple of piece_length is followed by
               {"attr":"p","length":gap,"path":[".pad",str(gap)]}, the last
               file only when pad_last=True; "pieces" hashes the stream with
               padding as zero bytes (final piece short if the stream is).
               align has no effect on a single file.
    version 2  BEP 52.  "meta version": 2, "file tree".  No "length",
               "files" or "pieces".  align / pad_last ignored.
    version 3  hybrid: version 2 keys plus the version 1 view, which is
               always padded as for align=True (pad_last as above); single
               file: "length", no padding, pieces of the file alone.
    Always "name" and "piece length"; "private": 1, "source", "comment" only
    when given (private truthy; source / comment not None).
    """
    _check_name(name)
    if version not in (1, 2, 3):
        raise ValueError("version must be 1, 2 or 3")
    single = _is_payload(tree)
    if not single and not isinstance(tree, dict):
        raise TypeError("tree must be bytes or dict")
    if isinstance(piece_length, bool) or not isinstance(piece_length, int) \
            or piece_length <= 0:
        raise ValueError("piece_length must be a positive int")
    if version in (2, 3):
        _check_v2_piece_length(piece_length)
    info = {"name": name, "piece length": piece_length}
    if private:
        info["private"] = 1
    if source is not None:
        info["source"] = source
    if comment is not None:
        info["comment"] = comment
    if version in (1, 3):
        if single:
            info["length"] = len(tree)
            info["pieces"] = v1_pieces([bytes(tree)], piece_length)
        else:
            padded = True if version == 3 else bool(align)
            info["files"], info["pieces"] = _v1_files_and_pieces(
                tree, piece_length, padded, pad_last)
    if version in (2, 3):
        info["meta version"] = 2
        if single:
            info["file tree"] = {name: _v2_leaf(bytes(tree), piece_length)}
        else:
            info["file tree"] = _v2_file_tree(tree, piece_length)
    return dict(sorted(info.items()))


def ref_piece_layers(tree, piece_length):
    """{pieces root: piece layer} for every file strictly larger than
    piece_length.  Keys in ascending raw byte order (the canonical bencode
    order), identical files collapse into one entry."""
    _check_v2_piece_length(piece_length)
    layers = {}
    for _, data in tree_files(tree):
        if len(data) > piece_length:
            layers[pieces_root(data, piece_length)] = piece_layer(
                data, piece_length)
    return dict(sorted(layers.items()))


def ref_metafile(name, tree, piece_length, version, **info_opts):
    """{"info": ref_info(...)} plus, for version 2 and 3, "piece layers"
    (present even when empty: BEP 52 lists the key unconditionally)."""
    meta = {"info": ref_info(name, tree, piece_length, version, **info_opts)}
    if version in (2, 3):
        meta["piece layers"] = ref_piece_layers(tree, piece_length)
    return meta


def write_tree(base_dir, name, tree):
    """Materialise ``tree`` as base_dir/name (file or directory).  Returns
    the path.  Empty directories are created."""
    _check_name(name)
    path = os.path.join(base_dir, name)
    if _is_payload(tree):
        with open(path, "wb") as fh:
            fh.write(bytes(tree))
        return path
    if not isinstance(tree, dict):
        raise TypeError("tree must be bytes or dict")
    os.makedirs(path, exist_ok=True)
    for sub, node in tree.items():
        write_tree(path, sub, node)
    return path


def read_tree(path):
    """Inverse of write_tree: bytes for a file, nested dict (names in sorted
    order) for a directory."""
    if os.path.isdir(path):
        return {
            entry: read_tree(os.path.join(path, entry))
            for entry in sorted(os.listdir(path))
        }
    with open(path, "rb") as fh:
        return fh.read()


# --------------------------------------------------------------------------
# 5. Reference recheck
# --------------------------------------------------------------------------


def _get(dct, key, default=None):
    """dict lookup tolerant of str / bytes keys."""
    if key in dct:
        return dct[key]
    raw = key.encode("utf-8")
    if raw in dct:
        return dct[raw]
    return default


def _raw(value):
    """Hash material as bytes, whichever presentation it arrived in (pyben
    yields str when the bytes happen to be valid UTF-8, e.g. empty)."""
    if isinstance(value, str):
        return value.encode("utf-8")
    return bytes(value)


def _fs_name(component):
    if isinstance(component, (bytes, bytearray)):
        return os.fsdecode(bytes(component))
    return component


def _read_range(path, offset, count):
    """``count`` bytes of file ``path`` starting at ``offset``; whatever
    cannot be read (missing file, directory in its place, short file) is
    zeros."""
    if count <= 0:
        return b""
    got = b""
    if path is not None:
        try:
            with open(path, "rb") as fh:
                fh.seek(offset)
                got = fh.read(count)
        except OSError:
            got = b""
    return got + bytes(count - len(got))


def _is_v2(info):
    return _get(info, "meta version") == 2 and _get(info,
                                                    "file tree") is not None


def _recheck_v1(info, content_root):
    plen = _get(info, "piece length")
    if isinstance(plen, bool) or not isinstance(plen, int) or plen <= 0:
        raise ValueError("bad piece length %r" % (plen, ))
    pieces = _raw(_get(info, "pieces", b""))
    segments = []  # (path | None, length, is_padding)
    files = _get(info, "files")
    if files is not None:
        for entry in files:
            attr = _get(entry, "attr", "")
            attr = attr.decode("latin-1") if isinstance(
                attr, (bytes, bytearray)) else attr
            comps = [_fs_name(c) for c in _get(entry, "path")]
            length = _get(entry, "length")
            if "p" in attr:
                segments.append((None, length, True))
            else:
                segments.append((os.path.join(content_root, *comps), length,
                                 False))
    else:
        segments.append((content_root, _get(info, "length"), False))
    total = sum(seg[1] for seg in segments)
    out = []
    seg_i, seg_off = 0, 0
    index = 0
    done = 0
    while done < total:
        need = min(plen, total - done)
        done += need
        parts, payload = [], 0
        while need > 0:
            path, length, is_pad = segments[seg_i]
            avail = length - seg_off
            if avail <= 0:
                seg_i, seg_off = seg_i + 1, 0
                continue
            take = min(avail, need)
            if is_pad:
                parts.append(bytes(take))
            else:
                parts.append(_read_range(path, seg_off, take))
                payload += take
            seg_off += take
            need -= take
        want = pieces[20 * index:20 * index + 20]
        good = len(want) == 20 and \
            hashlib.sha1(b"".join(parts)).digest() == want
        out.append((index, payload, good))
        index += 1
    return out


def _walk_file_tree(node, prefix):
    """Yield (components, properties) for every file of a BEP 52 file tree,
    in the order stored."""
    for key, sub in node.items():
        if not isinstance(sub, dict):
            continue
        name = _fs_name(key)
        props = _get(sub, "")
        if isinstance(props, dict):  # BEP 52: "" key holds file properties
            yield prefix + [name], props
        else:
            for item in _walk_file_tree(sub, prefix + [name]):
                yield item


def _recheck_v2(meta, info, content_root):
    plen = _get(info, "piece length")
    bpp = _check_v2_piece_length(plen)
    layers = {}
    for key, val in (_get(meta, "piece layers") or {}).items():
        layers[_raw(key)] = _raw(val)
    files = list(_walk_file_tree(_get(info, "file tree"), []))
    # Where is each file?  content_root is the payload itself.  A BEP 52
    # info dict does not say whether {name: leaf} is "a single file" or "a
    # directory with one file"; the filesystem decides: if content_root is a
    # regular file and the tree holds exactly one file at top level, that
    # file IS content_root; in every other case paths are relative to the
    # directory content_root.  (If content_root does not exist every byte is
    # absent and the question is moot.)
    lone = (len(files) == 1 and len(files[0][0]) == 1
            and os.path.isfile(content_root))
    out = []
    for comps, props in files:
        length = _get(props, "length", 0)
        if not length:
            continue
        path = content_root if lone else os.path.join(content_root, *comps)
        root = _get(props, "pieces root")
        root = _raw(root) if root is not None else None
        ident = tuple(comps)
        if length <= plen:
            data = _read_range(path, 0, length)
            out.append(((ident, 0), length, pieces_root(data, plen) == root))
            continue
        layer = layers.get(root, b"")
        for j in range(-(-length // plen)):
            size = min(plen, length - j * plen)
            leaves = leaf_hashes(_read_range(path, j * plen, size))
            leaves += [ZERO_HASH] * (bpp - len(leaves))
            want = layer[32 * j:32 * j + 32]
            good = len(want) == 32 and merkle_root(leaves) == want
            out.append(((ident, j), size, good))
    return out


def ref_recheck_pieces(meta, content_root):
    """Individual piece verdicts: list of (id, size, ok).

    ``meta``: metafile dict with str keys (to_text(bdecode(raw)) or
    pyben.load(path)); raw bdecode output with bytes keys works too.
    ``content_root``: path of the payload itself (the file for a single-file
    torrent, the directory otherwise).

    Data that is absent (missing file, something that is not a readable file
    in its place, bytes past the end of a truncated file) is read as zeros.
    Bytes on disk beyond a file's declared length are ignored.

    v1 (no "meta version": 2): id = piece index in the stream formed by
      "files" in order (or the single "length" file).  Padding entries
      (attr contains "p") are part of the stream as zeros and are never read
      from disk.  ``size`` = number of *payload* bytes in the piece, i.e.
      padding bytes are counted neither in the numerator nor in the
      denominator of ref_recheck.  (Rationale: padding is not content the
      user has or lacks; with this choice an untouched payload is 100% and a
      wholly absent one is 0% whether or not the creator aligned files.)
      A piece without a 20-byte hash in "pieces" fails.
    v2 and hybrid ("meta version": 2 with a "file tree"; the v1 view of a
      hybrid is ignored): id = (path_components_tuple, j).  A file of at
      most piece length is one piece of ``length`` bytes, ok iff
      pieces_root(zero-filled data) == recorded "pieces root".  A larger
      file has ceil(length / piece length) pieces; piece j is ok iff the
      merkle root of its leaf hashes (zero-hash padded to a full piece)
      equals bytes [32j, 32j+32) of meta["piece layers"][pieces root]; a
      missing / short layer fails those pieces.  Whether the layer itself
      hashes up to the pieces root is not examined here (use layer_root).
      Empty files yield no entry.
    """
    info = _get(meta, "info")
    if not isinstance(info, dict):
        raise ValueError("metafile has no info dictionary")
    content_root = os.fspath(content_root)
    if _is_v2(info):
        return _recheck_v2(meta, info, content_root)
    return _recheck_v1(info, content_root)


def ref_recheck(meta, content_root):
    """Percentage (float, 0..100) = 100 * (payload bytes lying in pieces
    that verify) / (total payload bytes); see ref_recheck_pieces for what a
    piece is and how padding and absent data are treated.  A torrent with
    zero payload bytes has nothing that can fail and is reported as 100.0."""
    verdicts = ref_recheck_pieces(meta, content_root)
    total = sum(size for _, size, _ in verdicts)
    if total == 0:
        return 100.0
    good = sum(size for _, size, ok in verdicts if ok)
    return 100.0 * good / total
