#!/venv/bin/python
"""Native runner (runs under /venv/bin/python, the interpreter of the test-suite).

Roles (DESIGN.md sections 8, 9):
  * replay   -- run the REAL function on concrete inputs derived from a solver counter-model and judge the
                outcome with the very contract clause that failed (clauses are executable Python);
  * bounded  -- level-B stand-in / end-to-end oracle: drive the real code over an exhaustively enumerated small
                scope and evaluate the property's oracle; labelled bounded, never counted as proved.
Nothing here is a model of the code: it imports /repo/torrentfile itself.
Output: one JSON document on stdout.
"""
import argparse
import ast
import contextlib
import copy
import importlib
import io
import json
import os
import sys
import time
import traceback

VERIF = os.path.dirname(os.path.dirname(os.path.abspath(__file__)))
REPO = os.environ.get("VERIF_REPO", "/repo")
sys.path.insert(0, VERIF)
sys.path.insert(0, REPO)
os.environ.setdefault("TORRENTFILE_DEBUG", "OFF")


class NReg:
    """collects the sidecar contracts as plain dicts (no z3 on this side)"""

    def __init__(self):
        self.contracts = {}
        self.spec_funcs = {}
        self.externals = {}
        self.methods = {}

    def contract(self, target, **kw):
        self.contracts[target] = kw
        return kw


def load_contracts():
    reg = NReg()
    for m in ["utils_c", "edit_c", "commands_c", "torrent_c", "hasher_c", "recheck_c", "rebuild_c"]:
        if os.path.exists(os.path.join(VERIF, "contracts", m + ".py")):
            mod = importlib.import_module("contracts." + m)
            mod.register(reg)
    return reg


def resolve(qualname):
    parts = qualname.split(".")
    for i in range(len(parts) - 1, 0, -1):
        try:
            obj = importlib.import_module(".".join(parts[:i]))
        except ImportError:
            continue
        for p in parts[i:]:
            obj = getattr(obj, p)
        return obj
    raise ImportError(qualname)


def exc_name(e):
    return f"{type(e).__module__}.{type(e).__qualname__}"


class OldRewriter(ast.NodeTransformer):
    def __init__(self):
        self.subs = []

    def visit_Call(self, node):
        if isinstance(node.func, ast.Name) and node.func.id == "old" and len(node.args) == 1:
            name = f"__old{len(self.subs)}"
            self.subs.append((name, node.args[0]))
            return ast.copy_location(ast.Name(id=name, ctx=ast.Load()), node)
        return self.generic_visit(node)


def eval_clause(expr, env, old_env):
    from contracts.specs_native import NATIVE
    tree = ast.parse(expr.strip(), mode="eval")
    rw = OldRewriter()
    tree = ast.fix_missing_locations(rw.visit(tree))
    scope = dict(NATIVE)
    scope.update(env)
    for name, sub in rw.subs:
        oscope = dict(NATIVE)
        oscope.update(old_env)
        scope[name] = eval(compile(ast.fix_missing_locations(ast.Expression(sub)), "<old>", "eval"), oscope)
    return eval(compile(tree, "<clause>", "eval"), scope)


def norm_clause(cl):
    if isinstance(cl, str):
        return [], None, cl
    if len(cl) == 2:
        return [], cl[0], cl[1]
    p = cl[0]
    return ([p] if isinstance(p, str) else list(p)), cl[1], cl[2]


def variant_of(c, kwargs):
    vs = c.get("variants")
    if not vs:
        return 0
    kinds = {"int": int, "str": str}
    for vi, var in enumerate(vs):
        ok = True
        for k, t in var.items():
            if k in kwargs and t in kinds and not (isinstance(kwargs[k], kinds[t]) and not isinstance(kwargs[k], bool)):
                ok = False
        if ok:
            return vi
    return None


def judge_pure(target, c, kwargs):
    """run the real function on kwargs; return list of failed clause records (empty = contract held)"""
    fn = resolve(target)
    vi = variant_of(c, kwargs)
    if vi is None:
        return None
    old_env = copy.deepcopy(kwargs)
    try:
        for r in c.get("requires", []):
            _, _, e = norm_clause(r)
            if not eval_clause(e, kwargs, old_env):
                return None                     # outside the precondition
    except Exception:                            # noqa: BLE001
        return None
    env = copy.deepcopy(kwargs)
    fails = []
    try:
        with contextlib.redirect_stdout(io.StringIO()):
            result = fn(**env)
        outcome = ("return", result)
    except Exception as e:                       # noqa: BLE001
        outcome = ("raise", e)
    if outcome[0] == "return":
        env["result"] = outcome[1]
        clauses = list(c.get("ensures", []))
        if c.get("variant_ensures"):
            clauses += c["variant_ensures"][vi]
        for cl in clauses:
            props, lab, e = norm_clause(cl)
            try:
                ok = bool(eval_clause(e, env, old_env))
            except Exception as ex:              # noqa: BLE001
                ok = False
                lab = f"{lab} (clause raised {type(ex).__name__})"
            if not ok:
                fails.append({"clause": lab, "kind": "post", "expr": e, "props": props, "observed": repr(outcome[1])[:200]})
    else:
        ename = exc_name(outcome[1])
        spec = None
        for k, sp in c.get("raises", {}).items():
            if k == ename or any(f"{b.__module__}.{b.__qualname__}" == k or b.__qualname__ == k for b in type(outcome[1]).__mro__):
                spec = sp
                break
        if spec is None:
            fails.append({"clause": f"raises {type(outcome[1]).__name__}", "kind": "no-unexpected-raise", "expr": "False",
                          "props": c.get("raises_props", []), "observed": f"raised {ename}: {outcome[1]!s}"[:200]})
        else:
            clauses = list(spec.get("ensures", []))
            if spec.get("variant_ensures"):
                clauses += spec["variant_ensures"][vi]
            for cl in clauses:
                props, lab, e = norm_clause(cl)
                try:
                    ok = bool(eval_clause(e, env, old_env))
                except Exception as ex:          # noqa: BLE001
                    ok = False
                    lab = f"{lab} (clause raised {type(ex).__name__})"
                if not ok:
                    fails.append({"clause": lab, "kind": "post-on-raise", "expr": e, "props": props,
                                  "observed": f"raised {ename}"})
    return fails


def main():
    ap = argparse.ArgumentParser()
    ap.add_argument("mode", choices=["replay-pure", "bounded", "replay"])
    ap.add_argument("--target")
    ap.add_argument("--prop")
    ap.add_argument("--tier", default="quick")
    ap.add_argument("--seed", type=int, default=0)
    ap.add_argument("--input", help="json file with candidate inputs / hints / a replay record")
    a = ap.parse_args()
    t0 = time.time()
    out = {"mode": a.mode, "ok": True}
    try:
        if a.mode == "replay-pure":
            reg = load_contracts()
            c = reg.contracts[a.target]
            cands = json.load(open(a.input))["candidates"]
            res = []
            for kw in cands:
                f = judge_pure(a.target, c, kw)
                if f:
                    res.append({"input": kw, "failed": f})
            out["failures"] = res
            out["tried"] = len(cands)
        elif a.mode == "bounded":
            from native import harness
            hints = json.load(open(a.input)) if a.input else {}
            out.update(harness.run(a.prop, a.tier, a.seed, hints))
        elif a.mode == "replay":
            from native import harness
            rec = json.load(open(a.input))
            out.update(harness.replay(rec))
    except Exception as e:                       # noqa: BLE001
        out["ok"] = False
        out["error"] = f"{type(e).__name__}: {e}"
        out["traceback"] = traceback.format_exc()[-3000:]
    out["wall_s"] = round(time.time() - t0, 3)
    json.dump(out, sys.stdout, default=repr)
    sys.stdout.write("\n")


if __name__ == "__main__":
    main()
