"""Bounded native harnesses for the creation side: C01, C02, C03, C10, C15 (level B: bounded, never counted as proved).

Every case writes a small content tree to disk, runs the REAL creators / hashers of /repo on it, decodes the metafile that
was written with the independent decoder of native/ref.py and judges it with an oracle built from the property statement
(reference hashing = native/ref.py, never the algorithms of /repo).

A case is a JSON dict
    {"prop": "Cxx", "pl": <piece length argument>, "sizes": [..], "shape": "single|flat|sub|deep", "names": "ascii|unicode|order",
     "seed": n, "progress": 0|1|2}                                   (tree described by sizes + shape + names)
 or {"prop": "Cxx", "pl": .., "extra": "<named special tree>", ...}   (special trees, see _extra_tree)
 or {"prop": "C10", "kind": "hashers", "size": n, "pl": .., "progress": 0|1}
"""
import itertools
import json
import os

from native.harness import Acc, harness, replayer, tempdir, quiet, content, small_trees, make_metafile  # noqa: F401
from native import ref

B = 16384
SHAPES = ("flat", "sub", "deep")

NAMES = {
    "ascii": {"root": "payload", "single": "single.bin", "files": ["a.bin", "b.txt", "c"], "d1": "sub", "d2": "deep"},
    "unicode": {"root": "päylöad ✓", "single": "früh 日本.bin", "files": ["ä.bin", "b b.txt", "日本"], "d1": "dír", "d2": "Ünter"},
    # names for which "sort the full path strings" and "sort every directory level" give different orders
    "order": {"root": "Payload.d", "single": "S", "files": ["z", "a.x", "B"], "d1": "a", "d2": "a-"},
}
PREFIX = {"flat": ([], [], []), "sub": (["d1"], [], ["d1"]), "deep": (["d1", "d2"], ["d1"], [])}


# ------------------------------------------------------------------------------------------------ scope
def alphabet(pl):
    return sorted({0, 1, B - 1, B, B + 1, pl - 1, pl, pl + 1, 2 * pl - 1, 2 * pl, 2 * pl + 1, 3 * pl, 3 * pl + B + 1, 5 * pl})


_BUF = {}


def _content(seed, tag, n):
    """content(seed, tag, n), cached (content() is prefix-stable in n)"""
    key = (seed, tag)
    buf = _BUF.get(key, b"")
    if len(buf) < n:
        buf = content(seed, f"create/{tag}", max(n, 5 * 65536 + 4 * B))
        _BUF[key] = buf
    return buf[:n]


def _extra_tree(case):
    seed, pl = case.get("seed", 0), _norm_pl(case["pl"]) or B
    c = lambda tag, n: _content(seed, tag, n)      # noqa: E731
    kind = case["extra"]
    if kind == "many-small-one-piece":
        sizes = [1, 2, 3, 100, 500, 1000, 0, 7, 2000, 33, 1, 900]
        return "many", {f"f{i:02d}": c(i, n) for i, n in enumerate(sizes)}
    if kind == "many-small-straddle":
        sizes = [pl // 3 + 1] * 7 + [0, 1, pl // 3, B - 1, 5]
        return "straddle", {"d": {f"f{i:02d}": c(i, n) for i, n in enumerate(sizes[:6])},
                            "e": {f"g{i:02d}": c(10 + i, n) for i, n in enumerate(sizes[6:])}}
    if kind == "empties":
        sizes = [0, pl + 1, 0, 0, 2 * pl, 0]
        return "empties", {f"f{i}": c(i, n) for i, n in enumerate(sizes)}
    if kind == "boundaries":
        sizes = [pl, 2 * pl, pl, 3 * pl]
        return "bounds", {"x": {"a": c(0, sizes[0]), "b": c(1, sizes[1])}, "c": c(2, sizes[2]), "d": c(3, sizes[3])}
    if kind == "all-empty":
        return "allempty", {"a": b"", "s": {"b": b""}}
    if kind == "big-among-small":
        return "bigsmall", {"a": c(0, 1), "b": c(1, 5 * pl + 1), "c": c(2, 1)}
    if kind == "emptydirs":
        return "edirs", {"a": c(0, pl + 7), "empty1": {}, "s": {"empty2": {}, "b": c(1, 3)}, "zz": {"deep": {"empty3": {}}}}
    if kind == "fieldnames":
        return "fieldnames", {"pieces": c(0, 2 * pl + 1), "piece layers": {"pieces root": c(1, pl + 1)}, "file tree": {"length": c(2, 10)}, ".pad": {"5": c(3, 5), str(pl - 10): c(4, 9)},
                              "files": c(5, pl), "attr": b"", "meta version": c(6, 1)}
    if kind == "unicode-nested":
        return "ünï ✓ 日本", {"é": {"ü b": c(0, pl + 1), "Ω": b""}, "日本語.txt": c(1, 2 * pl), "a b": {"c d": {"e": c(2, B - 1)}}}
    if kind == "prefix-siblings":
        # a directory beside siblings named like it plus a character below / above '/' (0x2f): the order of whole path strings and
        # the order of path components differ for these
        return "prefixes", {"data": {"part1.bin": c(0, pl + 3), "part2.bin": c(1, 5)}, "data.idx": c(2, 2 * pl + 1), "data-old": {"part1.bin": c(3, pl)},
                            "data!": c(4, 7), "data0": c(5, pl - 1), "readme": c(6, 11)}
    if kind == "one-file-dir":
        return "solo", {"sub": {"only.bin": c(0, 2 * pl + 777)}}
    if kind.startswith("small_trees:"):
        return small_trees(seed, pl)[int(kind.split(":")[1])]
    raise ValueError(kind)


EXTRAS = ["many-small-one-piece", "many-small-straddle", "empties", "boundaries", "all-empty", "big-among-small", "emptydirs",
          "fieldnames", "unicode-nested", "small_trees:1", "small_trees:3", "small_trees:4", "prefix-siblings", "one-file-dir"]


def build_tree(case):
    """(name, tree) described by a case; deterministic"""
    if case.get("extra"):
        return _extra_tree(case)
    seed = case.get("seed", 0)
    nm = NAMES[case.get("names", "ascii")]
    sizes, shape = case["sizes"], case["shape"]
    if shape == "single":
        return nm["single"], _content(seed, 0, sizes[0])
    tree = {}
    for i, n in enumerate(sizes):
        node = tree
        for comp in PREFIX[shape][i]:
            node = node.setdefault(nm[comp], {})
        node[nm["files"][i]] = _content(seed, i, n)
    return nm["root"], tree


def _norm_pl(arg):
    """the piece length a valid argument stands for (exponent or byte count); None = automatic"""
    if arg is None or arg == "":
        return None
    x = int(arg)
    return 2 ** x if x < 64 else x


def _case_key(case):
    return json.dumps({k: v for k, v in case.items() if k != "prop"}, sort_keys=True, ensure_ascii=False)


def _tree_cases(prop, tier, seed, hints):
    """the enumerated scope: quick = well-chosen subset at piece length 16 KiB, thorough = strict superset"""
    cases, seen = [], set()

    def add(**kw):
        case = dict({"prop": prop, "seed": seed, "names": "ascii", "progress": 0}, **kw)
        k = _case_key(case)
        if k not in seen:
            seen.add(k)
            cases.append(case)

    pl = B
    A = alphabet(pl)
    for i, s in enumerate(A):                                   # single-file payloads of every size + directory with one file
        add(pl=pl, sizes=[s], shape="single")
        add(pl=pl, sizes=[s], shape=SHAPES[i % 3])
    Q2 = [0, 1, pl - 1, pl, pl + 1, 2 * pl + 1, 3 * pl + B + 1]
    for i, t in enumerate(itertools.product(Q2, repeat=2)):
        add(pl=pl, sizes=list(t), shape=SHAPES[i % 3])
    Q3 = [0, 1, pl, pl + 1]
    for i, t in enumerate(itertools.product(Q3, repeat=3)):
        add(pl=pl, sizes=list(t), shape=SHAPES[(i // 2) % 3])
    for ex in EXTRAS:
        add(pl=pl, extra=ex)
    for nmset in ("unicode", "order"):
        add(pl=pl, sizes=[pl + 1], shape="single", names=nmset)
        for sh in SHAPES:
            add(pl=pl, sizes=[pl + 1, 0, 2 * pl - 1], shape=sh, names=nmset)
            add(pl=pl, sizes=[1, 3 * pl, B - 1], shape=sh, names=nmset)
    for prog in (1, 2):
        add(pl=pl, sizes=[2 * pl + 1], shape="single", progress=prog)
        add(pl=pl, sizes=[pl + 1, 0, 5], shape="sub", progress=prog)
        add(pl=pl, extra="empties", progress=prog)
    # other spellings of the piece length: exponent, larger lengths with payloads shorter than one piece, automatic
    add(pl=14, sizes=[pl + 1, 1], shape="flat")
    add(pl=15, sizes=[32768 + 1, 1, 32768], shape="sub")
    add(pl=15, sizes=[3 * 32768 - 7, 5 * 32768 + 1], shape="flat")
    add(pl=16, sizes=[3 * 65536 - 100, 7], shape="sub")
    add(pl=15, sizes=[32768 + 1], shape="single")
    add(pl=2 ** 18, sizes=[pl + 1, 0, 3 * pl], shape="deep")
    add(pl=2 ** 18, sizes=[2 ** 18 + 1], shape="single")
    if prop == "C01":
        add(pl=pl, sizes=[pl + 1], shape="single", again=True)
        add(pl=pl, sizes=[pl + 1, 5], shape="flat", again=True)
        add(pl=pl, sizes=[1, 0, 2 * pl], shape="sub", again=True)
    add(pl=None, sizes=[2 * pl + 1, 5], shape="flat")
    add(pl=None, sizes=[3 * pl + B + 1], shape="single")
    # a second piece length in the quick tier: with pl = 16 KiB a piece is one block, so the "padding piece" of the merkle tree is
    # indistinguishable from a zero hash and a piece-layer hash from a leaf hash; 32 KiB separates them
    p2 = 32768
    for i, s in enumerate(alphabet(p2)):
        add(pl=p2, sizes=[s], shape="single")
        add(pl=p2, sizes=[s], shape=SHAPES[(i + 1) % 3])
    for i, t in enumerate(itertools.product([0, B + 1, p2, p2 + 1, 3 * p2 + B + 1], repeat=2)):
        add(pl=p2, sizes=list(t), shape=SHAPES[i % 3])
    for s in (B + 1, 65536 - 1, 65536 + 1, 3 * 65536, 5 * 65536):
        add(pl=65536, sizes=[s], shape="single")
    for c in hints.get("cases", []):
        add(**{k: v for k, v in c.items() if k not in ("prop",)})
    if tier == "quick":
        return cases
    # ------------------------------------------------------------------ thorough: all file lists of length <= 3
    for pl in (16384, 32768, 65536):
        A = alphabet(pl)
        for s in A:
            for nmset in NAMES:
                add(pl=pl, sizes=[s], shape="single", names=nmset)
                for sh in SHAPES:
                    add(pl=pl, sizes=[s], shape=sh, names=nmset)
        for t in itertools.product(A, repeat=2):
            for sh in SHAPES:
                add(pl=pl, sizes=list(t), shape=sh)
        for i, t in enumerate(itertools.product(A, repeat=2)):
            add(pl=pl, sizes=list(t), shape=SHAPES[i % 3], names="order")
            add(pl=pl, sizes=list(t), shape=SHAPES[(i + 1) % 3], names="unicode")
        for t in itertools.product(A, repeat=3):
            for sh in SHAPES:
                add(pl=pl, sizes=list(t), shape=sh)
        for ex in EXTRAS:
            add(pl=pl, extra=ex)
            add(pl=pl, extra=ex, seed=seed + 1)
        # more piece counts (powers of two and not) for single files and for one big file among small ones
        for k in range(1, 10):
            for dlt in (-1, 0, 1, B, B + 1):
                add(pl=pl, sizes=[k * pl + dlt], shape="single")
                add(pl=pl, sizes=[1, k * pl + dlt, 0], shape="flat")
        for prog in (1, 2):
            for s in A:
                add(pl=pl, sizes=[s], shape="single", progress=prog)
            add(pl=pl, sizes=[pl + 1, 0, 5], shape="deep", progress=prog)
    for plarg in (16, 17, 2 ** 20):
        for s in (1, B + 1, 2 ** 16 + 1, 2 ** 17, 2 ** 17 + 1):
            add(pl=plarg, sizes=[s], shape="single")
            add(pl=plarg, sizes=[s, 0, s - 1], shape="sub")
    return cases


class CappedAcc(Acc):
    """Acc that keeps at most CAP failure records per class (the scope is exhaustive, so one defect fails thousands of cases);
    the full per-class totals are reported under "failure_counts" """
    CAP = 40

    def __init__(self, *a):
        super().__init__(*a)
        self.counts = {}

    def fail(self, cls, case, observed, expected=None):
        self.counts[cls] = self.counts.get(cls, 0) + 1
        if self.counts[cls] <= self.CAP:
            super().fail(cls, case, observed, expected)

    def result(self):
        r = super().result()
        r["failure_counts"] = dict(sorted(self.counts.items()))
        return r


# ------------------------------------------------------------------------------------------------ running the real code
CREATORS = {
    "TorrentFile": ("TorrentFile", {}),
    "TorrentFile(align)": ("TorrentFile", {"align": True}),
    "TorrentFileV2": ("TorrentFileV2", {}),
    "TorrentFileHybrid": ("TorrentFileHybrid", {}),
    "TorrentAssembler(2)": ("TorrentAssembler", {"meta_version": "2"}),
    "TorrentAssembler(3)": ("TorrentAssembler", {"meta_version": "3"}),
}


def _create(d, payload, creator, pl_arg, progress):
    """run one real creator, write the metafile, decode what was written.  Returns (meta with str keys, None) or (None, error)"""
    from torrentfile import torrent
    clsname, extra = CREATORS[creator]
    out = os.path.join(d, "out_" + "".join(ch for ch in creator if ch.isalnum()) + ".torrent")
    kw = dict(path=payload, piece_length=pl_arg, progress=progress, outfile=out)
    kw.update(extra)
    try:
        with quiet():
            t = getattr(torrent, clsname)(**kw)
            t.write()
    except BaseException as e:      # noqa: BLE001
        return None, ("create-raised:" + type(e).__name__, f"{type(e).__name__}: {e}")
    try:
        with open(out, "rb") as fh:
            data = fh.read()
        return ref.to_text(ref.bdecode(data, strict=False)), None
    except BaseException as e:      # noqa: BLE001
        return None, ("metafile-undecodable", f"{type(e).__name__}: {e}")


def _entries(info):
    """v1 file list as [(is_padding, path tuple, length)]"""
    out = []
    for e in info.get("files") or []:
        attr = e.get("attr", "")
        if isinstance(attr, (bytes, bytearray)):
            attr = bytes(attr).decode("latin-1")
        out.append(("p" in str(attr), tuple(e.get("path") or ()), e.get("length")))
    return out


def _disk(tree):
    return {tuple(comps): data for comps, data in ref.tree_files(tree)}


def _kb(s):
    return s.encode("utf-8", "surrogateescape") if isinstance(s, str) else bytes(s)


def _leaves(node, prefix=()):
    """files of a decoded BEP 52 file tree in canonical (bencoded key) order: [(path tuple, properties dict)];
    directories without any file contribute nothing"""
    out = []
    if not isinstance(node, dict):
        return out
    for k in sorted(node, key=_kb):
        sub = node[k]
        if isinstance(sub, dict) and "" in sub and isinstance(sub[""], dict):
            out.append((prefix + (k,), sub[""]))
        else:
            out.extend(_leaves(sub, prefix + (k,)))
    return out


def _sizeclass(n, pl):
    if n == 0:
        return "empty"
    if n < B:
        return "<block"
    if n <= pl:
        return "<=piece"
    k = -(-n // pl)
    return ">piece:%s-pieces:%s" % ("pow2" if k & (k - 1) == 0 else "npow2", "exact" if n % pl == 0 else "partial")


def _prevclass(size, pl):
    if size is None:
        return "no-preceding-file"
    if size == 0:
        return "after-empty-file"
    if size < pl:
        return "file<piece"
    if size % pl == 0:
        return "file=k*piece"
    return "file>=piece"


def _zero_extended(data, pl):
    return ref.v1_pieces([data, bytes(-len(data) % pl)], pl)


def _setup(d, case):
    name, tree = build_tree(case)
    payload = ref.write_tree(d, name, tree)
    return name, tree, payload


def _piece_length_checks(acc, prop, who, case, info):
    """recorded piece length must be the requested one; returns the recorded one (None if unusable)"""
    rec = info.get("piece length")
    if isinstance(rec, bool) or not isinstance(rec, int) or rec < 1:
        acc.fail(f"{prop}:{who}:piece-length:invalid", case, f"piece length = {rec!r}", "positive integer")
        return None
    want = _norm_pl(case["pl"])
    if want is not None and rec != want:
        acc.fail(f"{prop}:{who}:piece-length:recorded-differs-from-requested", case, rec, want)
    return rec


def _check_listed_files(acc, prop, who, case, entries, disk):
    """every regular file exactly once with its exact length among the non-padding entries; returns True when the listed
    stream can be built from disk"""
    ok = True
    listed = [(p, n) for pad, p, n in entries if not pad]
    paths = [p for p, _ in listed]
    missing = sorted(set(disk) - set(paths))
    extra = sorted(set(paths) - set(disk))
    dup = sorted({p for p in paths if paths.count(p) > 1})
    if missing:
        acc.fail(f"{prop}:{who}:files:file-on-disk-not-listed", case, f"not listed: {missing[:5]}", "every regular file listed once")
    unmarked = [p for p in extra if p and p[0] == ".pad"]
    extra = [p for p in extra if p not in unmarked]
    if unmarked:
        acc.fail(f"{prop}:{who}:files:padding-entry-not-marked", case, f"listed without the padding attribute: {unmarked[:5]}",
                 "padding entries carry attr 'p'")
        ok = False
    if extra:
        acc.fail(f"{prop}:{who}:files:listed-but-not-on-disk", case, f"listed: {extra[:5]}", "only files under the content root")
        ok = False
    dup = [p for p in dup if p not in unmarked]
    if dup:
        acc.fail(f"{prop}:{who}:files:listed-twice", case, f"duplicates: {dup[:5]}", "every regular file listed once")
    bad = [(p, n, len(disk[p])) for p, n in listed if p in disk and n != len(disk[p])]
    if bad:
        acc.fail(f"{prop}:{who}:files:length", case, f"(path, listed, on disk): {bad[:5]}", "exact on-disk length")
        ok = False
    return ok


def _listed_stream(entries, disk):
    chunks = []
    for pad, p, n in entries:
        chunks.append(bytes(n) if pad else disk[p])
    return chunks


def _check_padding(acc, prop, who, case, entries, pl):
    """local alignment rule: a file of length s that starts on a piece boundary must be followed by exactly one padding entry
    of length (-s mod pl) when that is non-zero and another file follows (after the last file the entry is optional), and by
    none otherwise.  Returns the number of violations."""
    bad = 0
    prev = None         # length of the nearest preceding payload file
    prev_was_pad = False
    for i, (pad, p, n) in enumerate(entries):
        if pad:
            gap = (-prev) % pl if (prev is not None and not prev_was_pad) else 0
            if n != gap or n <= 0:
                bad += 1
                where = "consecutive-padding" if prev_was_pad else _prevclass(prev, pl)
                acc.fail(f"{prop}:{who}:align:pad-length:{where}", case,
                         f"entry #{i} {list(p)} has length {n} after a file of length {prev}", f"gap to the next piece boundary = {gap}"
                         + (" (no padding entry at all)" if gap == 0 else ""))
            prev_was_pad = True
        else:
            if prev is not None and not prev_was_pad and prev % pl:
                bad += 1
                acc.fail(f"{prop}:{who}:align:missing-padding:{_prevclass(prev, pl)}", case,
                         f"file #{i} {list(p)} follows a file of length {prev} without padding", f"padding entry of length {(-prev) % pl}")
            prev, prev_was_pad = n, False
    return bad


def _check_aligned_view(acc, prop, who, case, info, entries, disk, pl):
    """C03 / C15 for a directory payload: padding rule, piece boundaries, piece string = SHA-1 hashing of the listed stream,
    listed lengths account for the recorded number of pieces"""
    padbad = _check_padding(acc, prop, who, case, entries, pl)
    cause = "with-pad-length-error" if padbad else "lengths-ok"
    off, offb = 0, []
    for i, (pad, p, n) in enumerate(entries):
        if not pad and off % pl:
            offb.append((i, list(p), off))
        off += n
    if offb and not padbad:
        acc.fail(f"{prop}:{who}:align:file-not-on-piece-boundary", case, f"(entry, path, stream offset): {offb[:4]}", "offset = 0 mod piece length")
    pieces = info.get("pieces")
    if not isinstance(pieces, (bytes, bytearray)) or len(pieces) % 20:
        acc.fail(f"{prop}:{who}:pieces:malformed", case, f"{type(pieces).__name__} of length {len(pieces) if pieces is not None else None}",
                 "string of 20-byte hashes")
        return
    total = off
    npieces = -(-total // pl)
    if len(pieces) // 20 != npieces:
        acc.fail(f"{prop}:{who}:pieces:count-vs-listed-lengths:{cause}", case,
                 f"{len(pieces) // 20} piece hashes, listed lengths sum to {total} = {npieces} pieces", "equal")
    want = ref.v1_pieces(_listed_stream(entries, disk), pl)
    if bytes(pieces) != want:
        nbad = sum(1 for j in range(max(len(pieces), len(want)) // 20) if pieces[20 * j:20 * j + 20] != want[20 * j:20 * j + 20])
        acc.fail(f"{prop}:{who}:pieces:not-hash-of-listed-stream:{cause}", case,
                 f"{nbad} of {max(len(pieces), len(want)) // 20} piece hashes differ from the SHA-1 hashing of the listed stream "
                 f"(padding = zeros); listing: {[(int(pad), n) for pad, _, n in entries][:8]}", "SHA-1 of each piece-length slice of the listed stream")


def _check_single_v1(acc, prop, who, case, info, data, pl):
    """single-file payload: declared length is the file's, pieces hash the file alone"""
    if "files" in info or "length" not in info:
        acc.fail(f"{prop}:{who}:single:structure", case, f"keys {sorted(k for k in info if k in ('files', 'length'))}", "length, no files")
        return
    if info["length"] != len(data):
        acc.fail(f"{prop}:{who}:single:length", case, info["length"], len(data))
    pieces = info.get("pieces")
    if not isinstance(pieces, (bytes, bytearray)):
        acc.fail(f"{prop}:{who}:pieces:malformed", case, type(pieces).__name__, "string of 20-byte hashes")
        return
    want = ref.v1_pieces([data], pl)
    if bytes(pieces) != want:
        if bytes(pieces) == _zero_extended(data, pl):
            acc.fail(f"{prop}:{who}:single:pieces-zero-extended", case,
                     f"last piece is the hash of the file's tail zero-extended to a full piece (file length {len(data)}, piece length {pl}, "
                     f"declared length {info['length']})", "last piece = SHA-1 of the file's short tail")
        else:
            acc.fail(f"{prop}:{who}:single:pieces-mismatch", case, f"{len(pieces) // 20} hashes, differ from reference", f"{len(want) // 20} hashes")


# =============================================================================================== C01
def _c01_judge(acc, who, case, meta, tree, tag=""):
    info = meta.get("info") or {}
    pl = _piece_length_checks(acc, "C01", who, case, info)
    if pl is None:
        return
    if isinstance(tree, bytes):
        _check_single_v1(acc, "C01" + tag, who, case, info, tree, pl)
        return
    if "length" in info or "files" not in info:
        acc.fail(f"C01{tag}:{who}:multi:structure", case, f"keys {sorted(k for k in info if k in ('files', 'length'))}", "files, no length")
        return
    entries, disk = _entries(info), _disk(tree)
    pads = [e for e in entries if e[0]]
    if pads:
        acc.fail(f"C01{tag}:{who}:files:padding-entry-without-align", case, pads[:3], "no padding entries")
    if not _check_listed_files(acc, "C01" + tag, who, case, entries, disk):
        return
    pieces = info.get("pieces")
    if not isinstance(pieces, (bytes, bytearray)) or len(pieces) % 20:
        acc.fail(f"C01{tag}:{who}:pieces:malformed", case, type(pieces).__name__, "string of 20-byte hashes")
        return
    want = ref.v1_pieces(_listed_stream(entries, disk), pl)
    if bytes(pieces) != want:
        cls = "with-empty-file" if any(n == 0 for _, _, n in entries) else "no-empty-file"
        acc.fail(f"C01{tag}:{who}:multi:pieces-mismatch:{cls}", case,
                 f"{len(pieces) // 20} hashes; listing {[n for _, _, n in entries]}", f"{len(want) // 20} hashes of the listed stream")


def _grow(d, payload, tree):
    """change the payload in place (same path string): the first file grows by 7 bytes, a new file appears.  Returns the new tree"""
    if isinstance(tree, bytes):
        with open(payload, "ab") as fh:
            fh.write(b"G" * 7)
        return tree + b"G" * 7
    new = dict(tree)
    for k in sorted(new):
        if isinstance(new[k], bytes):
            with open(os.path.join(payload, k), "ab") as fh:
                fh.write(b"G" * 7)
            new[k] = new[k] + b"G" * 7
            break
    extra = b"N" * (B + 3)
    subdirs = [k for k in sorted(new) if isinstance(new[k], dict)]
    if subdirs:
        # inside a sub-directory: the root directory's own entry list (and its mtime) stay as they were
        st = os.stat(payload)
        sub = dict(new[subdirs[0]])
        with open(os.path.join(payload, subdirs[0], "zz_new.bin"), "wb") as fh:
            fh.write(extra)
        sub["zz_new.bin"] = extra
        new[subdirs[0]] = sub
        os.utime(payload, ns=(st.st_atime_ns, st.st_mtime_ns))
    else:
        with open(os.path.join(payload, "zz_new.bin"), "wb") as fh:
            fh.write(extra)
        new["zz_new.bin"] = extra
    return new


def _c01_case(acc, case):
    who = "TorrentFile"
    with tempdir() as d:
        name, tree, payload = _setup(d, case)
        meta, err = _create(d, payload, who, case["pl"], case.get("progress", 0))
        if err:
            acc.fail(f"C01:{who}:{err[0]}", case, err[1], "metafile")
            return
        _c01_judge(acc, who, case, meta, tree)
        if case.get("again"):
            # the same path string again after the content changed (results must describe the files on disk NOW)
            tree2 = _grow(d, payload, tree)
            meta2, err = _create(d, payload, who, case["pl"], case.get("progress", 0))
            if err:
                acc.fail(f"C01:again:{who}:{err[0]}", case, err[1], "metafile")
                return
            _c01_judge(acc, who, case, meta2, tree2, tag=":again")


@harness("C01")
def h_c01(tier, seed, hints):
    acc = CappedAcc("C01", "v1 metafiles written by TorrentFile for enumerated content trees, decoded with the reference decoder: every regular "
              "file listed once with its on-disk length, pieces = reference SHA-1 hashing of the files concatenated in the LISTED order, "
              "recorded piece length = requested; distinct = (piece length, size tuple, nesting shape, naming, progress mode)",
              "sizes from {0,1,B-1,B,B+1,pl-1,pl,pl+1,2pl-1,2pl,2pl+1,3pl,3pl+B+1,5pl}; file lists of length <= 3 x {single file, flat, "
              "one sub-directory, two levels}; quick: pl=16K subset (~150 trees); thorough: all, pl in {16K,32K,64K} + special trees")
    for i, case in enumerate(_tree_cases("C01", tier, seed, hints)):
        _c01_case(acc, case)
        acc.case(_case_key(case), case if i % 37 == 5 else None)
    return acc.result()


@replayer("C01")
def r_c01(acc, case):
    _c01_case(acc, case)


# =============================================================================================== C02
V2_CREATORS = ("TorrentFileV2", "TorrentFileHybrid", "TorrentAssembler(2)", "TorrentAssembler(3)")


def _judge_c02(acc, who, case, meta, name, tree, pl):
    info = meta.get("info") or {}
    ft = info.get("file tree")
    if not isinstance(ft, dict):
        acc.fail(f"C02:{who}:tree:missing", case, type(ft).__name__, "file tree dictionary")
        return
    exp_ft = ref.ref_info(name, tree, pl, 2)["file tree"]
    got = dict(_leaves(ft))
    exp = dict(_leaves(exp_ft))
    missing = sorted(set(exp) - set(got))
    extra = sorted(set(got) - set(exp))
    if missing:
        acc.fail(f"C02:{who}:tree:file-missing", case, f"not in the file tree: {missing[:5]}", "same relative paths as on disk")
    if extra:
        acc.fail(f"C02:{who}:tree:file-not-on-disk", case, f"in the file tree only: {extra[:5]}", "same relative paths as on disk")
    for p in sorted(set(exp) & set(got)):
        g, e = got[p], exp[p]
        sc = _sizeclass(e["length"], pl)
        if g.get("length") != e["length"]:
            acc.fail(f"C02:{who}:tree:length", case, f"{list(p)}: {g.get('length')}", e["length"])
        if "pieces root" not in e:
            if "pieces root" in g:
                acc.fail(f"C02:{who}:root:empty-file-has-root", case, f"{list(p)}: {g['pieces root']!r}", "no pieces root")
        elif g.get("pieces root") != e["pieces root"]:
            acc.fail(f"C02:{who}:root:{sc}", case, f"{list(p)} (length {e['length']}): {g.get('pieces root')!r}", e["pieces root"])
    layers = meta.get("piece layers")
    if not isinstance(layers, dict):
        acc.fail(f"C02:{who}:layers:missing", case, type(layers).__name__, "piece layers dictionary")
        return
    # entries are keyed by the pieces root the SAME metafile records for the file (so that a wrong root is reported once, as a
    # root failure, and the layer is still judged); the value is compared with the reference piece layer of the file on disk
    disk = _disk(tree) if not isinstance(tree, bytes) else {(name,): tree}
    got_layers = {_kb(k): (bytes(v) if isinstance(v, (bytes, bytearray)) else _kb(v)) for k, v in layers.items()}
    claimed = set()
    small_roots = {}
    nfail = len(acc.failures) + sum(acc.counts.values()) if hasattr(acc, "counts") else len(acc.failures)
    for p in sorted(set(exp) & set(got)):
        root, n = got[p].get("pieces root"), exp[p]["length"]
        if not isinstance(root, (bytes, bytearray)):
            continue
        root = bytes(root)
        sc = _sizeclass(n, pl)
        if n <= pl:
            small_roots[root] = sc
            continue
        claimed.add(root)
        if root not in got_layers:
            acc.fail(f"C02:{who}:layers:entry-missing:{sc}", case, f"no entry for {list(p)} (length {n})", "one entry per file larger than the piece length")
        elif got_layers[root] != ref.piece_layer(disk[p], pl):
            want = ref.piece_layer(disk[p], pl)
            acc.fail(f"C02:{who}:layers:value:{sc}", case,
                     f"{list(p)} (length {n}): {len(got_layers[root]) // 32} hashes ({len(got_layers[root])} bytes), differ from reference",
                     f"{len(want) // 32} hashes, one per piece holding file data")
    for k in sorted(set(got_layers) - claimed):
        acc.fail(f"C02:{who}:layers:entry-unexpected:{small_roots.get(k, 'unknown-root')}", case,
                 f"entry for root {k.hex()[:16]}.. ({len(got_layers[k]) // 32} hashes)", "entries only for files larger than the piece length")
    nnow = len(acc.failures) + sum(acc.counts.values()) if hasattr(acc, "counts") else len(acc.failures)
    if nnow == nfail and got_layers != ref.ref_piece_layers(tree, pl) and all(
            got[p].get("pieces root") == exp[p].get("pieces root") for p in set(exp) & set(got)) and not missing and not extra:
        acc.fail(f"C02:{who}:layers:differs-from-reference", case, f"{len(got_layers)} entries", "reference piece layers")


def _c02_case(acc, case):
    with tempdir() as d:
        name, tree, payload = _setup(d, case)
        for who in V2_CREATORS:
            meta, err = _create(d, payload, who, case["pl"], case.get("progress", 0))
            if err:
                acc.fail(f"C02:{who}:{err[0]}", case, err[1], "metafile")
                continue
            pl = _piece_length_checks(acc, "C02", who, case, meta.get("info") or {})
            if pl is None:
                continue
            try:
                _judge_c02(acc, who, case, meta, name, tree, pl)
            except BaseException as e:      # noqa: BLE001
                acc.fail(f"C02:{who}:unjudgeable", case, f"{type(e).__name__}: {e}", "well-formed v2 metafile")


@harness("C02")
def h_c02(tier, seed, hints):
    acc = CappedAcc("C02", "v2 / hybrid metafiles written by TorrentFileV2, TorrentFileHybrid, TorrentAssembler('2'), TorrentAssembler('3'): file "
              "tree leaves (paths, lengths, pieces roots; empty directories ignored) and piece layers compared with the reference BEP 52 "
              "implementation; distinct = (piece length, size tuple, nesting shape, naming, progress mode), 4 creators per case",
              "same trees as C01; sizes below a block, block and piece multiples +-1, 1..9 pieces (+-1, +B, +B+1) in thorough; pl 16K/32K/64K")
    for i, case in enumerate(_tree_cases("C02", tier, seed, hints)):
        _c02_case(acc, case)
        acc.case(_case_key(case), case if i % 37 == 5 else None)
    return acc.result()


@replayer("C02")
def r_c02(acc, case):
    _c02_case(acc, case)


# =============================================================================================== C03
HYBRID_CREATORS = ("TorrentFileHybrid", "TorrentAssembler(3)")


def _judge_c03(acc, who, case, meta, name, tree, pl):
    info = meta.get("info") or {}
    leaves = [(p, props.get("length")) for p, props in _leaves(info.get("file tree"))]
    if isinstance(tree, bytes):
        if leaves != [((name,), info.get("length"))]:
            acc.fail(f"C03:{who}:single:tree-vs-length", case, f"file tree leaves {leaves}, v1 length {info.get('length')}", "one leaf, same length")
        _check_single_v1(acc, "C03", who, case, info, tree, pl)
        return
    if "length" in info or "files" not in info:
        acc.fail(f"C03:{who}:multi:structure", case, f"keys {sorted(k for k in info if k in ('files', 'length'))}", "files, no length")
        return
    entries, disk = _entries(info), _disk(tree)
    listed = [(p, n) for pad, p, n in entries if not pad]
    if listed != leaves:
        same_set = sorted(listed) == sorted(leaves)
        acc.fail(f"C03:{who}:files-vs-tree:{'order' if same_set else 'content'}", case, f"v1 list {listed[:6]}", f"file tree leaves {leaves[:6]}")
    if not _check_listed_files(acc, "C03", who, case, entries, disk):
        return
    _check_aligned_view(acc, "C03", who, case, info, entries, disk, pl)


def _c03_case(acc, case):
    with tempdir() as d:
        name, tree, payload = _setup(d, case)
        for who in HYBRID_CREATORS:
            meta, err = _create(d, payload, who, case["pl"], case.get("progress", 0))
            if err:
                acc.fail(f"C03:{who}:{err[0]}", case, err[1], "metafile")
                continue
            pl = _piece_length_checks(acc, "C03", who, case, meta.get("info") or {})
            if pl is None:
                continue
            try:
                _judge_c03(acc, who, case, meta, name, tree, pl)
            except BaseException as e:      # noqa: BLE001
                acc.fail(f"C03:{who}:unjudgeable", case, f"{type(e).__name__}: {e}", "well-formed hybrid metafile")


@harness("C03")
def h_c03(tier, seed, hints):
    acc = CappedAcc("C03", "hybrid metafiles written by TorrentFileHybrid and TorrentAssembler('3'): non-padding v1 entries = file-tree leaves in "
              "canonical order with the same (on-disk) lengths, padding entries marked and of the length of the gap, every file on a piece "
              "boundary of the v1 stream, pieces = reference SHA-1 hashing of that stream (padding = zeros), piece count = listed lengths; "
              "single file: pieces of the file alone with its declared length; distinct = (piece length, sizes, shape, naming, progress)",
              "same trees as C01 (single files of every size in the alphabet, lists of <= 3 files x 3 nesting shapes, special trees)")
    for i, case in enumerate(_tree_cases("C03", tier, seed, hints)):
        _c03_case(acc, case)
        acc.case(_case_key(case), case if i % 37 == 5 else None)
    return acc.result()


@replayer("C03")
def r_c03(acc, case):
    _c03_case(acc, case)


# =============================================================================================== C15
def _c15_case(acc, case):
    who = "TorrentFile(align)"
    with tempdir() as d:
        name, tree, payload = _setup(d, case)
        meta, err = _create(d, payload, who, case["pl"], case.get("progress", 0))
        if err:
            acc.fail(f"C15:{who}:{err[0]}", case, err[1], "metafile")
            return
        info = meta.get("info") or {}
        pl = _piece_length_checks(acc, "C15", who, case, info)
        if pl is None:
            return
        try:
            if isinstance(tree, bytes):
                _check_single_v1(acc, "C15", who, case, info, tree, pl)
                return
            if "length" in info or "files" not in info:
                acc.fail(f"C15:{who}:multi:structure", case, f"keys {sorted(k for k in info if k in ('files', 'length'))}", "files, no length")
                return
            entries, disk = _entries(info), _disk(tree)
            if not _check_listed_files(acc, "C15", who, case, entries, disk):
                return
            _check_aligned_view(acc, "C15", who, case, info, entries, disk, pl)
        except BaseException as e:      # noqa: BLE001
            acc.fail(f"C15:{who}:unjudgeable", case, f"{type(e).__name__}: {e}", "well-formed v1 metafile")


@harness("C15")
def h_c15(tier, seed, hints):
    acc = CappedAcc("C15", "v1 metafiles written by TorrentFile(align=True): every payload file listed once with its on-disk length, each file "
              "followed by a marked padding entry of exactly the gap to the next piece boundary (none when the gap is zero; optional after "
              "the last file), every file on a piece boundary, pieces = reference SHA-1 hashing of the listed stream with padding = zeros, "
              "number of pieces = ceil(sum of listed lengths / piece length); single file hashed alone; distinct = (pl, sizes, shape, ...)",
              "same trees as C01 (sizes empty / shorter than a piece / exact multiples / every remainder class of the alphabet)")
    for i, case in enumerate(_tree_cases("C15", tier, seed, hints)):
        _c15_case(acc, case)
        acc.case(_case_key(case), case if i % 37 == 5 else None)
    return acc.result()


@replayer("C15")
def r_c15(acc, case):
    _c15_case(acc, case)


# =============================================================================================== C10
def _b(x):
    return bytes(x) if isinstance(x, (bytes, bytearray)) else x


def _run_hashers(path, pl, progress):
    """{hasher label: {"root", "layer", "pieces", "pad", "yield-layer", "yield-pieces"} or {"error"}}"""
    from torrentfile import hasher as H
    from torrentfile.mixins import ProgMixin

    def bar():
        return ProgMixin.NoProg() if progress == 0 else None
    out = {}

    def run(label, fn):
        try:
            with quiet():
                out[label] = fn()
        except BaseException as e:      # noqa: BLE001
            out[label] = {"error": f"{type(e).__name__}: {e}"}

    def v2():
        h = H.HasherV2(path, pl, progress=progress, progress_bar=bar())
        return {"root": _b(h.root), "layer": _b(h.piece_layer)}

    def hy():
        h = H.HasherHybrid(path, pl, progress=progress, progress_bar=bar())
        return {"root": _b(h.root), "layer": _b(h.piece_layer), "pieces": b"".join(bytes(p) for p in h.pieces), "pad": h.padding_file}

    def fh(hybrid):
        def f():
            h = H.FileHasher(path, pl, progress=progress, hybrid=hybrid, progress_bar=bar())
            ys = list(h)
            r = {"root": _b(h.root), "layer": _b(h.piece_layer)}
            if hybrid:
                r.update({"pieces": b"".join(bytes(p) for p in h.pieces), "pad": h.padding_file,
                          "yield-layer": b"".join(bytes(y[0]) for y in ys), "yield-pieces": b"".join(bytes(y[1]) for y in ys)})
            else:
                r["yield-layer"] = b"".join(bytes(y) for y in ys)
            return r
        return f
    run("HasherV2", v2)
    run("HasherHybrid", hy)
    run("FileHasher", fh(False))
    run("FileHasher(hybrid)", fh(True))
    return out


def _short(x):
    if isinstance(x, (bytes, bytearray)):
        return f"{len(x)} bytes {bytes(x[:8]).hex()}.."
    return repr(x)


def _c10_hashers(acc, case):
    pl, n = case["pl"], case["size"]
    sc = _sizeclass(n, pl)
    with tempdir() as d:
        path = os.path.join(d, "file.bin")
        with open(path, "wb") as fh:
            fh.write(_content(case.get("seed", 0), 0, n))
        res = _run_hashers(path, pl, case.get("progress", 0))
    for label, r in res.items():
        if "error" in r:
            acc.fail(f"C10:hashers:{label}:raised:{sc}", case, r["error"], "hashes")
    ok = {k: r for k, r in res.items() if "error" not in r}
    for attr in ("root", "layer", "pieces", "pad"):
        have = [(k, r[attr]) for k, r in ok.items() if attr in r]
        for (ka, va), (kb, vb) in itertools.combinations(have, 2):
            if va != vb:
                acc.fail(f"C10:hashers:{attr}:{ka}-vs-{kb}:{sc}", case, f"{ka}: {_short(va)}; {kb}: {_short(vb)}", "identical")
    for k, r in ok.items():
        if "yield-layer" in r and r["yield-layer"] != (r["layer"] or b""):
            acc.fail(f"C10:hashers:yielded-layer-vs-piece_layer:{k}:{sc}", case, f"{_short(r['yield-layer'])} vs {_short(r['layer'])}", "identical")
        if "yield-pieces" in r and r["yield-pieces"] != r["pieces"]:
            acc.fail(f"C10:hashers:yielded-pieces-vs-pieces:{k}:{sc}", case, f"{_short(r['yield-pieces'])} vs {_short(r['pieces'])}", "identical")


def _diffkeys(a, b):
    return sorted(str(k) for k in set(a) | set(b) if a.get(k) != b.get(k))


def _c10_creators(acc, case):
    with tempdir() as d:
        name, tree, payload = _setup(d, case)
        for label, cli, lib in (("v2", "TorrentAssembler(2)", "TorrentFileV2"), ("hybrid", "TorrentAssembler(3)", "TorrentFileHybrid")):
            ma, ea = _create(d, payload, cli, case["pl"], case.get("progress", 0))
            mb, eb = _create(d, payload, lib, case["pl"], case.get("progress", 0))
            if ea or eb:
                if (ea and ea[0]) != (eb and eb[0]):
                    acc.fail(f"C10:creators:{label}:one-raises", case, f"{cli}: {ea and ea[1]}; {lib}: {eb and eb[1]}", "same outcome")
                continue
            ia, ib = ma.get("info") or {}, mb.get("info") or {}
            if ia != ib:
                keys = _diffkeys(ia, ib)
                detail = ""
                if "files" in keys:
                    detail = f"; files {[(e.get('attr', '-'), e.get('length')) for e in ia.get('files', [])][:6]} vs " \
                             f"{[(e.get('attr', '-'), e.get('length')) for e in ib.get('files', [])][:6]}"
                acc.fail(f"C10:creators:{label}:info-differs:{','.join(keys)}", case, f"{cli} vs {lib}: info keys {keys} differ{detail}", "identical info")
            la, lb = ma.get("piece layers"), mb.get("piece layers")
            if la != lb:
                acc.fail(f"C10:creators:{label}:piece-layers-differ", case,
                         f"{cli}: {len(la) if isinstance(la, dict) else la} entries; {lib}: {len(lb) if isinstance(lb, dict) else lb} entries",
                         "identical piece layers")


def _cli_create(d, payload, version, pl_arg, progress):
    """the same creation through the command line entry point; returns (meta, None) or (None, error)"""
    import logging
    import sys
    from torrentfile.cli import execute
    out = os.path.join(d, f"out_cli_{version}.torrent")
    argv = ["create", payload, "--meta-version", str(version), "-o", out, "--prog", str(progress)]
    if pl_arg is not None:
        argv += ["--piece-length", str(pl_arg)]
    err = None
    try:
        with quiet():
            execute(argv)
    except BaseException as e:      # noqa: BLE001
        err = ("create-raised:" + type(e).__name__, f"{type(e).__name__}: {e}")
    for h in list(logging.getLogger().handlers):
        try:
            h.close()
        except Exception:       # noqa: BLE001
            pass
        logging.getLogger().removeHandler(h)
    sys.stdout, sys.stderr = sys.__stdout__, sys.__stderr__
    if err:
        return None, err
    try:
        with open(out, "rb") as fh:
            return ref.to_text(ref.bdecode(fh.read(), strict=False)), None
    except BaseException as e:      # noqa: BLE001
        return None, ("metafile-undecodable", f"{type(e).__name__}: {e}")


def _c10_cli(acc, case):
    """command line (create --meta-version 2|3) against the class-based creators of the interactive front end"""
    with tempdir() as d:
        name, tree, payload = _setup(d, case)
        os.chdir(d)
        for label, version, lib in (("v2", 2, "TorrentFileV2"), ("hybrid", 3, "TorrentFileHybrid")):
            ma, ea = _cli_create(d, payload, version, case["pl"], case.get("progress", 0))
            mb, eb = _create(d, payload, lib, case["pl"], case.get("progress", 0))
            if ea or eb:
                if (ea and ea[0]) != (eb and eb[0]):
                    acc.fail(f"C10:cli:{label}:one-raises", case, f"command line: {ea and ea[1]}; {lib}: {eb and eb[1]}", "same outcome")
                continue
            ia, ib = ma.get("info") or {}, mb.get("info") or {}
            if ia != ib:
                keys = _diffkeys(ia, ib)
                acc.fail(f"C10:cli:{label}:info-differs:{','.join(keys)}", case, f"command line vs {lib}: info keys {keys} differ", "identical info")
            if ma.get("piece layers") != mb.get("piece layers"):
                acc.fail(f"C10:cli:{label}:piece-layers-differ", case, f"command line vs {lib}", "identical piece layers")


def _c10_case(acc, case):
    if case.get("kind") == "hashers":
        _c10_hashers(acc, case)
    elif case.get("kind") == "cli":
        _c10_cli(acc, case)
    else:
        _c10_creators(acc, case)


def _hasher_cases(tier, seed):
    cases, seen = [], set()

    def add(**kw):
        case = dict({"prop": "C10", "kind": "hashers", "seed": seed, "progress": 0}, **kw)
        k = _case_key(case)
        if k not in seen:
            seen.add(k)
            cases.append(case)
    for pl in ((16384,) if tier == "quick" else (16384, 32768, 65536)):
        for s in alphabet(pl):
            add(pl=pl, size=s)
        for s in (pl + 1, 3 * pl, 0, 1):
            add(pl=pl, size=s, progress=1)
    if tier == "quick":
        for s in alphabet(32768):
            add(pl=32768, size=s)
        return cases
    for pl in (16384, 32768, 65536, 2 ** 17):
        for k in range(0, 18):
            for dlt in (-1, 0, 1):
                if k * B + dlt >= 0:
                    add(pl=pl, size=k * B + dlt)
        for k in range(1, 10):
            for dlt in (-1, 0, 1, B, B + 1):
                add(pl=pl, size=k * pl + dlt)
        for s in alphabet(pl):
            add(pl=pl, size=s, progress=1)
            add(pl=pl, size=s, seed=seed + 1)
    return cases


@harness("C10")
def h_c10(tier, seed, hints):
    acc = CappedAcc("C10", "pairs of written metafiles (TorrentAssembler('2') vs TorrentFileV2, TorrentAssembler('3') vs TorrentFileHybrid): decoded "
              "info dictionaries and piece layers must be identical; HasherV2 / HasherHybrid / FileHasher (with and without the hybrid flag) "
              "on the same file: root, piece layer, v1 pieces and padding description pairwise identical, yielded values = stored values; "
              "the command line (create --meta-version 2|3) against TorrentFileV2 / TorrentFileHybrid on a sub-sample of the trees; "
              "distinct = creator cases (pl, sizes, shape, naming, progress) + hasher cases (pl, size, progress)",
              "creator pairs over the trees of C01; hashers over the size alphabet (quick, pl 16K/32K) and all k*B+-1, k<18, k*pl+{-1,0,1,B,B+1}, "
              "k<10, pl in {16K,32K,64K,128K} (thorough)")
    for i, case in enumerate(_hasher_cases(tier, seed)):
        _c10_case(acc, case)
        acc.case(_case_key(case), case if i % 29 == 3 else None)
    trees = _tree_cases("C10", tier, seed, hints)
    for i, case in enumerate(trees):
        _c10_case(acc, case)
        acc.case(_case_key(case), case if i % 53 == 5 else None)
    # the command line itself on a sub-sample (every 9th tree in quick, every 5th in thorough; all special trees)
    quick_trees = trees if tier == "quick" else _tree_cases("C10", "quick", seed, hints)
    sample = [c for i, c in enumerate(quick_trees) if i % 9 == 0 or c.get("extra")]
    if tier != "quick":
        sample += [c for i, c in enumerate(trees) if i % 5 == 0]
    seen = set()
    for i, case in enumerate(sample):
        case = dict(case, kind="cli")
        if _case_key(case) in seen:
            continue
        seen.add(_case_key(case))
        _c10_case(acc, case)
        acc.case(_case_key(case), case if i % 53 == 5 else None)
    return acc.result()


@replayer("C10")
def r_c10(acc, case):
    _c10_case(acc, case)
