#!/usr/bin/env python3
"""Regenerate MANIFEST.json from plans.PLAN (claimed properties) -- everything else goes to not_applicable."""
import json, os, sys
VERIF = os.path.dirname(os.path.dirname(os.path.abspath(__file__)))
sys.path.insert(0, VERIF)
import plans
props = [json.loads(l)["id"] for l in open(os.path.join(VERIF, "properties.jsonl"))]
checks, na = [], []
for p in props:
    pl = plans.PLAN.get(p)
    if pl and pl.get("claimed", True):
        checks.append({
            "property_id": p,
            "quick_cmd": f"python3-vt check.py {p} --tier quick",
            "thorough_cmd": f"python3-vt check.py {p} --tier thorough",
            "evidence_file": f"/verif/evidence/{p}.json",
            "replay_cmd_template": "python3-vt check.py --replay {path}",
            "engine": "pyvc",
            "level_claimed": {"category": "proof", "text": pl["level_text"], "design_ref": pl.get("design_ref", "DESIGN.md section 10")},
            "level_note": pl["level_note"],
            "technique": pl.get("technique", "contract-based deductive verification: VCs generated from the real source (ast) by pyvc, discharged by z3/cvc5; bounded native stand-in for functions outside the subset"),
        })
    else:
        na.append({"property_id": p, "reason": (pl or {}).get("na_reason", "check under construction (not yet claimed)")})
m = {"version": 1,
     "setup_cmd": "python3-vt tools/selftest.py",
     "hooks": {"guard": "TORRENTFILE_VERIF", "enable": "no hooks: the prover reads /repo's source text (ast) and the native runner wraps/patches functions from outside; nothing in /repo is instrumented",
               "baseline_off_cmd": "cd /repo && /venv/bin/python -m pytest -q -p no:cacheprovider --timeout=900", "source_commits": [], "add_only": True},
     "engines": [{"name": "pyvc", "path": "/verif/pyvc", "serves_properties": [c["property_id"] for c in checks],
                  "kind_free_text": "self-built contract-driven VC generator / symbolic executor over the real Python AST; z3 5.1 primary, cvc5 on unknowns; sidecar contracts in /verif/contracts"},
                 {"name": "lean-lemmas", "path": "/verif/lemmas", "serves_properties": [c["property_id"] for c in checks],
                  "kind_free_text": "lean 4.33 (core only): the lemma schemas (L1-L4, mod_witness, mod_step, pow2 facts) whose ground instances pyvc states are compiled by every check run; never decides a verdict"},
                 {"name": "native-runner", "path": "/verif/native", "serves_properties": [c["property_id"] for c in checks],
                  "kind_free_text": "replay of counter-models on the real code and bounded stand-ins (labelled bounded)"}],
     "checks": checks,
     "notes": "see DESIGN.md; known_findings.json lists recorded and fixed defects",
     "not_applicable": na}
json.dump(m, open(os.path.join(VERIF, "MANIFEST.json"), "w"), indent=1)
print(len(checks), "claimed;", len(na), "not applicable")
