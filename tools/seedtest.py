#!/usr/bin/env python3
"""tools/seedtest.py <seed dir name> [...]: apply seeded/<name>/patch.diff to /repo, confirm the demo fails with it and passes
without it, run the property's quick check, undo.  Prints one line per seed."""
import json, os, subprocess, sys, time
VERIF = os.path.dirname(os.path.dirname(os.path.abspath(__file__)))
def sh(cmd, **kw):
    return subprocess.run(cmd, shell=True, capture_output=True, text=True, **kw)
names = sys.argv[1:] or sorted(os.listdir(os.path.join(VERIF, "seeded")))
for nme in names:
    d = os.path.join(VERIF, "seeded", nme)
    prop = nme.split("_")[0]
    if sh("git -C /repo status --porcelain --untracked-files=no").stdout.strip():
        print("repo dirty, abort"); sys.exit(2)
    demo0 = sh(f"cd /repo && /venv/bin/python {d}/demo.py", timeout=600).returncode
    ap = sh(f"git -C /repo apply {d}/patch.diff")
    if ap.returncode != 0:
        print(f"{nme}: patch does not apply: {ap.stderr.strip()[:200]}"); continue
    try:
        demo1 = sh(f"cd /repo && /venv/bin/python {d}/demo.py", timeout=600).returncode
        t = time.time()
        chk = sh(f"cd {VERIF} && python3-vt check.py {prop} --tier quick", timeout=3000)
        dt = time.time() - t
        viol = [l for l in chk.stdout.splitlines() if l.startswith("VIOLATION")]
        what = [l.strip() for l in chk.stdout.splitlines() if l.startswith("   ")][:3]
    finally:
        sh("git -C /repo checkout -- .")
    print(f"{nme}: demo without={demo0} with={demo1} | check exit={chk.returncode} violations={len(viol)} ({dt:.0f}s) {what[:2]}")
    meta = {"property": prop, "patch": "patch.diff", "demo": "demo.py", "demo_exit_without_patch": demo0, "demo_exit_with_patch": demo1,
            "check_quick_exit_with_patch": chk.returncode, "violation_lines": viol[:5], "first_reports": what}
    mp = os.path.join(d, "meta.json")
    old = json.load(open(mp)) if os.path.exists(mp) else {}
    old.update(meta)
    json.dump(old, open(mp, "w"), indent=1)
