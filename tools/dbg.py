#!/usr/bin/env python3-vt
"""debug: tools/dbg.py <qualname> [obligation-substring] -- print failing obligations with their path conditions"""
import sys, os
sys.path.insert(0, os.path.dirname(os.path.dirname(os.path.abspath(__file__))))
import z3
from pyvc.run import build_registry
from pyvc.verifier import Engine
from pyvc.source import Repo
reg = build_registry(); eng = Engine(reg, Repo())
for q, c in reg.contracts.items():
    if c.inline: eng.inline_ok.add(q)
rep = eng.verify(sys.argv[1])
print(rep.status, rep.reason, "paths", rep.paths)
pat = sys.argv[2] if len(sys.argv) > 2 else ""
shown = 0
for ob in rep.obligations:
    if ob.kind == "canary": continue
    v = eng.discharge(ob, use_cvc5=False)
    if v != "unsat" and pat in ob.name and shown < int(os.environ.get("N", "1")):
        shown += 1
        print("=== ", ob.kind, ob.name, v, "path", "".join("T" if d else "F" for d in ob.path))
        for a in ob.pc: print("   PC:", str(z3.simplify(a))[:int(os.environ.get("W", "600"))])
        print("   GOAL:", str(z3.simplify(ob.goal))[:1500])
