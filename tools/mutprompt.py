#!/usr/bin/env python3
"""Print the prompt given to an independent mutation sub-agent for one property (property text only)."""
import json, sys
pid, wt = sys.argv[1], sys.argv[2]
n = sys.argv[3] if len(sys.argv) > 3 else "2"
p = next(json.loads(l) for l in open('/verif/properties.jsonl') if json.loads(l)['id'] == pid)
print(f"""You are helping test a verification effort by acting as an independent "mutation author". Work ONLY inside the scratch git worktree {wt} (a checkout of the Python project alexpdev/torrentfile: a CLI/library that creates, edits, rechecks and rebuilds BitTorrent v1/v2/hybrid metafiles). Do NOT read or touch /repo or /verif. Do not commit anything.

Property {pid}: {p['title']}
Statement: {p['statement']}
Quantified over: {p['quantifier']['text']}

Task: produce {n} DIFFERENT, independent source changes to the package under {wt}/torrentfile/ (each one a separate small patch against the pristine worktree) that each BREAK this property while the project still imports and its whole existing test suite still passes. Prefer changes that need something specific to manifest — an unusual input (boundary sizes, particular file layouts, particular option combinations), a multi-step sequence of operations, a fault at a particular point, or two cooperating sites that each look fine alone — rather than changes that ordinary use would expose at once. They must look like plausible developer slips/refactors, not sabotage with magic constants. Do not edit the tests. The property must genuinely hold (for the inputs your demonstration uses) on the pristine code and genuinely fail with your change.

For each change k = 1..{n}:
 1. make the edit in the worktree; run the full suite: cd {wt} && /venv/bin/python -m pytest -q -p no:cacheprovider -x --timeout=900   (running from the worktree root imports the worktree's copy of the package; verify with /venv/bin/python -c "import torrentfile; print(torrentfile.__file__)" from that directory). All tests must pass.
 2. write a small standalone demonstration script {wt}/demo_{pid}_k.py (run as: cd {wt} && /venv/bin/python demo_{pid}_k.py) that exits 0 when the property holds on its inputs and exits 1 (printing what went wrong) when it is violated; it must use only the standard library, pyben and the torrentfile package, create its inputs in a fresh tempfile.mkdtemp() directory and clean up. It must exit 1 WITH the change and exit 0 WITHOUT it (check both: NEVER use git stash (the stash is shared between worktrees); use `git diff -- torrentfile > file; git checkout -- torrentfile; ...; git apply file`).
 3. save the patch: cd {wt} && git diff -- torrentfile > {wt}/patch_{pid}_k.diff ; then restore the pristine tree (git checkout -- torrentfile) before starting the next change.
At the end the worktree's tracked files must be pristine (git status shows only the untracked patch_*.diff and demo_*.py files).

Final answer: for each change give the patch file name, the demo file name, one paragraph on what the change does, and exactly what it needs in order to manifest (which inputs / sequence), plus the test-suite result line you observed with the change applied and the demo exit codes with and without it. If you could not produce a change that satisfies all conditions, say so plainly rather than handing in one that does not.""")
