#!/bin/bash
# run every claimed check (quick tier) and summarise; usage: tools/runall.sh [tier]
cd "$(dirname "$0")/.."
tier=${1:-quick}
for p in $(python3 -c "import json; print(' '.join(c['property_id'] for c in json.load(open('MANIFEST.json'))['checks']))"); do
  start=$(date +%s)
  out=$(timeout 7200 python3-vt check.py $p --tier $tier 2>&1); code=$?
  echo "$p exit=$code $(( $(date +%s) - start ))s | $(echo "$out" | grep -E '^property|VIOLATION|KNOWN-FINDING|CHECKER-FAULT' | head -4 | tr '\n' ' ' | cut -c1-330)"
done
