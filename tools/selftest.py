#!/usr/bin/env python3-vt
"""setup_cmd: engine self-test (imports, z3 version, one trivial proof and one trivial refutation)."""
import os, sys
sys.path.insert(0, os.path.dirname(os.path.dirname(os.path.abspath(__file__))))
import z3
from pyvc.run import verify_functions
r = verify_functions(["torrentfile.utils.get_piece_length"], procs=1)[0]
assert r["status"] == "ok", r
obs = [o for o in r["obligations"] if o["kind"] != "canary"]
assert obs and all(o["verdict"] == "unsat" for o in obs), [o for o in obs if o["verdict"] != "unsat"]
assert all(o["verdict"] == "sat" for o in r["obligations"] if o["kind"] == "canary")
print("selftest ok: z3", z3.get_version_string(), "-", len(obs), "obligations discharged, canaries refuted")
