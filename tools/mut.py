#!/usr/bin/env python3-vt
"""tools/mut.py <qualname> <module> <old> <new> : verify one function under an in-memory mutant; prints refuted obligations"""
import sys, os
sys.path.insert(0, os.path.dirname(os.path.dirname(os.path.abspath(__file__))))
from pyvc.run import verify_functions
q, mod, old, new = sys.argv[1:5]
r = verify_functions([q], procs=1, mutate=(mod, old, new))[0]
print(r["status"], r["reason"] or "")
bad = [o for o in r["obligations"] if o["kind"] != "canary" and o["verdict"] != "unsat"]
for o in bad[:8]:
    print("  ", o["verdict"], o["kind"], o["name"], o["path"])
print("REFUTED" if any(o["verdict"] == "sat" for o in bad) else ("UNDECIDED" if bad or r["status"] != "ok" else "SURVIVED"))
