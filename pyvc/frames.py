"""Frame checker (DESIGN.md C14 / C18): 'nothing else touches the file system'.

For a set of root functions it walks the call graph *of the real source*, function by function, and classifies every
call site:   repo function (descend)  |  effect-free external / builtin method  |  file-system effect  |  unresolved.
One obligation per call site; an effect or an unresolved call that the plan does not allow is a refuted obligation.
Functions that carry a symbolic `fs_modifies` contract are *stops*: the walk does not descend into them, their effects are
verified against their own frame by the symbolic engine.

This is a syntactic proof over the resolved call graph (dynamic dispatch over-approximated by method name); values are not
tracked here.  Assumptions are listed in ASSUMPTIONS and copied into the evidence.
"""
import ast

ASSUMPTIONS = [
    "frame checker: dynamic dispatch is over-approximated by method name across all repository classes",
    "frame checker: observer callbacks (cb, _hook, hook, func passed to set_callback) and progress-bar objects are effect-free on the file system",
    "frame checker: the listed externals (os.path.*, hashlib, pyben.load/loads/dumps, logging stream handlers, argparse, "
    "configparser.read, sys.stdout) do not create, modify or delete files",
]

PURE_EXTERNAL_PREFIXES = (
    "os.path.", "math.", "hashlib.", "datetime.", "platform.", "ctypes.", "argparse.", "configparser.", "urllib.", "time.",
    "typing.", "collections.", "itertools.", "functools.", "string.", "re.", "textwrap.", "copy.", "json.",
)
PURE_EXTERNALS = {
    "os.getcwd", "os.listdir", "os.sep", "os.environ", "os.fspath", "os.scandir", "os.walk", "os.stat", "os.get_terminal_size",
    "pyben.load", "pyben.loads", "pyben.dumps", "pyben.tojson",
    "logging.getLogger", "logging.StreamHandler", "logging.Formatter", "logging.basicConfig", "logging.log", "logging.debug",
    "logging.info", "logging.warning", "logging.error",
    "sys.stdout.write", "sys.stdout.flush", "sys.stderr.write", "sys.exit", "sys.argv",
    "shutil.get_terminal_size", "io.StringIO", "io.BytesIO", "pathlib.Path", "pathlib.Path.home", "pathlib.Path.cwd",
    "hashlib.sha1", "hashlib.sha256",
}
PURE_BUILTINS = {
    "len", "int", "str", "bytes", "bytearray", "list", "dict", "tuple", "set", "range", "enumerate", "zip", "min", "max", "sum",
    "sorted", "isinstance", "print", "next", "iter", "vars", "hasattr", "getattr", "abs", "any", "all", "bool", "float", "super",
    "repr", "reversed", "map", "filter", "type", "round", "divmod", "format", "id", "callable", "issubclass", "input", "ord", "chr",
    "frozenset", "object", "staticmethod", "classmethod", "property", "setattr", "memoryview", "hash", "slice", "pow",
    "Exception", "ValueError", "TypeError", "KeyError", "IndexError", "StopIteration", "FileNotFoundError", "FileExistsError",
    "PermissionError", "OSError", "NotImplementedError", "RuntimeError", "AttributeError", "SystemExit", "BaseException",
}
EFFECT_EXTERNALS = {
    "open", "os.remove", "os.unlink", "os.rename", "os.replace", "os.mkdir", "os.makedirs", "os.rmdir", "os.removedirs", "os.link",
    "os.symlink", "os.truncate", "os.write", "os.chmod", "os.chown", "os.utime", "os.fdopen", "os.open", "os.system", "os.mkfifo",
    "os.popen", "shutil.copy", "shutil.copy2", "shutil.copyfile", "shutil.copyfileobj", "shutil.copytree", "shutil.move",
    "shutil.rmtree", "shutil.copymode", "shutil.copystat", "shutil.chown", "shutil.make_archive", "pyben.dump",
    "tempfile.mkstemp", "tempfile.mkdtemp", "tempfile.NamedTemporaryFile", "tempfile.TemporaryFile", "tempfile.TemporaryDirectory",
    "logging.FileHandler", "io.open", "io.FileIO", "builtins.open",
}
EFFECT_PREFIXES = ("subprocess.", "logging.handlers.", "multiprocessing.", "socket.", "pickle.dump", "shelve.", "sqlite3.", "zipfile.", "tarfile.")
# methods on receivers of unknown type
EFFECT_METHODS = {"write_text", "write_bytes", "touch", "mkdir", "unlink", "rename", "replace", "rmdir", "symlink_to", "hardlink_to",
                  "link_to", "chmod", "truncate", "writelines", "open"}
WRITE_METHODS = {"write"}          # effect unless the receiver is a known stream (sys.stdout / StringIO)
PURE_METHODS = {
    "append", "extend", "items", "keys", "values", "get", "setdefault", "update", "pop", "add", "insert", "remove", "clear", "sort",
    "copy", "index", "count", "split", "rsplit", "join", "lower", "upper", "title", "strip", "lstrip", "rstrip", "startswith",
    "endswith", "isnumeric", "isdigit", "isdecimal", "encode", "decode", "format", "replace_", "find", "ljust", "rjust", "center",
    "digest", "hexdigest", "readinto", "read", "seek", "tell", "close", "flush", "fileno", "readline", "readlines",
    "is_file", "is_dir", "exists", "iterdir", "resolve", "absolute", "relative_to", "with_suffix", "joinpath", "as_posix",
    "glob", "rglob", "stat", "parts", "parent", "name", "stem", "home", "cwd", "expanduser", "samefile", "is_absolute",
    "add_argument", "add_subparsers", "add_parser", "set_defaults", "parse_args", "print_help", "print_usage", "format_help",
    "setFormatter", "setLevel", "addHandler", "debug", "info", "warning", "error", "log", "critical", "exception",
    "sections", "has_section", "has_option", "getboolean", "timestamp", "now", "total_seconds", "sub", "match", "search",
    "bit_length", "to_bytes", "from_bytes", "is_integer", "hex", "zfill", "partition", "rpartition", "splitlines", "casefold",
    "isalpha", "isspace", "isupper", "islower", "swapcase", "capitalize", "expandtabs", "translate", "maketrans", "union",
    "intersection", "difference", "issubset", "issuperset", "discard", "popitem", "fromkeys", "most_common", "elements",
    "getvalue", "isatty", "columns", "lines", "__len__", "__iter__", "__next__",
}
CALLBACK_NAMES = {"cb", "_hook", "hook", "func", "checker", "callback", "_cb"}
DROPPED_RECEIVERS = {"logger", "progbar", "prog_bar"}


class Finding:
    def __init__(self, func, callee, kind, line, detail=""):
        self.func, self.callee, self.kind, self.line, self.detail = func, callee, kind, line, detail

    def key(self):
        return f"{self.func}:frame:{self.kind}:{self.callee}"


def dotted(node):
    parts = []
    while isinstance(node, ast.Attribute):
        parts.append(node.attr)
        node = node.value
    if isinstance(node, ast.Name):
        parts.append(node.id)
        return list(reversed(parts))
    return None


def open_mode(call):
    """literal mode of an open(...) call: 'r' when omitted; None when not a literal"""
    mode = None
    if len(call.args) > 1:
        mode = call.args[1]
    for k in call.keywords:
        if k.arg == "mode":
            mode = k.value
    if mode is None:
        return "r"
    if isinstance(mode, ast.Constant) and isinstance(mode.value, str):
        return mode.value
    return None


class FrameChecker:
    def __init__(self, repo, stops=(), allow_effects=()):
        self.repo = repo
        self.stops = set(stops)
        self.allow = set(allow_effects)
        self.findings = []          # every classified call site
        self.visited = set()
        self.methods_by_name = {}
        for m in repo.modules.values():
            self._index_classes(m.classes)

    def _index_classes(self, classes):
        for ci in classes.values():
            for nme, fi in ci.methods.items():
                self.methods_by_name.setdefault(nme, []).append(fi)
            self._index_classes(ci.nested)

    def run(self, roots):
        work = []
        for r in roots:
            fi = self.repo.find(r)
            if fi is None:
                self.findings.append(Finding(r, r, "missing-root", 0))
                continue
            work.append(fi)
        while work:
            fi = work.pop()
            if fi.qualname in self.visited:
                continue
            self.visited.add(fi.qualname)
            if fi.qualname in self.stops:
                self.findings.append(Finding(fi.qualname, fi.qualname, "stop", fi.node.lineno, "verified by its own fs_modifies contract"))
                continue
            for callee in self.scan(fi):
                work.append(callee)
        return self.findings

    # ------------------------------------------------------------------------------------------
    def scan(self, fi):
        out = []
        mod = fi.module
        for node in ast.walk(fi.node):
            if not isinstance(node, ast.Call):
                continue
            f = node.func
            line = node.lineno
            if isinstance(f, ast.Name):
                nme = f.id
                if nme in mod.functions:
                    out.append(mod.functions[nme])
                    self.note(fi, mod.functions[nme].qualname, "repo", line)
                elif nme in mod.classes:
                    out.extend(self.class_entry(mod.classes[nme]))
                    self.note(fi, mod.classes[nme].qualname, "repo-class", line)
                elif nme in mod.imports:
                    origin = mod.imports[nme]
                    self.classify_origin(fi, origin, node, line, out)
                elif nme == "open":
                    self.classify_open(fi, node, line)
                elif nme in PURE_BUILTINS:
                    self.note(fi, nme, "pure-builtin", line)
                elif nme in CALLBACK_NAMES or self.is_local_callable(fi, nme):
                    self.resolve_local_callable(fi, nme, line, out)
                else:
                    self.note(fi, nme, "unresolved", line, "call of an unknown name")
            elif isinstance(f, ast.Attribute):
                d = dotted(f)
                if d is not None and d[0] in mod.imports and not self.is_local_name(fi, d[0]):
                    origin = mod.imports[d[0]] + ("." + ".".join(d[1:]) if len(d) > 1 else "")
                    self.classify_origin(fi, origin, node, line, out)
                    continue
                if d is not None and d[0] in DROPPED_RECEIVERS or (d is not None and len(d) >= 2 and d[0] == "self" and d[1] in DROPPED_RECEIVERS):
                    self.note(fi, ".".join(d), "dropped (logger / progress bar)", line)
                    continue
                if d is not None and d[0] in ("self", "cls") and len(d) == 2 and fi.cls is not None:
                    cands = self.method_candidates(fi.cls, d[1])
                    if cands:
                        out.extend(cands)
                        self.note(fi, "self." + d[1], "repo-method", line)
                        continue
                    nested = None
                    for c in self.repo.mro(fi.cls):
                        if d[1] in c.nested:
                            nested = c.nested[d[1]]
                            break
                    if nested is not None:
                        out.extend(self.class_entry(nested))
                        self.note(fi, "self." + d[1], "repo-class (nested)", line)
                        continue
                    if d[1] in CALLBACK_NAMES:
                        self.note(fi, "self." + d[1], "callback (assumed effect-free)", line)
                        continue
                if isinstance(f.value, ast.Call) and isinstance(f.value.func, ast.Name) and f.value.func.id == "super" and fi.cls is not None:
                    cands = [m for c in self.repo.mro(fi.cls)[1:] for m in ([c.methods[f.attr]] if f.attr in c.methods else [])]
                    out.extend(cands[:1])
                    self.note(fi, "super()." + f.attr, "repo-method" if cands else "pure-method", line)
                    continue
                self.classify_method(fi, f, node, line, out)
            else:
                self.note(fi, ast.unparse(f)[:40], "unresolved", line, "call of a computed callee")
        # `with open(...)` is covered by the Call walk above
        return out

    def is_local_name(self, fi, name):
        for n in ast.walk(fi.node):
            if isinstance(n, ast.Name) and n.id == name and isinstance(n.ctx, ast.Store):
                return True
        return name in fi.params()

    def is_local_callable(self, fi, name):
        return self.is_local_name(fi, name)

    def resolve_local_callable(self, fi, name, line, out):
        # a local variable holding a class / function of the repository (e.g. checker = self.piece_checker())
        cands = []
        for n in ast.walk(fi.node):
            if isinstance(n, ast.Assign) and any(isinstance(t, ast.Name) and t.id == name for t in n.targets):
                v = n.value
                if isinstance(v, ast.Call) and isinstance(v.func, ast.Attribute) and fi.cls is not None:
                    for m in self.method_candidates(fi.cls, v.func.attr):
                        for r in ast.walk(m.node):
                            if isinstance(r, ast.Return) and isinstance(r.value, ast.Name) and r.value.id in m.module.classes:
                                cands.extend(self.class_entry(m.module.classes[r.value.id]))
        if cands:
            out.extend(cands)
            self.note(fi, name, "repo-class (via local)", line)
        else:
            self.note(fi, name, "callback (assumed effect-free)", line)

    def class_entry(self, ci):
        """instantiating / iterating a class may run these methods"""
        out = []
        for c in self.repo.mro(ci):
            for nme in ("__init__", "__iter__", "__next__", "__call__", "__len__"):
                if nme in c.methods:
                    out.append(c.methods[nme])
        return out

    def method_candidates(self, ci, name):
        cands = []
        m = self.repo.lookup_method(ci, name)
        if m is not None:
            cands.append(m)
        # overrides in subclasses
        for fi in self.methods_by_name.get(name, []):
            if fi.cls is not None and fi not in cands and ci in self.repo.mro(fi.cls):
                cands.append(fi)
        return cands

    def classify_origin(self, fi, origin, node, line, out):
        if origin.startswith("torrentfile"):
            target = self.repo.find(origin)
            if target is not None:
                out.append(target)
                self.note(fi, origin, "repo", line)
                return
            ci = self.repo.find_class(origin)
            if ci is not None:
                out.extend(self.class_entry(ci))
                self.note(fi, origin, "repo-class", line)
                return
            # module attribute access like commands.create through a module alias
            parts = origin.split(".")
            for i in range(len(parts) - 1, 0, -1):
                mname = ".".join(parts[:i])
                if mname in self.repo.modules:
                    sub = self.repo.find(origin) or self.repo.find_class(origin)
                    break
            self.note(fi, origin, "unresolved", line, "repository name not found")
            return
        if origin in ("builtins.open", "io.open") or origin == "open":
            self.classify_open(fi, node, line)
            return
        if origin == "logging.basicConfig" and any(k.arg in ("filename", "handlers") for k in node.keywords):
            self.note(fi, origin, "effect", line, "logging to a file")
            return
        if origin in EFFECT_EXTERNALS or origin.startswith(EFFECT_PREFIXES):
            self.note(fi, origin, "effect", line)
            return
        if origin in PURE_EXTERNALS or origin.startswith(PURE_EXTERNAL_PREFIXES):
            self.note(fi, origin, "pure-external", line)
            return
        last = origin.split(".")[-1]
        if origin.startswith("pathlib.") or origin.startswith("sys.") or origin.startswith("logging."):
            if last in EFFECT_METHODS or last in WRITE_METHODS and not origin.startswith("sys.std"):
                self.note(fi, origin, "effect", line)
            elif last == "FileHandler":
                self.note(fi, origin, "effect", line)
            else:
                self.note(fi, origin, "pure-external", line)
            return
        if origin.startswith("os.") or origin.startswith("shutil.") or origin.startswith("tempfile.") or origin.startswith("pyben."):
            self.note(fi, origin, "unresolved", line, "external of an effectful module that is not in the table")
            return
        self.note(fi, origin, "unresolved", line, "unclassified external")

    def classify_open(self, fi, node, line):
        mode = open_mode(node)
        if mode is not None and set(mode) <= set("rbt"):
            self.note(fi, f"open(mode={mode!r})", "read-only-open", line)
        else:
            self.note(fi, f"open(mode={mode!r})", "effect", line, "file opened for writing / unknown mode")

    def local_repo_classes(self, fi, var):
        """repository classes a local variable is assigned an instance of (x = Cls(...))"""
        out = []
        mod = fi.module
        for n in ast.walk(fi.node):
            if isinstance(n, ast.Assign) and any(isinstance(t, ast.Name) and t.id == var for t in n.targets) \
                    and isinstance(n.value, ast.Call) and isinstance(n.value.func, ast.Name):
                cn = n.value.func.id
                ci = mod.classes.get(cn)
                if ci is None and cn in mod.imports and mod.imports[cn].startswith("torrentfile"):
                    ci = self.repo.find_class(mod.imports[cn])
                if ci is not None:
                    out.append(ci)
        return out

    def classify_method(self, fi, f, node, line, out):
        name = f.attr
        recv = ast.unparse(f.value)[:40]
        if isinstance(f.value, ast.Name):
            classes = self.local_repo_classes(fi, f.value.id)
            if classes:
                cands = [m for ci in classes for m in self.method_candidates(ci, name)]
                if cands:
                    out.extend(cands)
                    self.note(fi, f"{classes[0].qualname.split('.')[-1]}.{name}", "repo-method", line)
                    return
        if name == "replace" and len(node.args) >= 2:
            self.note(fi, "<str>.replace", "pure-method", line)     # str.replace(old, new); Path.replace takes one argument
            return
        if name in EFFECT_METHODS and not (name == "open" and False):
            if name == "open":
                mode = open_mode(ast.Call(func=f, args=[ast.Constant(value="_")] + list(node.args), keywords=node.keywords))
                if mode is not None and set(mode) <= set("rbt"):
                    self.note(fi, f"{recv}.open({mode})", "read-only-open", line)
                    return
            self.note(fi, f"<obj>.{name}", "effect", line, f"receiver {recv}")
            return
        if name in WRITE_METHODS:
            if recv in ("sys.stdout", "sys.stderr") or "StringIO" in recv:
                self.note(fi, f"{recv}.{name}", "pure-external", line)
            else:
                self.note(fi, f"<obj>.{name}", "effect", line, f"write on receiver {recv}")
            return
        cands = self.methods_by_name.get(name, [])
        if cands and name not in ("get", "update", "append", "add", "items", "keys", "values", "pop", "index", "count", "copy", "close",
                                  "read", "write", "split", "join", "format"):
            out.extend(cands)
            self.note(fi, f"<obj>.{name}", "repo-method (by name)", line)
            return
        if name in PURE_METHODS:
            self.note(fi, f"<obj>.{name}", "pure-method", line)
            return
        if name in CALLBACK_NAMES:
            self.note(fi, f"<obj>.{name}", "callback (assumed effect-free)", line)
            return
        self.note(fi, f"<obj>.{name}", "unresolved", line, f"unknown method on receiver {recv}")

    def note(self, fi, callee, kind, line, detail=""):
        self.findings.append(Finding(fi.qualname, callee, kind, line, detail))


def check_frame(repo, roots, stops=(), allow=()):
    """returns (obligations, assumptions).  obligation = dict(name, verdict 'unsat'|'sat', detail)"""
    fc = FrameChecker(repo, stops)
    fs = fc.run(roots)
    obs = []
    seen = set()
    for f in fs:
        k = f.key()
        if k in seen:
            continue
        seen.add(k)
        bad = f.kind in ("effect", "unresolved", "missing-root") and k not in allow and f"{f.func}->{f.callee}" not in allow
        obs.append({"name": k, "kind": "fs-frame(call-graph)", "verdict": "sat" if bad else "unsat", "backend": "frame-checker",
                    "time": 0.0, "detail": f"{f.kind} at line {f.line} {f.detail}", "func": f.func, "model": None,
                    "path": "", "goal": f"call {f.callee} in {f.func} has no file-system effect", "note": f"line {f.line}"})
    return obs, list(ASSUMPTIONS), sorted(fc.visited)
