"""Symbolic value representation.

Native typed values (VInt, VStr, ...) are used wherever the type is known; a
universal algebraic datatype PV ("python value") is used for the contents of
containers and for values whose type is only known through the path condition
(VBox).  Mutable objects live in a heap and are referenced through VRef, so
aliasing created by the code itself (info = meta["info"]) is modelled.
"""
import z3

I = z3.IntSort()
B = z3.BoolSort()
R = z3.RealSort()
S = z3.StringSort()
BYTES = z3.SeqSort(I)


def _mk_key():
    K = z3.Datatype("KEY")
    K.declare("KStr", ("ks", S))
    K.declare("KInt", ("ki", I))
    K.declare("KBytes", ("kb", BYTES))
    K.declare("KOther", ("ko", I))
    return K.create()


KEY = _mk_key()
KEYSEQ = z3.SeqSort(KEY)


def _mk_pv():
    PV = z3.Datatype("PV")
    ref = z3.DatatypeSort("PV")
    PV.declare("PInt", ("ival", I))
    PV.declare("PBool", ("bval", B))
    PV.declare("PStr", ("sval", S))
    PV.declare("PBytes", ("yval", BYTES))
    PV.declare("PFloat", ("fval", R))
    PV.declare("PNone")
    PV.declare("PList", ("items", z3.SeqSort(ref)))
    PV.declare("PTuple", ("titems", z3.SeqSort(ref)))
    PV.declare("PDict", ("dkeys", KEYSEQ), ("dhas", z3.ArraySort(KEY, B)), ("dmap", z3.ArraySort(KEY, ref)))
    PV.declare("PRef", ("rid", I))
    return PV.create()


PV = _mk_pv()
PVSEQ = z3.SeqSort(PV)


class Val:
    kind = "?"

    def __repr__(self):
        t = getattr(self, "t", None)
        return f"{self.kind}({t})" if t is not None else self.kind


class VInt(Val):
    kind = "int"

    def __init__(self, t):
        self.t = z3.IntVal(t) if isinstance(t, int) else t


class VBool(Val):
    kind = "bool"

    def __init__(self, t):
        self.t = z3.BoolVal(t) if isinstance(t, bool) else t


class VStr(Val):
    kind = "str"

    def __init__(self, t):
        self.t = z3.StringVal(t) if isinstance(t, str) else t


class VBytes(Val):
    kind = "bytes"

    def __init__(self, t):
        if isinstance(t, (bytes, bytearray)):
            t = const_bytes(t)
        self.t = t


class VFloat(Val):
    """Python float read as an exact real (assumption 'float-as-exact-rational', DESIGN 3.3-2)."""
    kind = "float"

    def __init__(self, t):
        self.t = z3.RealVal(t) if isinstance(t, (int, float)) else t


class VNone(Val):
    kind = "none"


class VTuple(Val):
    kind = "tuple"

    def __init__(self, items):
        self.items = list(items)

    def __repr__(self):
        return f"tuple{self.items}"


class VBox(Val):
    """A value of statically unknown type, as a PV term."""
    kind = "box"

    def __init__(self, t):
        self.t = t


class VRef(Val):
    kind = "ref"

    def __init__(self, rid):
        self.rid = rid

    def __repr__(self):
        return f"ref#{self.rid}"


class VClass(Val):
    kind = "class"

    def __init__(self, name, info=None):
        self.name = name      # qualified (repo) or builtin name
        self.info = info      # ClassInfo for repo classes

    def __repr__(self):
        return f"class<{self.name}>"


class VFunc(Val):
    kind = "func"

    def __init__(self, info, bound=None):
        self.info = info
        self.bound = bound

    def __repr__(self):
        return f"func<{self.info.qualname}>"


class VModule(Val):
    kind = "module"

    def __init__(self, name):
        self.name = name

    def __repr__(self):
        return f"module<{self.name}>"


class VBuiltin(Val):
    kind = "builtin"

    def __init__(self, name, bound=None):
        self.name = name
        self.bound = bound

    def __repr__(self):
        return f"builtin<{self.name}>"


class VRange(Val):
    kind = "range"

    def __init__(self, start, stop):
        self.start, self.stop = start, stop


class VExc(Val):
    """An exception instance."""
    kind = "exc"

    def __init__(self, cls, args=()):
        self.cls = cls
        self.args = list(args)

    def __repr__(self):
        return f"exc<{self.cls}>"


# ---------------------------------------------------------------- heap objects

class HObj:
    def __init__(self, cls, fields=None):
        self.cls = cls            # ClassInfo or str
        self.fields = dict(fields or {})
        self.ns_dict = None       # argparse.Namespace: VRef of the dict holding the attributes

    def clone(self):
        c = HObj(self.cls, self.fields)
        c.ns_dict = self.ns_dict
        return c


class HBytes:
    """bytearray.  `length` (optional Int term) is the length when it is tracked outside the sequence theory: z3 unfolds
    sequence variables of a large concrete length (16384 ...) element by element, so such lengths are never asserted on the term"""

    def __init__(self, t, length=None):
        self.t = t
        self.length = length

    def clone(self):
        return HBytes(self.t, self.length)


class HList:
    """items: python list of Val (concrete length)  |  seq: z3 Seq(PV)  |  rule: (length term, idx->Val)"""

    def __init__(self, items=None, seq=None, rule=None):
        self.items = list(items) if items is not None else None
        self.seq = seq
        self.rule = rule
        if items is None and seq is None and rule is None:
            self.items = []
        self.tag = {}

    def clone(self):
        c = HList(self.items, self.seq, self.rule)
        c.tag = dict(self.tag)
        return c


DELETED = object()
MISSING = object()      # leaf of a conditional entry: "no override here, fall through to the symbolic base"


class Cond:
    """conditional override entry of an HDict produced by state merging: if c then a else b,
    a / b in {Val, DELETED, MISSING, Cond}"""

    def __init__(self, c, a, b):
        self.c, self.a, self.b = c, a, b

    def leaves(self, pre=None):
        out = []
        for cond, e in ((self.c, self.a), (z3.Not(self.c), self.b)):
            cc = cond if pre is None else z3.And(pre, cond)
            if isinstance(e, Cond):
                out.extend(e.leaves(cc))
            else:
                out.append((cc, e))
        return out


class HDict:
    """over: ordered {python const key -> Val | DELETED}; sym: None | (keys Seq PV, has Array, map Array).
    With sym None the dict has exactly the keys of `over` (in that order)."""

    def __init__(self, over=None, sym=None):
        self.over = dict(over or {})
        self.sym = sym
        self.tag = {}

    def clone(self):
        c = HDict(self.over, self.sym)
        c.tag = dict(self.tag)
        return c


class HSet:
    def __init__(self, has):
        self.has = has            # Array(KEY, Bool)

    def clone(self):
        return HSet(self.has)


class HFile:
    """open file.  For read handles the state is `tail`: the bytes not read yet (a plain sequence variable, so that reads
    give word equations  tail == data ++ tail'  instead of seq.extract terms, which z3 cannot handle)."""

    def __init__(self, path, content, pos, mode, closed=False, tail=None):
        self.path, self.content, self.pos, self.mode, self.closed = path, content, pos, mode, closed
        self.tail = tail if tail is not None else content
        # buffered writer: `base` = what the file held at the last flush, `pending` = bytes written since (None: nothing pending)
        self.base, self.pending = None, None

    def clone(self):
        h = HFile(self.path, self.content, self.pos, self.mode, self.closed, self.tail)
        h.base, h.pending = self.base, self.pending
        return h


class HHash:
    def __init__(self, algo, acc):
        self.algo, self.acc = algo, acc

    def clone(self):
        return HHash(self.algo, self.acc)


class HGen:
    """generator object / iterator with a protocol contract"""

    def __init__(self, **kw):
        self.__dict__.update(kw)

    def clone(self):
        return HGen(**self.__dict__)


def const_bytes(b):
    if len(b) == 0:
        return z3.Empty(BYTES)
    if len(b) == 1:
        return z3.Unit(z3.IntVal(b[0]))
    return z3.Concat(*[z3.Unit(z3.IntVal(x)) for x in b])


def seq_of(terms, sort=PVSEQ):
    terms = list(terms)
    if not terms:
        return z3.Empty(sort)
    if len(terms) == 1:
        return z3.Unit(terms[0])
    return z3.Concat(*[z3.Unit(t) for t in terms])


def key_of_const(c):
    """KEY term of a python constant dict key"""
    if isinstance(c, bool):
        raise TypeError("bool dict key")
    if isinstance(c, int):
        return KEY.KInt(z3.IntVal(c))
    if isinstance(c, str):
        return KEY.KStr(z3.StringVal(c))
    if isinstance(c, (bytes, bytearray)):
        return KEY.KBytes(const_bytes(c))
    raise TypeError(c)


def key_of_pv(t):
    """KEY term of a boxed value used as a dict key (str / int / bytes; anything else collapses to KOther)"""
    return z3.If(PV.is_PStr(t), KEY.KStr(PV.sval(t)),
           z3.If(PV.is_PInt(t), KEY.KInt(PV.ival(t)),
           z3.If(PV.is_PBytes(t), KEY.KBytes(PV.yval(t)), KEY.KOther(z3.IntVal(0)))))


def pv_of_key(k):
    return z3.If(KEY.is_KStr(k), PV.PStr(KEY.ks(k)),
           z3.If(KEY.is_KInt(k), PV.PInt(KEY.ki(k)),
           z3.If(KEY.is_KBytes(k), PV.PBytes(KEY.kb(k)), PV.PNone)))


def pv_of_const(c):
    """PV term of a python constant (used for dict keys etc.)."""
    if isinstance(c, bool):
        return PV.PBool(z3.BoolVal(c))
    if isinstance(c, int):
        return PV.PInt(z3.IntVal(c))
    if isinstance(c, str):
        return PV.PStr(z3.StringVal(c))
    if isinstance(c, (bytes, bytearray)):
        return PV.PBytes(const_bytes(c))
    if c is None:
        return PV.PNone
    raise TypeError(c)
