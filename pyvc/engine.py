"""Symbolic executor / VC generator (DESIGN.md section 3).

Path enumeration is by re-execution along a recorded prefix of branch
decisions: the evaluator is a plain recursive interpreter over the real AST
whose only source of nondeterminism is Path.branch().  Loops are cut by the
sidecar invariant, calls are replaced by the callee's contract.
"""
import ast
import copy
import time
import z3

from .values import *  # noqa: F401,F403
from . import values as V


class Unsupported(Exception):
    """construct outside the verified subset: the function is undecided (never a violation)"""


class ContractError(Exception):
    """the contract does not bind to the current code (renamed local, missing loop ...): undecided"""


def guarded_check(solver, ms):
    """solver.check() with a hard wall-clock stop (z3's own timeout is not honoured inside some sequence-solver loops):
    a watchdog thread interrupts the context; an interrupted check is `unknown`"""
    import threading
    timer = threading.Timer(ms / 1000.0 * 1.5 + 2.0, solver.ctx.interrupt)
    timer.daemon = True
    timer.start()
    try:
        return solver.check()
    except z3.Z3Exception:
        return z3.unknown
    finally:
        timer.cancel()


def forked_check(solver, ms):
    """solver.check() in a forked child that is killed at the deadline: the only stop that works when z3 spins inside the
    sequence solver (neither timeout, rlimit nor Z3_interrupt is honoured there).  No model is available afterwards; a killed
    check is `unknown`.  Used for the feasibility / entailment questions asked while executing symbolically."""
    import os
    import select
    import signal
    import time as _t
    r, w = os.pipe()
    pid = os.fork()
    if pid == 0:
        try:
            os.close(r)
            res = solver.check()
            os.write(w, b"s" if res == z3.sat else (b"u" if res == z3.unsat else b"?"))
        except BaseException:      # noqa: BLE001
            pass
        finally:
            os._exit(0)
    os.close(w)
    out = b""
    deadline = _t.time() + ms / 1000.0 * 1.5 + 1.0
    while True:
        left = deadline - _t.time()
        if left <= 0:
            break
        ready, _, _ = select.select([r], [], [], left)
        if ready:
            out = os.read(r, 1)
            break
    os.close(r)
    if not out:
        try:
            os.kill(pid, signal.SIGKILL)
        except OSError:
            pass
    try:
        os.waitpid(pid, 0)
    except OSError:
        pass
    return {b"s": z3.sat, b"u": z3.unsat}.get(out, z3.unknown)


class _NullSolver:
    """stands in for the path solver while a throw-away evaluation runs: nothing is asserted, nothing is decided"""
    def add(self, *a):
        pass

    def push(self):
        pass

    def pop(self, *a):
        pass

    def check(self, *a):
        return z3.unknown


class PathEnd(Exception):
    """this path stops here (infeasible, or cut after a loop body)"""


class PyRaise(Exception):
    def __init__(self, exc):
        super().__init__(exc.cls)
        self.exc = exc


class CtlReturn(Exception):
    def __init__(self, val):
        self.val = val


class CtlBreak(Exception):
    pass


class CtlContinue(Exception):
    pass


BUILTIN_EXC_BASES = {
    "BaseException": None, "Exception": "BaseException", "LookupError": "Exception", "KeyError": "LookupError",
    "IndexError": "LookupError", "ValueError": "Exception", "TypeError": "Exception", "ArithmeticError": "Exception",
    "ZeroDivisionError": "ArithmeticError", "OverflowError": "ArithmeticError", "StopIteration": "Exception",
    "OSError": "Exception", "FileNotFoundError": "OSError", "FileExistsError": "OSError",
    "PermissionError": "OSError", "IsADirectoryError": "OSError", "NotADirectoryError": "OSError",
    "AttributeError": "Exception", "NotImplementedError": "RuntimeError", "RuntimeError": "Exception",
    "AssertionError": "Exception", "UnicodeDecodeError": "ValueError", "KeyboardInterrupt": "BaseException",
    "SystemExit": "BaseException", "configparser.Error": "Exception",
}


class Obligation:
    def __init__(self, name, kind, props, pc, goal, func, loc=None, note=None):
        self.name, self.kind, self.props = name, kind, list(props or [])
        self.pc, self.goal, self.func, self.loc, self.note = list(pc), goal, func, loc, note
        self.verdict = None      # 'unsat' (discharged) | 'sat' (refuted) | 'unknown'
        self.backend = None
        self.time = 0.0
        self.model = None
        self.path = None

    def key(self):
        return f"{self.func}:{self.kind}:{self.name}"


class Contract:
    def __init__(self, target, **kw):
        self.target = target
        self.params = kw.pop("params", {})
        self.variants = kw.pop("variants", None)       # list of param-type overrides
        self.requires = kw.pop("requires", [])
        self.ensures = kw.pop("ensures", [])           # [(props, label, expr)]
        self.raises = kw.pop("raises", {})             # excname -> dict(when=expr|None, ensures=[(props,label,expr)])
        self.raises_props = kw.pop("raises_props", []) # props served by 'no other exception'
        self.loops = kw.pop("loops", {})
        self.returns = kw.pop("returns", None)         # type of result for callers
        self.modifies = kw.pop("modifies", [])         # e.g. ["self.index", "arr"]
        self.ghost = kw.pop("ghost", {})               # universally quantified ghost constants name->type
        self.props = kw.pop("props", [])
        self.inline = kw.pop("inline", False)
        self.pure = kw.pop("pure", False)
        self.lemmas = kw.pop("lemmas", [])
        self.setup = kw.pop("setup", None)             # python callable(path, env) for ghost state
        self.notes = kw.pop("notes", "")
        self.fs_modifies = kw.pop("fs_modifies", None)
        self.extra = kw
        self.file = None

    def all_ensures(self, variant=0):
        ve = self.extra.get("variant_ensures")
        return list(self.ensures) + (list(ve[variant]) if ve else [])

    @staticmethod
    def raise_ensures(spec, variant=0):
        ve = spec.get("variant_ensures")
        return list(spec.get("ensures", [])) + (list(ve[variant]) if ve else [])

    def select_variant(self, path, bound):
        """which variant (param-type alternative) matches the actual argument kinds at a call site"""
        if not self.variants:
            return 0
        kinds = {"int": ("int", "bool"), "str": ("str",), "none": ("none",), "bytes": ("bytes",), "bool": ("bool",)}
        for vi, var in enumerate(self.variants):
            ok = True
            for nme, typ in var.items():
                if nme.startswith("_") or nme not in bound:
                    continue
                if isinstance(typ, dict):
                    # object shape: the classes of the argument and of its object-valued fields must be the declared ones
                    if not path.shape_matches(bound[nme], typ):
                        ok = False
                    continue
                if not isinstance(typ, str) or typ not in kinds:
                    continue
                if bound[nme].kind not in kinds[typ]:
                    ok = False
            if ok:
                return vi
        from .engine import Unsupported as U
        raise U("no contract variant matches the argument kinds")


class Registry:
    def __init__(self):
        self.contracts = {}
        self.spec_funcs = {}        # name -> callable(path, *vals) (symbolic reading)
        self.externals = {}         # dotted name -> callable(path, args, kwargs) model of an external function
        self.methods = {}           # (kind, name) -> callable(path, recv, args, kwargs)
        self.assumptions = []       # strings, collected for evidence

    def contract(self, target, **kw):
        c = Contract(target, **kw)
        self.contracts[target] = c
        return c


# ---------------------------------------------------------------------------

class Path:
    """One symbolic execution along a decision prefix."""

    def __init__(self, engine, decisions):
        self.engine = engine
        self.reg = engine.reg
        self.repo = engine.repo
        self.decisions = list(decisions)
        self.dpos = 0
        self.pending = []
        self.pc = []
        self.solver = z3.Solver()
        self.solver.set("timeout", engine.feas_timeout_ms)
        # z3's sequence solver does not always honour the wall-clock timeout; the resource limit is checked more reliably
        self.solver.set("rlimit", engine.feas_rlimit)
        self.heap = {}
        self.next_ref = 1
        self.counter = {}
        self.obligations = []
        self.frames = []            # stack of env dicts
        self.func_stack = []
        self.events = []            # file-system / external effects
        self.ghost = {}
        self.pure = 0               # >0 while evaluating contract expressions
        self.trace = []
        self.old = None
        self.cur_func = None
        self.cur_contract = None
        self.assume_log = []
        self.free_bools = set()     # fresh Bool constants that do not occur in the path condition yet

    # -- basic services -----------------------------------------------------
    def path_check(self):
        """one feasibility / entailment question about the current path: in a forked child with a hard kill for the functions whose
        contract asks for it (fork_checks: z3 was seen spinning there), in-process with a watchdog otherwise"""
        if getattr(self.engine, "fork_checks", False):
            return forked_check(self.solver, 2000)
        return guarded_check(self.solver, 2000)

    def class_name(self, v):
        """qualified class name of a heap object, or None"""
        if not isinstance(v, VRef):
            return None
        h = self.heap.get(v.rid)
        if not isinstance(h, HObj):
            return None
        return h.cls if isinstance(h.cls, str) else getattr(h.cls, "qualname", None)

    def shape_matches(self, v, typ):
        """does the value have the declared object shape (class names of the object and of its object-valued fields)?"""
        if not isinstance(typ, dict):
            return True
        if typ.get("cls") and self.class_name(v) != typ["cls"]:
            return False
        h = self.heap.get(v.rid) if isinstance(v, VRef) else None
        for f, ft in typ.get("fields", {}).items():
            if isinstance(ft, dict) and ft.get("cls"):
                fv = h.fields.get(f) if isinstance(h, HObj) else None
                if fv is None or not self.shape_matches(fv, ft):
                    return False
        return True

    def fresh(self, name, sort):
        n = self.counter.get(name, 0)
        self.counter[name] = n + 1
        cst = z3.Const(f"{name}!{n}" if n else name, sort)
        if sort == B:
            self.free_bools.add(cst.get_id())
        return cst

    def alloc(self, hobj):
        rid = self.next_ref
        self.next_ref += 1
        self.heap[rid] = hobj
        return VRef(rid)

    def assume(self, c):
        if isinstance(c, bool):
            c = z3.BoolVal(c)
        c = z3.simplify(c)
        if z3.is_true(c):
            return
        self.pc.append(c)
        self.solver.add(c)

    def feasible(self, c):
        self.solver.push()
        self.solver.add(c)
        r = self.path_check() if not isinstance(self.solver, _NullSolver) else z3.unknown
        self.solver.pop()
        return r != z3.unsat

    def entails(self, c):
        """pc |= c ?  (False on unknown)"""
        c = z3.simplify(c)
        if z3.is_true(c):
            return True
        self.solver.push()
        self.solver.add(z3.Not(c))
        r = self.path_check() if not isinstance(self.solver, _NullSolver) else z3.unknown
        self.solver.pop()
        return r == z3.unsat

    def branch(self, c):
        if isinstance(c, bool):
            return c
        c = z3.simplify(c)
        if z3.is_true(c):
            return True
        if z3.is_false(c):
            return False
        if self.pure:
            raise Unsupported("branch inside pure contract expression")
        if getattr(self, "merging", 0):
            # inside a merge attempt only branches decided by the path condition are allowed
            if self.entails(c):
                return True
            if self.entails(z3.Not(c)):
                return False
            from .interp import MergeAbort
            raise MergeAbort()
        if self.dpos < len(self.decisions):
            d = self.decisions[self.dpos]
            self.dpos += 1
            self.free_bools.discard(c.get_id())
            self.assume(c if d else z3.Not(c))
            return d
        if z3.is_const(c) and c.get_id() in self.free_bools:
            self.free_bools.discard(c.get_id())
            t = f = True            # an unconstrained fresh Boolean: both outcomes are feasible
        else:
            t = self.feasible(c)
            f = self.feasible(z3.Not(c))
        if t and f:
            self.pending.append(self.decisions + [False])
            d = True
        elif t:
            d = True
        elif f:
            d = False
        else:
            raise PathEnd()
        self.decisions.append(d)
        self.dpos += 1
        self.assume(c if d else z3.Not(c))
        return d

    def oblige(self, name, kind, goal, props=None, note=None, loc=None):
        if isinstance(goal, bool):
            goal = z3.BoolVal(goal)
        ob = Obligation(name, kind, props or [], self.pc, goal, self.cur_func or "?", loc=loc, note=note)
        ob.path = list(self.decisions[:self.dpos])
        self.obligations.append(ob)
        return ob

    # -- environment ----------------------------------------------------------
    @property
    def env(self):
        return self.frames[-1]

    def snapshot(self):
        return (dict(self.env), {k: v.clone() for k, v in self.heap.items()})

    # -- value helpers --------------------------------------------------------
    def deref(self, v):
        if isinstance(v, VRef):
            return self.heap[v.rid]
        return None

    def truth(self, v):
        """z3 Bool term for Python truthiness"""
        if isinstance(v, VBool):
            return v.t
        if isinstance(v, VInt):
            return v.t != 0
        if isinstance(v, VFloat):
            return v.t != 0
        if isinstance(v, VStr):
            return z3.Length(v.t) > 0
        if isinstance(v, VBytes):
            return z3.Length(v.t) > 0
        if isinstance(v, VNone):
            return z3.BoolVal(False)
        if isinstance(v, VTuple):
            return z3.BoolVal(len(v.items) > 0)
        if isinstance(v, (VClass, VFunc, VBuiltin, VModule, VExc)):
            return z3.BoolVal(True)
        if isinstance(v, VBox):
            t = v.t
            return z3.If(PV.is_PBool(t), PV.bval(t),
                   z3.If(PV.is_PInt(t), PV.ival(t) != 0,
                   z3.If(PV.is_PStr(t), z3.Length(PV.sval(t)) > 0,
                   z3.If(PV.is_PBytes(t), z3.Length(PV.yval(t)) > 0,
                   z3.If(PV.is_PNone(t), False,
                   z3.If(PV.is_PList(t), z3.Length(PV.items(t)) > 0,
                   z3.If(PV.is_PTuple(t), z3.Length(PV.titems(t)) > 0,
                   z3.If(PV.is_PDict(t), z3.Length(PV.dkeys(t)) > 0,
                   z3.If(PV.is_PFloat(t), PV.fval(t) != 0, True)))))))))
        if isinstance(v, VRef):
            h = self.heap[v.rid]
            if isinstance(h, HBytes):
                return z3.Length(h.t) > 0
            if isinstance(h, HList):
                return self.list_len(h) > 0
            if isinstance(h, HDict):
                if h.sym is None:
                    return z3.BoolVal(any(x is not DELETED for x in h.over.values()))
                raise Unsupported("truthiness of symbolic dict")
            return z3.BoolVal(True)
        if isinstance(v, VRange):
            return v.stop > v.start
        raise Unsupported(f"truthiness of {v!r}")

    def box(self, v):
        """PV term of a value (snapshot for heap objects)."""
        if isinstance(v, VBox):
            return v.t
        if isinstance(v, VInt):
            return PV.PInt(v.t)
        if isinstance(v, VBool):
            return PV.PBool(v.t)
        if isinstance(v, VStr):
            return PV.PStr(v.t)
        if isinstance(v, VBytes):
            return PV.PBytes(v.t)
        if isinstance(v, VFloat):
            return PV.PFloat(v.t)
        if isinstance(v, VNone):
            return PV.PNone
        if isinstance(v, VTuple):
            return PV.PTuple(seq_of([self.box(x) for x in v.items]))
        if isinstance(v, VRef):
            h = self.heap[v.rid]
            if isinstance(h, HBytes):
                return PV.PBytes(h.t)
            if isinstance(h, HList):
                return PV.PList(self.list_seq(h))
            if isinstance(h, HDict):
                return self.dict_term(h)
            if isinstance(h, HObj):
                return PV.PRef(z3.IntVal(v.rid))
            raise Unsupported(f"boxing heap object {type(h).__name__}")
        raise Unsupported(f"boxing {v!r}")

    def unbox(self, v, want=None):
        """Turn a VBox into a native value; the constructor is decided from the path condition
        (branching over the possibilities when it is not determined)."""
        if not isinstance(v, VBox):
            return v
        t = v.t
        order = [("int", PV.is_PInt), ("str", PV.is_PStr), ("bytes", PV.is_PBytes), ("none", PV.is_PNone),
                 ("bool", PV.is_PBool), ("list", PV.is_PList), ("dict", PV.is_PDict), ("tuple", PV.is_PTuple),
                 ("float", PV.is_PFloat), ("ref", PV.is_PRef)]
        if want:
            order = [o for o in order if o[0] == want] + [o for o in order if o[0] != want]
        for name, test in order:
            c = z3.simplify(test(t))
            if z3.is_false(c):
                continue
            if z3.is_true(c) or (not self.pure and self.entails(c)):
                return self._unbox_as(name, t)
        if self.pure:
            if want in (None, "dict"):
                # contract expressions read an undetermined boxed container as a dict (total accessor reading);
                # clauses guard such reads with is_dict(...)
                return self.alloc(HDict(sym=(PV.dkeys(t), PV.dhas(t), PV.dmap(t))))
            return self._unbox_as(want, t)
        for name, test in order:
            if self.branch(test(t)):
                return self._unbox_as(name, t)
        raise PathEnd()

    def _unbox_as(self, name, t):
        if name == "int":
            return VInt(PV.ival(t))
        if name == "str":
            return VStr(PV.sval(t))
        if name == "bytes":
            return VBytes(PV.yval(t))
        if name == "none":
            return VNone()
        if name == "bool":
            return VBool(PV.bval(t))
        if name == "float":
            return VFloat(PV.fval(t))
        if name == "list":
            return self.alloc(HList(seq=PV.items(t)))
        if name == "tuple":
            raise Unsupported("unboxing symbolic-length tuple")
        if name == "dict":
            return self.alloc(HDict(sym=(PV.dkeys(t), PV.dhas(t), PV.dmap(t))))
        if name == "ref":
            rid = z3.simplify(PV.rid(t))
            if z3.is_int_value(rid):
                return VRef(rid.as_long())
            raise Unsupported("symbolic object reference")
        raise Unsupported(name)

    # -- lists ------------------------------------------------------------------
    def list_len(self, h):
        if h.items is not None:
            return z3.IntVal(len(h.items))
        if h.seq is not None:
            return z3.Length(h.seq)
        return h.rule[0]

    def list_seq(self, h):
        if h.seq is not None:
            return h.seq
        if h.items is not None:
            return seq_of([self.box(x) for x in h.items])
        # rule-defined: materialise as a sequence constant.  Two rule-defined sequences with the same length term and the
        # same element term (at a shared placeholder index) are the same sequence, so they share one constant --
        # this is how a comprehension in the code and a map in a spec function become equal without quantifiers.
        n, rule = h.rule
        istar = z3.Const("i*", I)
        saved_pc = len(self.pc)
        real_solver = self.solver
        self.solver = _NullSolver()     # facts stated while reading the element at the placeholder index are discarded
        self.pure += 1              # element expressions are read totally here (their side conditions are checked on access)
        self.code_eval = getattr(self, "code_eval", 0) + 1      # ... but names resolve as in the code, not as spec functions
        try:
            elem = z3.simplify(self.box(rule(istar)))
        finally:
            self.code_eval -= 1
            self.pure -= 1
            self.solver = real_solver
            del self.pc[saved_pc:]
        if "i*" not in elem.sexpr():
            # constant element: the sequence is a function of (element, length) -- equal lengths give equal sequences by congruence
            s = self.engine.uf("const_seq", PV, I, PVSEQ)(elem, z3.simplify(n))
            self.assume(z3.Implies(n >= 0, z3.Length(s) == n))
            self.assume(z3.Implies(n <= 0, s == z3.Empty(PVSEQ)))
            self.assume(z3.Implies(n == 1, s == z3.Unit(elem)))
            h.seq = s
            h.rule_inst = rule
            return s
        key = (z3.simplify(n).sexpr(), elem.sexpr())
        memo = self.ghost.setdefault("defseq", {})
        if key in memo:
            s = memo[key]
        else:
            s = self.fresh("defseq", PVSEQ)
            memo[key] = s
            self.assume(z3.Length(s) == n)
            self.ghost.setdefault("defseq_rules", []).append((s, n, rule))
        h.seq = s
        h.rule_inst = rule
        return s

    def list_get(self, h, idx):
        """element at int term idx (already bounds-checked by caller)"""
        if h.items is not None:
            i = z3.simplify(idx)
            if z3.is_int_value(i):
                return h.items[i.as_long()]
            # symbolic index into concrete list: box and build ite chain
            terms = [self.box(x) for x in h.items]
            res = terms[-1]
            for k in range(len(terms) - 2, -1, -1):
                res = z3.If(idx == k, terms[k], res)
            return VBox(res)
        if h.rule is not None:
            v = h.rule[1](idx)
            if h.seq is not None:
                self.assume(h.seq[idx] == self.box(v))
            return v
        ef = h.tag.get("elem_fact")
        if ef is not None and h.seq is not None:
            self.assume(z3.Implies(z3.And(idx >= 0, idx < z3.Length(h.seq)), ef(idx)))
        et = h.tag.get("elem")
        if et:
            test = {"bytes": PV.is_PBytes, "str": PV.is_PStr, "int": PV.is_PInt}.get(et)
            if test is not None:
                self.assume(z3.Implies(z3.And(idx >= 0, idx < z3.Length(h.seq)), test(h.seq[idx])))
            if et == "digest":
                self.assume(z3.Implies(z3.And(idx >= 0, idx < z3.Length(h.seq)),
                                       z3.And(PV.is_PBytes(h.seq[idx]), z3.Length(PV.yval(h.seq[idx])) == 32)))
            if et in ("bytes", "digest"):
                return VBytes(PV.yval(h.seq[idx]))
            if et == "str":
                return VStr(PV.sval(h.seq[idx]))
            if et == "int":
                return VInt(PV.ival(h.seq[idx]))
        return VBox(h.seq[idx])

    # -- dicts --------------------------------------------------------------------
    def entry_parts(self, h, k, e):
        """(present: Bool term, value: PV term or None) of override entry e for constant key k"""
        kt = key_of_const(k)
        if e is DELETED:
            return z3.BoolVal(False), None
        if e is MISSING:
            if h.sym is None:
                return z3.BoolVal(False), None
            return z3.Select(h.sym[1], kt), z3.Select(h.sym[2], kt)
        if isinstance(e, Cond):
            pres, val = z3.BoolVal(False), None
            for cond, leaf in reversed(e.leaves()):
                lp, lv = self.entry_parts(h, k, leaf)
                pres = z3.If(cond, lp, pres)
                if lv is not None:
                    val = lv if val is None else z3.If(cond, lv, val)
            return z3.simplify(pres), val
        return z3.BoolVal(True), self.box(e)

    def dict_term(self, h):
        if h.sym is None:
            keys = []
            has = z3.K(KEY, z3.BoolVal(False))
            mp = z3.K(KEY, PV.PNone)
            for k, v in h.over.items():
                if v is DELETED:
                    continue
                if isinstance(v, Cond):
                    raise Unsupported("conditional entry in a concrete dict")
                kt = key_of_const(k)
                keys.append(kt)
                has = z3.Store(has, kt, True)
                mp = z3.Store(mp, kt, self.box(v))
            return PV.PDict(seq_of(keys, KEYSEQ), has, mp)
        keys, has, mp = h.sym
        for k, v in h.over.items():
            kt = key_of_const(k)
            self.assume(z3.Select(h.sym[1], kt) == self.engine.uf("key_in", KEYSEQ, KEY, B)(h.sym[0], kt))
            pres, val = self.entry_parts(h, k, v)
            if z3.is_false(pres):
                has = z3.Store(has, kt, False)
                keys = self.keys_remove(keys, kt)
            elif z3.is_true(pres):
                # key order: existing keys keep their position, new keys are appended (python dict semantics)
                keys = self.keys_add(keys, h.sym[1], kt)
                has = z3.Store(has, kt, True)
                mp = z3.Store(mp, kt, val)
            else:
                keys = z3.If(pres, self.keys_add(keys, h.sym[1], kt), self.keys_remove(keys, kt))
                has = z3.Store(has, kt, pres)
                if val is not None:
                    mp = z3.Store(mp, kt, val)
        return PV.PDict(keys, has, mp)

    def keys_add(self, keys, has0, kt):
        f = self.engine.uf("keys_add", KEYSEQ, KEY, KEYSEQ)
        t = f(keys, kt)
        self.engine.note_keys_term(self, t, "add", keys, kt)
        return t

    def keys_remove(self, keys, kt):
        f = self.engine.uf("keys_remove", KEYSEQ, KEY, KEYSEQ)
        t = f(keys, kt)
        self.engine.note_keys_term(self, t, "remove", keys, kt)
        return t

    def dict_has(self, h, key):
        """z3 Bool: key (Val) in dict"""
        ck = self.const_key(key)
        if ck is not None and ck in h.over:
            if isinstance(h.over[ck], Cond):
                return self.entry_parts(h, ck, h.over[ck])[0]
            return z3.BoolVal(h.over[ck] is not DELETED)
        if h.sym is None:
            if ck is not None:
                return z3.BoolVal(False)
            kt = self.key_term(key)
            return z3.Or([kt == key_of_const(k) for k, v in h.over.items() if v is not DELETED] + [z3.BoolVal(False)])
        kt = self.key_term(key)
        res = z3.Select(h.sym[1], kt)
        self.domain_fact(h, kt)
        if ck is None:
            for k, v in reversed(list(h.over.items())):
                res = z3.If(kt == key_of_const(k), self.entry_parts(h, k, v)[0], res)
        return res

    def domain_fact(self, h, kt):
        """ground instance of 'every key of this dict lies in its declared key domain'"""
        dom = h.tag.get("key_domain")
        if dom and h.sym is not None:
            self.assume(z3.Implies(z3.Select(h.sym[1], kt), z3.Or([kt == key_of_const(c) for c in dom])))

    def key_term(self, key):
        ck = self.const_key(key)
        if ck is not None:
            return key_of_const(ck)
        if isinstance(key, VStr):
            return KEY.KStr(key.t)
        if isinstance(key, VInt):
            return KEY.KInt(key.t)
        if isinstance(key, VBytes):
            return KEY.KBytes(key.t)
        if isinstance(key, VBox):
            return key_of_pv(key.t)
        if isinstance(key, VRef) and isinstance(self.heap[key.rid], HBytes):
            return KEY.KBytes(self.heap[key.rid].t)
        raise Unsupported(f"dict key {key!r}")

    def dict_get(self, h, key):
        """value for a key known to be present"""
        ck = self.const_key(key)
        if ck is not None and ck in h.over:
            v = h.over[ck]
            if v is DELETED:
                raise Unsupported("read of deleted key")
            if isinstance(v, Cond):
                pres, val = self.entry_parts(h, ck, v)
                return VBox(val if val is not None else PV.PNone)
            return v
        if ck is None:
            kt = self.key_term(key)
            if h.sym is None:
                live = [(k, v) for k, v in h.over.items() if v is not DELETED]
                if not live:
                    raise PathEnd()
                res = self.box(live[-1][1])
                for k, v in reversed(live[:-1]):
                    res = z3.If(kt == key_of_const(k), self.box(v), res)
                return VBox(res)
            res = z3.Select(h.sym[2], kt)
            for k, v in reversed(list(h.over.items())):
                if v is not DELETED:
                    val = self.entry_parts(h, k, v)[1]
                    if val is not None:
                        res = z3.If(kt == key_of_const(k), val, res)
            return VBox(res)
        if h.sym is None:
            if self.pure:
                # specification context: the value under an absent key is unspecified (a fresh unknown), so a clause that
                # depends on it cannot be proved, and a guarded clause (implies(k in d, d[k] == ..)) is unaffected
                return VBox(self.fresh("absent", PV))
            raise Unsupported("dict_get of absent key")
        kt = key_of_const(ck)
        val = VBox(z3.Select(h.sym[2], kt))
        # if the stored value is itself a container, materialise it once so that aliasing is kept
        t = val.t
        if self.pure:
            return val
        if self.entails(PV.is_PDict(t)):
            ref = self.alloc(HDict(sym=(PV.dkeys(t), PV.dhas(t), PV.dmap(t))))
            h.over[ck] = ref
            return ref
        if self.entails(PV.is_PList(t)):
            ref = self.alloc(HList(seq=PV.items(t)))
            h.over[ck] = ref
            return ref
        return val

    def dict_set(self, h, key, val):
        ck = self.const_key(key)
        if ck is not None:
            if h.sym is None and ck in h.over and h.over[ck] is DELETED:
                del h.over[ck]          # re-insertion goes to the end
            h.over[ck] = val
            return
        # symbolic key: fold everything into the symbolic part
        self.dict_fold(h)
        keys, has, mp = h.sym
        kt = self.key_term(key)
        h.sym = (self.keys_add(keys, has, kt), z3.Store(has, kt, True), z3.Store(mp, kt, self.box(val)))

    def dict_del(self, h, key):
        ck = self.const_key(key)
        if ck is not None:
            if h.sym is None:
                h.over.pop(ck, None)
            else:
                h.over[ck] = DELETED
            return
        self.dict_fold(h)
        keys, has, mp = h.sym
        kt = self.key_term(key)
        h.sym = (self.keys_remove(keys, kt), z3.Store(has, kt, False), mp)

    def dict_fold(self, h):
        t = self.dict_term(h)
        h.sym = (PV.dkeys(t), PV.dhas(t), PV.dmap(t))
        h.sym = tuple(z3.simplify(x) for x in h.sym)
        h.over = {}

    def const_key(self, key):
        if isinstance(key, VStr):
            t = z3.simplify(key.t)
            if z3.is_string_value(t):
                return t.as_string()
        if isinstance(key, VInt):
            t = z3.simplify(key.t)
            if z3.is_int_value(t):
                return t.as_long()
        if isinstance(key, VBox):
            t = z3.simplify(key.t)
            if z3.is_app(t) and t.decl().name() == "PStr" and z3.is_string_value(t.arg(0)):
                return t.arg(0).as_string()
            if z3.is_app(t) and t.decl().name() == "PInt" and z3.is_int_value(t.arg(0)):
                return t.arg(0).as_long()
        if isinstance(key, VBytes):
            t = z3.simplify(key.t)
            return None
        return None

    # -- exceptions -------------------------------------------------------------------
    def raise_(self, cls, *args):
        raise PyRaise(VExc(cls, args))

    def exc_matches(self, exc_cls, handler_cls):
        c = exc_cls
        seen = 0
        while c is not None and seen < 20:
            if c == handler_cls or c.split(".")[-1] == handler_cls.split(".")[-1]:
                return True
            c = self.engine.exc_base(c)
            seen += 1
        return False
