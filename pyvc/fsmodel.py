"""Ghost file-system model and the assumed contracts (level A) of the external functions that touch it
(DESIGN.md 5.1).  POSIX, no symlinks, single thread.

FS state:  kind : Array(String -> Int)   0 absent, 1 regular file, 2 directory
           data : Array(String -> Seq(Int))
Every effect is appended to path.events and -- when the function under verification declares
`fs_modifies` / `crash_invariant` -- generates a frame / crash-point obligation right there.
"""
import z3

from .values import *  # noqa: F401,F403
from .engine import Unsupported, PyRaise, ContractError

ABSENT, FILE, DIR = 0, 1, 2
KIND_SORT = z3.ArraySort(S, I)
DATA_SORT = z3.ArraySort(S, BYTES)


class FS:
    def __init__(self, path):
        self.kind = path.fresh("fs_kind", KIND_SORT)
        self.data = path.fresh("fs_data", DATA_SORT)
        self.kind0, self.data0 = self.kind, self.data
        self.nfx = 0


def fs_of(p):
    if "fs" not in p.ghost:
        p.ghost["fs"] = FS(p)
    return p.ghost["fs"]


def kind_at(p, fs_kind, t):
    """fs.kind[t] with the ground instance of 'every kind is absent / file / directory'"""
    k = z3.Select(fs_kind, t)
    p.assume(z3.And(k >= 0, k <= 2))
    return k


def str_term(p, v):
    v = p.unbox(v, "str") if isinstance(v, VBox) else v
    if isinstance(v, VStr):
        return v.t
    h = p.deref(v)
    if isinstance(h, HObj) and "pathstr" in h.fields:         # pathlib.Path model
        return h.fields["pathstr"].t
    raise Unsupported(f"path argument {v!r}")


def maybe_oserror(p, what, classes=("OSError",)):
    """an external effectful call may fail before having any effect"""
    if not p.ghost.get("fs_faults"):
        return
    for cls in classes:
        b = p.fresh(f"fault_{what}_{cls}", B)
        if p.branch(b):
            p.raise_(cls)


def effect(p, kind, path_t, **detail):
    """record one file-system effect and emit the obligations attached to effects"""
    fs = fs_of(p)
    fs.nfx += 1
    ev = {"n": fs.nfx, "kind": kind, "path": path_t, "line": getattr(p, "cur_line", None)}
    ev.update(detail)
    p.events.append(ev)
    hook = p.ghost.get("effect_hook")
    if hook:
        hook(p, ev)


def crash_point(p, label):
    hook = p.ghost.get("crash_hook")
    if hook:
        hook(p, label)


def flush_file(p, h):
    """flush of a buffered write handle (explicit flush, close, end of a `with` block): everything pending reaches the file, or the
    flush fails (fault model) with an arbitrary prefix on disk"""
    if getattr(h, "pending", None) is None:
        return
    fs = fs_of(p)
    pending, base = h.pending, h.base
    k = p.fresh("flushed", I)
    p.assume(z3.And(k >= 0, k <= z3.Length(pending)))
    fs.data = z3.Store(fs.data, h.path, z3.Concat(base, z3.SubSeq(pending, 0, k)))
    crash_point(p, "flush-partial")
    if p.ghost.get("fs_faults"):
        b = p.fresh("fault_flush", B)
        if p.branch(b):
            h.pending = None
            effect(p, "write-partial", h.path)
            p.raise_("OSError")
    fs.data = z3.Store(fs.data, h.path, z3.Concat(base, pending))
    h.base, h.pending = None, None
    effect(p, "write", h.path)
    crash_point(p, "flushed")


def install(reg):
    E = reg.externals
    M = reg.methods
    SF = reg.spec_funcs

    # ------------------------------------------------------------ queries
    def os_path_exists(p, args, kw):
        fs = fs_of(p)
        return VBool(kind_at(p, fs.kind, str_term(p, args[0])) != ABSENT)
    E["os.path.exists"] = os_path_exists

    def os_path_isfile(p, args, kw):
        fs = fs_of(p)
        return VBool(kind_at(p, fs.kind, str_term(p, args[0])) == FILE)
    E["os.path.isfile"] = os_path_isfile

    def os_path_isdir(p, args, kw):
        fs = fs_of(p)
        return VBool(kind_at(p, fs.kind, str_term(p, args[0])) == DIR)
    E["os.path.isdir"] = os_path_isdir

    def os_path_getsize(p, args, kw):
        fs = fs_of(p)
        t = str_term(p, args[0])
        if not p.pure and not p.branch(kind_at(p, fs.kind, t) != ABSENT):
            p.raise_("FileNotFoundError")
        f = p.engine.uf("dir_size", S, I)
        return VInt(z3.If(kind_at(p, fs.kind, t) == FILE, z3.Length(z3.Select(fs.data, t)), f(t)))
    E["os.path.getsize"] = os_path_getsize

    def os_path_abspath(p, args, kw):
        f = p.engine.uf("abspath", S, S)
        t = str_term(p, args[0])
        r = f(t)
        p.engine.assumption("os.path.abspath(p) names the same file as p (kind/data agree) and is idempotent")
        fs = fs_of(p)
        p.ghost.setdefault("abspath_terms", []).append((t, r))
        return VStr(r)
    E["os.path.abspath"] = os_path_abspath

    def os_path_dirname(p, args, kw):
        f = p.engine.uf("dirname", S, S)
        return VStr(f(str_term(p, args[0])))
    E["os.path.dirname"] = os_path_dirname

    def os_path_basename(p, args, kw):
        f = p.engine.uf("basename", S, S)
        return VStr(f(str_term(p, args[0])))
    E["os.path.basename"] = os_path_basename

    def os_path_join(p, args, kw):
        ts = [str_term(p, a) for a in args]
        if len(ts) == 1:
            return VStr(ts[0])
        f = p.engine.uf("pathjoin", S, S, S)
        r = ts[0]
        for t in ts[1:]:
            r = f(r, t)
        return VStr(r)
    E["os.path.join"] = os_path_join

    def os_path_relpath(p, args, kw):
        f = p.engine.uf("relpath", S, S, S)
        return VStr(f(str_term(p, args[0]), str_term(p, args[1])))
    E["os.path.relpath"] = os_path_relpath

    def os_path_isabs(p, args, kw):
        p.engine.assumption("POSIX: os.path.isabs(p) == p.startswith('/')")
        return VBool(z3.PrefixOf(z3.StringVal("/"), str_term(p, args[0])))
    E["os.path.isabs"] = os_path_isabs

    def os_getcwd(p, args, kw):
        return VStr(p.engine.uf("getcwd", I, S)(z3.IntVal(0)))
    E["os.getcwd"] = os_getcwd

    # ------------------------------------------------------------ effects
    def os_remove(p, args, kw):
        fs = fs_of(p)
        t = str_term(p, args[0])
        maybe_oserror(p, "remove")
        if not p.branch(kind_at(p, fs.kind, t) == FILE):
            p.raise_("FileNotFoundError")
        fs.kind = z3.Store(fs.kind, t, ABSENT)
        effect(p, "remove", t)
        return VNone()
    E["os.remove"] = os_remove
    E["os.unlink"] = os_remove

    def os_replace(p, args, kw):
        fs = fs_of(p)
        src, dst = str_term(p, args[0]), str_term(p, args[1])
        maybe_oserror(p, "replace")
        if not p.branch(kind_at(p, fs.kind, src) == FILE):
            p.raise_("FileNotFoundError")
        if not p.branch(kind_at(p, fs.kind, dst) != DIR):
            p.raise_("IsADirectoryError")
        # atomic: dst gets src's bytes, src disappears
        d = z3.Select(fs.data, src)
        same = (src == dst)
        fs.data = z3.Store(fs.data, dst, d)
        fs.kind = z3.If(same, fs.kind, z3.Store(z3.Store(fs.kind, src, ABSENT), dst, FILE))
        effect(p, "replace", dst, src=src)
        return VNone()
    E["os.replace"] = os_replace

    def os_rename(p, args, kw):
        # POSIX rename == replace (silently replaces an existing file)
        return os_replace(p, args, kw)
    E["os.rename"] = os_rename

    def shutil_move(p, args, kw):
        """assumed contract: os.rename when possible; across file systems it degrades to copy (open(dst,'wb') truncates,
        then the bytes are streamed) followed by removal of the source -- NOT atomic"""
        fs = fs_of(p)
        src, dst = str_term(p, args[0]), str_term(p, args[1])
        maybe_oserror(p, "move")
        if not p.branch(kind_at(p, fs.kind, src) == FILE):
            p.raise_("FileNotFoundError")
        p.engine.assumption("shutil.move: atomic rename on one file system, copy+remove (non-atomic) across file systems")
        if p.branch(p.fresh("move_same_filesystem", B)):
            return os_replace(p, args, kw)
        d = z3.Select(fs.data, src)
        fs.kind = z3.Store(fs.kind, dst, FILE)
        fs.data = z3.Store(fs.data, dst, z3.Empty(BYTES))
        effect(p, "truncate", dst)
        k = p.fresh("move_copied", I)
        p.assume(z3.And(k >= 0, k <= z3.Length(d)))
        saved = fs.data
        fs.data = z3.Store(saved, dst, z3.SubSeq(d, 0, k))
        crash_point(p, "move-copy-partial")
        if p.ghost.get("fs_faults") and p.branch(p.fresh("fault_move_copy", B)):
            effect(p, "write-partial", dst)
            p.raise_("OSError")
        fs.data = z3.Store(saved, dst, d)
        effect(p, "write", dst)
        fs.kind = z3.Store(fs.kind, src, ABSENT)
        effect(p, "remove", src)
        return VStr(dst)
    E["shutil.move"] = shutil_move

    def os_write(p, args, kw):
        """os.write(fd, data): may write only a prefix and says so through its return value (no exception)"""
        fs = fs_of(p)
        fd = p.deref(args[0])
        if not isinstance(fd, HObj) or fd.cls != "fd":
            raise Unsupported("os.write on unknown descriptor")
        t = p.bytes_term(p.unbox(args[1]))
        if t is None:
            raise Unsupported("os.write of non-bytes")
        maybe_oserror(p, "oswrite")
        path_t = fd.fields["path"].t
        n = p.fresh("oswrite_count", I)
        p.assume(z3.And(n >= 0, n <= z3.Length(t)))
        if not p.ghost.get("fs_faults"):
            p.assume(n == z3.Length(t))
        cur = z3.Select(fs.data, path_t)
        fs.data = z3.Store(fs.data, path_t, z3.Concat(cur, z3.SubSeq(t, 0, n)))
        effect(p, "write", path_t)
        return VInt(n)
    E["os.write"] = os_write

    def os_close(p, args, kw):
        return VNone()
    E["os.close"] = os_close

    def os_link(p, args, kw):
        """hard link: dst becomes another name of src's bytes.  The model cannot express the aliasing (a later write through one name
        alters the other), so the effect is recorded with its own kind and no frame admits it silently."""
        fs = fs_of(p)
        src, dst = str_term(p, args[0]), str_term(p, args[1])
        maybe_oserror(p, "link")
        if not p.branch(kind_at(p, fs.kind, src) == FILE):
            p.raise_("FileNotFoundError")
        if not p.branch(kind_at(p, fs.kind, dst) == ABSENT):
            p.raise_("FileExistsError")
        fs.kind = z3.Store(fs.kind, dst, FILE)
        fs.data = z3.Store(fs.data, dst, z3.Select(fs.data, src))
        effect(p, "link", dst, src=src)
        return VNone()
    E["os.link"] = os_link

    def os_mkdir(p, args, kw):
        fs = fs_of(p)
        t = str_term(p, args[0])
        maybe_oserror(p, "mkdir")
        if not p.branch(kind_at(p, fs.kind, t) == ABSENT):
            p.raise_("FileExistsError")
        fs.kind = z3.Store(fs.kind, t, DIR)
        effect(p, "mkdir", t)
        return VNone()
    E["os.mkdir"] = os_mkdir

    def shutil_copy(p, args, kw):
        fs = fs_of(p)
        src, dst = str_term(p, args[0]), str_term(p, args[1])
        maybe_oserror(p, "copy")
        if not p.branch(kind_at(p, fs.kind, src) == FILE):
            p.raise_("FileNotFoundError")
        if p.branch(kind_at(p, fs.kind, dst) == DIR):
            raise Unsupported("shutil.copy into a directory")
        fs.kind = z3.Store(fs.kind, dst, FILE)
        # crash point: truncated / partially written destination
        part = p.fresh("copy_partial", BYTES)
        saved = fs.data
        fs.data = z3.Store(fs.data, dst, part)
        crash_point(p, "copy-partial")
        fs.data = z3.Store(saved, dst, z3.Select(saved, src))
        effect(p, "copy", dst, src=src)
        return VStr(dst)
    E["shutil.copy"] = shutil_copy

    def shutil_copymode(p, args, kw):
        maybe_oserror(p, "copymode")
        p.engine.assumption("shutil.copymode changes permission bits only (no effect on names or bytes)")
        return VNone()
    E["shutil.copymode"] = shutil_copymode

    def tempfile_mkstemp(p, args, kw):
        fs = fs_of(p)
        maybe_oserror(p, "mkstemp")
        t = p.fresh("tmp_path", S)
        # assumed contract: a path that did not exist, created as an empty regular file
        p.assume(kind_at(p, fs.kind, t) == ABSENT)
        d = kw.get("dir")
        if d is not None:
            p.assume(z3.PrefixOf(str_term(p, d), t))
            p.ghost.setdefault("tmp_in_dir", []).append((t, str_term(p, d)))
        fs.kind = z3.Store(fs.kind, t, FILE)
        fs.data = z3.Store(fs.data, t, z3.Empty(BYTES))
        effect(p, "create", t, temp=True)
        fd = p.alloc(HObj("fd", {"path": VStr(t)}))
        p.engine.assumption("tempfile.mkstemp returns a path that did not exist before (so it differs from every existing file)")
        return VTuple([fd, VStr(t)])
    E["tempfile.mkstemp"] = tempfile_mkstemp

    def os_fdopen(p, args, kw):
        fd = p.deref(args[0])
        mode = p.const_key(args[1]) if len(args) > 1 else "r"
        if not isinstance(fd, HObj) or fd.cls != "fd":
            raise Unsupported("os.fdopen of unknown descriptor")
        fs = fs_of(p)
        t = fd.fields["path"].t
        return p.alloc(HFile(t, z3.Select(fs.data, t), z3.IntVal(0), mode))
    E["os.fdopen"] = os_fdopen

    def b_open(p, args, kw):
        fs = fs_of(p)
        t = str_term(p, args[0])
        mode = p.const_key(args[1]) if len(args) > 1 else "r"
        if mode is None:
            raise Unsupported("open with symbolic mode")
        if mode in ("rb", "r"):
            if not p.branch(kind_at(p, fs.kind, t) == FILE):
                if p.branch(kind_at(p, fs.kind, t) == DIR):
                    p.raise_("IsADirectoryError")
                p.raise_("FileNotFoundError")
            return p.alloc(HFile(t, z3.Select(fs.data, t), z3.IntVal(0), mode))
        if mode in ("wb", "w"):
            maybe_oserror(p, "open_w", ("PermissionError", "OSError"))
            if p.branch(kind_at(p, fs.kind, t) == DIR):
                p.raise_("IsADirectoryError")
            fs.kind = z3.Store(fs.kind, t, FILE)
            fs.data = z3.Store(fs.data, t, z3.Empty(BYTES))
            effect(p, "truncate", t)
            return p.alloc(HFile(t, z3.Empty(BYTES), z3.IntVal(0), mode))
        if mode in ("ab", "a"):
            maybe_oserror(p, "open_a", ("PermissionError", "OSError"))
            if p.branch(kind_at(p, fs.kind, t) == DIR):
                p.raise_("IsADirectoryError")
            created = kind_at(p, fs.kind, t) == ABSENT
            fs.data = z3.If(created, z3.Store(fs.data, t, z3.Empty(BYTES)), fs.data)
            fs.kind = z3.Store(fs.kind, t, FILE)
            effect(p, "create-or-touch", t)
            return p.alloc(HFile(t, z3.Select(fs.data, t), z3.Length(z3.Select(fs.data, t)), mode))
        raise Unsupported(f"open mode {mode}")
    E["open"] = b_open

    def f_write(p, recv, args, kw):
        fs = fs_of(p)
        h = p.heap[recv.rid]
        if h.mode not in ("wb", "w", "ab", "a"):
            p.raise_("OSError")
        t = p.bytes_term(p.unbox(args[0]))
        if t is None:
            raise Unsupported("write of non-bytes")
        maybe_oserror(p, "write")
        # buffered writer (open / os.fdopen in binary write mode): the bytes go to the handle's buffer; any prefix of what is
        # pending may already be on disk, all of it only after flush / close
        if h.pending is None:
            h.base, h.pending = z3.Select(fs.data, h.path), z3.Empty(BYTES)
        h.pending = z3.Concat(h.pending, t)
        k = p.fresh("buffered_on_disk", I)
        p.assume(z3.And(k >= 0, k <= z3.Length(h.pending)))
        fs.data = z3.Store(fs.data, h.path, z3.Concat(h.base, z3.SubSeq(h.pending, 0, k)))
        effect(p, "write-partial", h.path)
        crash_point(p, "write-buffered")
        return VInt(z3.Length(t))
    M[("HFile", "write")] = f_write

    def f_readinto(p, recv, args, kw):
        """BufferedReader.readinto on a regular file: short only at EOF.  n = min(len(buf), len(content) - pos); the first n bytes
        of buf become content[pos:pos+n], the rest is unchanged; pos += n."""
        h = p.heap[recv.rid]
        if h.closed:
            p.raise_("ValueError")
        bref = args[0]
        b = p.deref(bref)
        if not isinstance(b, HBytes):
            raise Unsupported("readinto into a non-bytearray")
        p.engine.assumption("readinto on a regular file returns min(len(buf), remaining) bytes (short only at end of file)")
        opaque = b.length is not None
        blen = b.length if opaque else z3.Length(b.t)
        avail = z3.Length(h.tail)
        n = p.fresh("nread", I)
        p.assume(n == z3.If(blen <= avail, blen, avail))
        data = p.fresh("read_data", BYTES)
        tail2 = p.fresh("tail", BYTES)
        # word equation instead of extract terms:  tail == data ++ tail'
        p.assume(h.tail == z3.Concat(data, tail2))
        p.assume(z3.Length(data) == n)
        p.assume(z3.Implies(n == 0, z3.And(data == z3.Empty(BYTES), tail2 == h.tail)))
        p.assume(z3.Implies(n == avail, tail2 == z3.Empty(BYTES)))
        newbuf = p.fresh("buf", BYTES)
        if opaque:
            # large fixed-size buffer: only "buf[:n] is what was read" (recorded below) and "a full read replaces everything"
            p.assume(z3.Implies(n == blen, newbuf == data))
        else:
            zt = p.ghost.get("zeros_terms", [])
            zlen = None
            for zterm, zn in zt:
                if zterm.eq(b.t):
                    zlen = zn
            if zlen is not None:
                suffix = p.engine.zeros(p, z3.simplify(zlen - n))
            else:
                suffix = z3.SubSeq(b.t, n, blen - n)
            p.assume(newbuf == z3.Concat(data, suffix))
            p.assume(z3.Length(newbuf) == blen)
            p.assume(z3.Implies(n == blen, newbuf == data))
        p.ghost.setdefault("known_slices", []).append((newbuf, n, data))
        p.ghost["last_read"] = data
        b.t = newbuf
        h.tail = tail2
        h.pos = z3.simplify(h.pos + n)
        return VInt(n)
    M[("HFile", "readinto")] = f_readinto

    def f_close(p, recv, args, kw):
        p.close_file(p.heap[recv.rid])
        return VNone()
    M[("HFile", "close")] = f_close

    # ------------------------------------------------------------ pyben (assumed contract, DESIGN 5.4)
    def pyben_load(p, args, kw):
        fs = fs_of(p)
        t = str_term(p, args[0])
        if not p.branch(kind_at(p, fs.kind, t) == FILE):
            p.raise_("pyben.exceptions.FilePathError")
        dec = p.engine.uf("bdecode", BYTES, PV)
        ok = p.engine.uf("bdecodable", BYTES, B)
        d = z3.Select(fs.data, t)
        if not p.branch(ok(d)):
            p.raise_("pyben.exceptions.DecodeError")
        v = dec(d)
        p.ghost.setdefault("loaded", []).append((t, v))
        p.engine.assumption("pyben.load returns bdecode(file bytes): dict keys decoded to str in file order; "
                            "enc(bdecode(b)) == b for canonical b (validated natively with a strict decoder)")
        if p.entails(PV.is_PDict(v)):
            # a fresh mutable dict object per call (mutations must persist and must not be shared between loads)
            return p.alloc(HDict(sym=(PV.dkeys(v), PV.dhas(v), PV.dmap(v))))
        return VBox(v)
    E["pyben.load"] = pyben_load

    def _encode(p, v):
        enc = p.engine.uf("benc", PV, BYTES)
        encodable = p.engine.uf("bencodable", PV, B)
        t = p.box(v)
        # encoding may fail (un-encodable value) -- modelled as a nondeterministic failure before any effect
        if p.ghost.get("fs_faults") and p.branch(p.fresh("fault_encode", B)):
            p.raise_("pyben.exceptions.EncodeError")
        p.ghost.setdefault("encoded", []).append(t)
        return t, enc(t)

    def pyben_dump(p, args, kw):
        t, data = _encode(p, args[0])           # encoding happens before any file-system effect
        p.ghost["dumped"] = t
        dest = args[1]
        h = p.deref(dest)
        p.engine.assumption("pyben.dump = benencode(obj) first (may raise, no effect), then open(path,'wb') / write / close; "
                            "dict items are emitted in insertion order")
        if isinstance(h, HFile):
            f_write(p, dest, [VBytes(data)], {})
            return VNone()
        f = b_open(p, [dest, VStr("wb")], {})
        try:
            f_write(p, f, [VBytes(data)], {})
        finally:
            p.close_file(p.heap[f.rid])
        return VNone()
    E["pyben.dump"] = pyben_dump

    def pyben_dumps(p, args, kw):
        t, data = _encode(p, args[0])
        return VBytes(data)
    E["pyben.dumps"] = pyben_dumps

    # ------------------------------------------------------------ spec functions over the FS
    def s_fs_exists(p, path):
        fs = fs_of(p)
        return VBool(kind_at(p, fs.kind, str_term(p, path)) != ABSENT)
    SF["fs_exists"] = s_fs_exists

    def s_fs_isfile(p, path):
        fs = fs_of(p)
        return VBool(kind_at(p, fs.kind, str_term(p, path)) == FILE)
    SF["fs_isfile"] = s_fs_isfile

    def s_fs_data(p, path):
        fs = fs_of(p)
        return VBytes(z3.Select(fs.data, str_term(p, path)))
    SF["fs_data"] = s_fs_data

    def s_fs_data0(p, path):
        fs = fs_of(p)
        return VBytes(z3.Select(fs.data0, str_term(p, path)))
    SF["fs_data0"] = s_fs_data0

    def s_fs_isfile0(p, path):
        fs = fs_of(p)
        return VBool(kind_at(p, fs.kind0, str_term(p, path)) == FILE)
    SF["fs_isfile0"] = s_fs_isfile0

    def s_fs_exists0(p, path):
        fs = fs_of(p)
        return VBool(kind_at(p, fs.kind0, str_term(p, path)) != ABSENT)
    SF["fs_exists0"] = s_fs_exists0

    def s_first_part(p, path):
        f = p.engine.uf("path_parts", S, PVSEQ)
        return VStr(PV.sval(f(str_term(p, path))[0]))
    SF["first_part"] = s_first_part

    def s_file_tail(p, f):
        """unread bytes of an open file handle"""
        h = p.deref(f)
        if not isinstance(h, HFile):
            raise Unsupported("file handle expected")
        return VBytes(h.tail)
    SF["file_tail"] = s_file_tail

    def s_file_wf(p, f, path):
        """an open read handle on the regular file `path`"""
        h = p.deref(f)
        fs = fs_of(p)
        t = str_term(p, path)
        return VBool(z3.And(kind_at(p, fs.kind, t) == FILE, h.path == t, z3.BoolVal(not h.closed)))
    SF["file_wf"] = s_file_wf

    def s_file_open(p, f):
        h = p.deref(f)
        return VBool(isinstance(h, HFile) and not h.closed)
    SF["file_open"] = s_file_open

    def s_file_same(p, f, g):
        a, b = p.deref(f), p.deref(g)
        return VBool(z3.And(a.tail == b.tail, a.path == b.path, z3.BoolVal(a.closed == b.closed)))
    SF["file_same"] = s_file_same

    def s_relpath_components(p, path, root):
        rel = p.engine.uf("relpath", S, S, S)(str_term(p, path), str_term(p, root))
        split = p.engine.uf("str_split", S, S, PVSEQ)
        return VBox(PV.PList(split(rel, z3.StringVal("/"))))
    SF["relpath_components"] = s_relpath_components

    def s_listed_files(p):
        t = p.ghost.get("listed_files")
        if t is None:
            raise ContractError("no call of filelist_total on this path")
        return t
    SF["listed_files"] = s_listed_files

    def s_listed_total(p):
        return p.ghost["listed_total"]
    SF["listed_total"] = s_listed_total

    def s_v1_pieces(p, stream, pl):
        """BEP 3: concatenation of SHA-1 of each successive piece_length slice of the stream (only the last may be short)"""
        f = p.engine.uf("v1_pieces", BYTES, I, BYTES)
        st = p.bytes_term(stream)
        t = f(st, p.as_int(pl))
        p.assume(z3.Implies(st == z3.Empty(BYTES), t == z3.Empty(BYTES)))
        return VBytes(t)
    SF["v1_pieces"] = s_v1_pieces

    def s_v1_unfold(p, S_, P_, R_, pl):
        """ground instance of the definition of v1_pieces in relational form (with L3: the prefix of a given length is unique):
             len P == pl and P ++ R == S            ==>  v1_pieces(S) == sha1(P) ++ v1_pieces(R)
             0 < len P < pl and R == [] and P == S  ==>  v1_pieces(S) == sha1(P)"""
        f = p.engine.uf("v1_pieces", BYTES, I, BYTES)
        sha = p.engine.uf("sha1", BYTES, BYTES)
        Sx, Px, Rx, n = p.bytes_term(S_), p.bytes_term(P_), p.bytes_term(R_), p.as_int(pl)
        a = z3.Implies(z3.And(z3.Length(Px) == n, z3.Concat(Px, Rx) == Sx), f(Sx, n) == z3.Concat(sha(Px), f(Rx, n)))
        b = z3.Implies(z3.And(z3.Length(Px) > 0, z3.Length(Px) < n, Rx == z3.Empty(BYTES), Px == Sx), f(Sx, n) == sha(Px))
        c = f(z3.Empty(BYTES), n) == z3.Empty(BYTES)
        return VBool(z3.And(a, b, c))
    SF["v1_unfold"] = s_v1_unfold

    def s_last_read(p):
        t = p.ghost.get("last_read")
        return VBytes(t if t is not None else z3.Empty(BYTES))
    SF["last_read"] = s_last_read

    def s_leaves(p, data):
        """BEP 52 leaf layer of a byte string: SHA-256 of each 16 KiB block (the last may be short); [] for no data"""
        f = p.engine.uf("leaves", BYTES, PVSEQ)
        d = p.bytes_term(data)
        t = f(d)
        key = ("leaves", d.get_id())
        if key not in p.ghost:
            p.ghost[key] = True
            p.assume(z3.Implies(d == z3.Empty(BYTES), t == z3.Empty(PVSEQ)))
            p.assume(z3.Length(t) * 16384 >= z3.Length(d))
            p.assume(z3.Length(t) * 16384 < z3.Length(d) + 16384)
        return VBox(PV.PList(t))
    SF["leaves"] = s_leaves

    def s_leaves_step(p, D, b):
        """ground instance of the definition of leaves: appending one block b (0 < len b <= 16 KiB) to block-aligned data D
        appends SHA-256(b)"""
        f = p.engine.uf("leaves", BYTES, PVSEQ)
        sha = p.engine.uf("sha256", BYTES, BYTES)
        Dt, bt = p.bytes_term(D), p.bytes_term(b)
        return VBool(z3.Implies(z3.And(z3.Length(Dt) % 16384 == 0, z3.Length(bt) > 0, z3.Length(bt) <= 16384),
                                f(z3.Concat(Dt, bt)) == z3.Concat(f(Dt), z3.Unit(PV.PBytes(sha(bt))))))
    SF["leaves_step"] = s_leaves_step

    def _valid_padding(nl, npad, first, amount):
        """BEP 52 padding of one piece's leaf layer: a full piece has none; a short last piece of a multi-piece file is filled up
        to a full piece; a file of at most one piece is filled up to the next power of two of its own leaf count"""
        return z3.Or(z3.And(nl == amount, npad == 0),
                     z3.And(nl < amount, z3.Not(first), nl + npad == amount),
                     z3.And(nl < amount, first, npad >= 0, nl + npad < 2 * nl))

    def s_piece_roots(p, data, amount):
        """BEP 52 piece layer of a byte string: for each successive piece (amount 16 KiB blocks; the last may be short) the merkle
        root of its leaves with the padding of _valid_padding.  Defined by ground unfolding from the right (proots_step)."""
        f = p.engine.uf("piece_roots", BYTES, I, PVSEQ)
        d, a = p.bytes_term(data), p.as_int(amount)
        t = f(d, a)
        key = ("piece_roots", d.get_id(), a.get_id())
        if key not in p.ghost:
            p.ghost[key] = True
            p.assume(z3.Implies(d == z3.Empty(BYTES), t == z3.Empty(PVSEQ)))
            p.assume((z3.Length(t) == 0) == (d == z3.Empty(BYTES)))
        return VBox(PV.PList(t))
    SF["piece_roots"] = s_piece_roots

    def s_proots_step(p, P_, D_, npad, amount, k):
        """ground instance of the definition of piece_roots: for piece-aligned P and a next piece D (0 < len D <= piece length)
             piece_roots(P ++ D) == piece_roots(P) ++ [ mroot(leaves(D) ++ zero_digests(npad)) ]
        for the padding count npad that _valid_padding allows (it is unique: L4, two powers of two in [n, 2n) are equal).
        Alignment of P is stated with its witness k (len P == k * piece length): no modulus by a symbolic value"""
        p.engine.assumption('spec function piece_roots: defined by ground unfolding (proots_step); the padding count is unique by L4 (two powers of two in [n, 2n) are equal; lemmas/Lemmas.lean L4_pow2_unique)')
        f = p.engine.uf("piece_roots", BYTES, I, PVSEQ)
        lv = p.engine.uf("leaves", BYTES, PVSEQ)
        Pt, Dt, n, a, kt = p.bytes_term(P_), p.bytes_term(D_), p.as_int(npad), p.as_int(amount), p.as_int(k)
        s_piece_roots(p, VBytes(Pt), VInt(a))
        s_piece_roots(p, VBytes(z3.Concat(Pt, Dt)), VInt(a))
        s_leaves(p, VBytes(Dt))
        nl = z3.Length(lv(Dt))
        first = Pt == z3.Empty(BYTES)
        isp = p.engine.is_pow2(p, nl + n)
        pad = SF["zero_digests"](p, VInt(n))
        blocks = z3.Concat(lv(Dt), PV.items(pad.t))
        root = SF["mroot"](p, VBox(PV.PList(blocks))).t
        ok = z3.And(kt >= 0, z3.Length(Pt) == kt * (a * 16384), z3.Length(Dt) > 0, z3.Length(Dt) <= a * 16384,
                    _valid_padding(nl, n, first, a), z3.Implies(z3.And(nl < a, first), isp))
        return VBool(z3.Implies(ok, f(z3.Concat(Pt, Dt), a) == z3.Concat(f(Pt, a), z3.Unit(PV.PBytes(root)))))
    SF["proots_step"] = s_proots_step

    def s_hybrid_pieces(p, data, pl, pad):
        """v1 piece list of one file of a hybrid torrent: SHA-1 of each successive piece of the file, the short last piece
        zero-extended to a full piece exactly when padding is declared (pad)"""
        f = p.engine.uf("hybrid_pieces", BYTES, I, B, PVSEQ)
        d = p.bytes_term(data)
        t = f(d, p.as_int(pl), p.truth(pad))
        p.assume(z3.Implies(d == z3.Empty(BYTES), t == z3.Empty(PVSEQ)))
        return VBox(PV.PList(t))
    SF["hybrid_pieces"] = s_hybrid_pieces

    def s_hpieces_step(p, P_, D_, pl, pad, k):
        """ground instance of the definition of hybrid_pieces, unfolding from the right"""
        p.engine.assumption('spec function hybrid_pieces: defined by ground unfolding (hpieces_step)')
        f = p.engine.uf("hybrid_pieces", BYTES, I, B, PVSEQ)
        sha = p.engine.uf("sha1", BYTES, BYTES)
        Pt, Dt, n, pd, kt = p.bytes_term(P_), p.bytes_term(D_), p.as_int(pl), p.truth(pad), p.as_int(k)
        z = SF["zeros"](p, VInt(z3.If(pd, n - z3.Length(Dt), 0)))
        piece = sha(z3.Concat(Dt, p.bytes_term(z)))
        ok = z3.And(kt >= 0, z3.Length(Pt) == kt * n, z3.Length(Dt) > 0, z3.Length(Dt) <= n)
        return VBool(z3.Implies(ok, f(z3.Concat(Pt, Dt), n, pd) == z3.Concat(f(Pt, n, pd), z3.Unit(PV.PBytes(piece)))))
    SF["hpieces_step"] = s_hpieces_step

    def s_hash_acc(p, hobj):
        h = p.deref(hobj)
        if not isinstance(h, HHash):
            raise Unsupported("hash object expected")
        return VBytes(h.acc)
    SF["hash_acc"] = s_hash_acc

    def s_hint(p, *args):
        """evaluating the arguments instantiates the ground lemmas attached to the terms they build; the value is True"""
        return VBool(True)
    SF["hint"] = s_hint

    def s_file_at_eof(p, f):
        h = p.deref(f)
        return VBool(h.tail == z3.Empty(BYTES))
    SF["file_at_eof"] = s_file_at_eof

    def s_rest(p, paths, i):
        """concatenation of the contents of paths[i:] (prefix-sum style spec function with ground unfolding at i)"""
        fs = fs_of(p)
        h = p.deref(paths)
        X = p.list_seq(h)
        it = p.as_int(i)
        f = p.engine.uf("rest", PVSEQ, DATA_SORT, I, BYTES)
        t = f(X, fs.data, it)
        key = ("rest", X.get_id(), fs.data.get_id(), z3.simplify(it).sexpr())
        if key not in p.ghost:
            p.ghost[key] = True
            p.assume(z3.Implies(it >= z3.Length(X), t == z3.Empty(BYTES)))
            p.assume(z3.Implies(z3.And(it >= 0, it < z3.Length(X)),
                                t == z3.Concat(data_at_term(p, X, it), f(X, fs.data, it + 1))))
        return VBytes(t)
    SF["rest"] = s_rest

    def data_at_term(p, X, it):
        """contents of the file named by the it-th entry of a path list, as an uninterpreted term with its defining equation
        (keeps seq.nth out of the word equations)"""
        fs = fs_of(p)
        f = p.engine.uf("data_at", PVSEQ, DATA_SORT, I, BYTES)
        t = f(X, fs.data, it)
        key = ("data_at", X.get_id(), fs.data.get_id(), z3.simplify(it).sexpr())
        if key not in p.ghost:
            p.ghost[key] = True
            p.assume(z3.Implies(z3.And(it >= 0, it < z3.Length(X)), t == z3.Select(fs.data, PV.sval(X[it]))))
        return t

    def s_data_at(p, paths, i):
        h = p.deref(paths)
        return VBytes(data_at_term(p, p.list_seq(h), p.as_int(i)))
    SF["data_at"] = s_data_at

    def gap_term(p, n, pl):
        """gap(n, pl) = (-n) mod pl for pl > 0, as an uninterpreted function with the ground facts the align proofs need:
        0 <= gap < pl;  gap(0) = 0;  0 < n < pl => gap = pl - n;  n >= pl => gap(n) = gap(n - pl)"""
        f = p.engine.uf("gap", I, I, I)
        t = f(n, pl)
        key = ("gap", z3.simplify(n).sexpr(), z3.simplify(pl).sexpr())
        if key not in p.ghost:
            p.ghost[key] = True
            if p.ghost.get("gap_use_mod"):
                p.assume(z3.Implies(pl > 0, t == (-n) % pl))      # the definition; the lines below are lemmas about it
            p.assume(z3.Implies(pl > 0, z3.And(t >= 0, t < pl)))
            p.assume(z3.Implies(z3.And(pl > 0, n == 0), t == 0))
            p.assume(z3.Implies(z3.And(pl > 0, n > 0, n < pl), t == pl - n))
            p.assume(z3.Implies(z3.And(pl > 0, n >= pl), t == f(n - pl, pl)))
            p.assume(z3.Implies(z3.And(pl > 0, n >= 0), t == f(n + pl, pl)))
        return t

    def s_gap(p, n, pl):
        return VInt(gap_term(p, p.as_int(n), p.as_int(pl)))
    SF["gap"] = s_gap

    def s_rest_aligned(p, paths, i, pl):
        """declared stream of a piece-aligned torrent from file i on: each file followed by zero bytes up to the next piece boundary"""
        fs = fs_of(p)
        h = p.deref(paths)
        X = p.list_seq(h)
        it, n = p.as_int(i), p.as_int(pl)
        f = p.engine.uf("rest_aligned", PVSEQ, DATA_SORT, I, I, BYTES)
        t = f(X, fs.data, it, n)
        key = ("rest_aligned", X.get_id(), fs.data.get_id(), z3.simplify(it).sexpr(), z3.simplify(n).sexpr())
        if key not in p.ghost:
            p.ghost[key] = True
            d = data_at_term(p, X, it)
            p.assume(z3.Implies(it >= z3.Length(X), t == z3.Empty(BYTES)))
            p.assume(z3.Implies(z3.And(it >= 0, it < z3.Length(X)),
                                t == z3.Concat(d, p.engine.zeros(p, gap_term(p, z3.Length(d), n)), f(X, fs.data, it + 1, n))))
        return VBytes(t)
    SF["rest_aligned"] = s_rest_aligned

    def _flen(p, X, it):
        return PV.ival(z3.Select(PV.dmap(X[it]), key_of_const("length")))

    def s_file_length(p, files, i):
        h = p.deref(files)
        X = p.list_seq(h)
        return VInt(_flen(p, X, p.as_int(i)))
    SF["file_length"] = s_file_length

    def s_file_offset(p, files, i):
        """sum of the 'length' fields of files[:i] (prefix sum; ground unfolding at i and i-1)"""
        h = p.deref(files)
        X = p.list_seq(h)
        it = p.as_int(i)
        f = p.engine.uf("file_offset", PVSEQ, I, I)
        t = f(X, it)
        key = ("file_offset", X.get_id(), z3.simplify(it).sexpr())
        if key not in p.ghost:
            p.ghost[key] = True
            p.assume(f(X, z3.IntVal(0)) == 0)
            for j in (it, it - 1):
                p.assume(z3.Implies(z3.And(j >= 0, j < z3.Length(X)), z3.And(f(X, j + 1) == f(X, j) + _flen(p, X, j), _flen(p, X, j) >= 0)))
        return VInt(t)
    SF["file_offset"] = s_file_offset

    def s_files_wellformed(p, files):
        """every element is a dict with an int 'length' >= 0 and the keys PathNode takes (instantiated on element access)"""
        h = p.deref(files)
        X = p.list_seq(h)
        keys = ["length", "path", "filename", "full"]

        def fact(i, X=X):
            d = X[i]
            return z3.And(PV.is_PDict(d), *[z3.Select(PV.dhas(d), key_of_const(k)) for k in keys],
                          z3.Not(z3.Select(PV.dhas(d), key_of_const("start"))), z3.Not(z3.Select(PV.dhas(d), key_of_const("stop"))),
                          PV.is_PInt(z3.Select(PV.dmap(d), key_of_const("length"))),
                          PV.ival(z3.Select(PV.dmap(d), key_of_const("length"))) >= 0)
        h.tag["elem_fact"] = fact
        return VBool(True)
    SF["files_wellformed"] = s_files_wellformed

    def s_sum_lengths(p, files):
        """sum of the 'length' fields of a v1 file list; ground unfolding over the syntactic structure of the sequence term"""
        h = p.deref(files)
        X = PV.items(files.t) if isinstance(files, VBox) else p.list_seq(h)
        f = p.engine.uf("sum_lengths", PVSEQ, I)
        lk = key_of_const("length")

        def unfold(X, depth=0):
            t = f(X)
            Xs = z3.simplify(X)
            if z3.is_app(Xs) and Xs.decl().kind() == z3.Z3_OP_SEQ_EMPTY:
                p.assume(t == 0)
            elif z3.is_app(Xs) and Xs.decl().kind() == z3.Z3_OP_SEQ_UNIT:
                p.assume(t == PV.ival(z3.Select(PV.dmap(Xs.arg(0)), lk)))
            elif z3.is_app(Xs) and Xs.decl().kind() == z3.Z3_OP_SEQ_CONCAT and depth < 6:
                parts = [Xs.arg(k) for k in range(Xs.num_args())]
                p.assume(t == z3.Sum([unfold(q, depth + 1) for q in parts]))
            elif z3.is_app(Xs) and Xs.decl().kind() == z3.Z3_OP_ITE and depth < 6:
                p.assume(t == z3.If(Xs.arg(0), unfold(Xs.arg(1), depth + 1), unfold(Xs.arg(2), depth + 1)))
            return t
        return VInt(unfold(X))
    SF["sum_lengths"] = s_sum_lengths

    def s_declared_len(p, paths, i, pl):
        """number of bytes the first i files of a piece-aligned torrent declare: sum of (size + gap to the next boundary)"""
        fs = fs_of(p)
        h = p.deref(paths)
        X = p.list_seq(h)
        it, n = p.as_int(i), p.as_int(pl)
        f = p.engine.uf("declared_len", PVSEQ, DATA_SORT, I, I, I)
        t = f(X, fs.data, it, n)
        key = ("declared_len", X.get_id(), z3.simplify(it).sexpr(), z3.simplify(n).sexpr())
        if key not in p.ghost:
            p.ghost[key] = True
            p.assume(f(X, fs.data, z3.IntVal(0), n) == 0)
            for j in (it, it - 1):
                d = z3.Length(data_at_term(p, X, j))
                p.assume(z3.Implies(z3.And(j >= 0, j < z3.Length(X)),
                                    f(X, fs.data, j + 1, n) == f(X, fs.data, j, n) + d + gap_term(p, d, n)))
        return VInt(t)
    SF["declared_len"] = s_declared_len

    def s_path_is_str(p, paths, i):
        h = p.deref(paths)
        X = p.list_seq(h)
        it = p.as_int(i)
        return VBool(z3.Implies(z3.And(it >= 0, it < z3.Length(X)), PV.is_PStr(X[it])))
    SF["path_is_str"] = s_path_is_str

    def s_fileinfo_wellformed(p, fileinfo, i, layers, pl):
        """fileinfo[i] (when present) is {'path', 'length': int >= 0, 'pieces root': bytes | None}; files larger than a piece have
        their root as a key of the piece-layers dict"""
        keys, has, mp = (PV.dkeys(p.dict_term(p.deref(fileinfo))), PV.dhas(p.dict_term(p.deref(fileinfo))), PV.dmap(p.dict_term(p.deref(fileinfo))))
        it = p.as_int(i)
        e = z3.Select(mp, KEY.KInt(it))
        ln = z3.Select(PV.dmap(e), key_of_const("length"))
        rt = z3.Select(PV.dmap(e), key_of_const("pieces root"))
        lt = p.dict_term(p.deref(layers))
        fact = z3.And(PV.is_PDict(e), z3.Select(PV.dhas(e), key_of_const("length")), z3.Select(PV.dhas(e), key_of_const("pieces root")),
                      PV.is_PInt(ln), PV.ival(ln) >= 0, z3.Or(PV.is_PBytes(rt), PV.is_PNone(rt)),
                      z3.Implies(PV.ival(ln) > p.as_int(pl), z3.And(PV.is_PBytes(rt), z3.Select(PV.dhas(lt), KEY.KBytes(PV.yval(rt))),
                                                                   PV.is_PBytes(z3.Select(PV.dmap(lt), KEY.KBytes(PV.yval(rt)))))))
        return VBool(z3.Implies(z3.Select(has, KEY.KInt(it)), fact))
    SF["fileinfo_wellformed"] = s_fileinfo_wellformed

    def s_recorded_length(p, fileinfo, i):
        """the length a metafile records for file i (total reading)"""
        mp = PV.dmap(p.dict_term(p.deref(fileinfo)))
        e = z3.Select(mp, KEY.KInt(p.as_int(i)))
        return VInt(PV.ival(z3.Select(PV.dmap(e), key_of_const("length"))))
    SF["recorded_length"] = s_recorded_length

    def s_recorded_hashes(p, fileinfo, layers, i, pl):
        """the hashes a v2 metafile records for file i: its piece layer if it is larger than one piece, else its root (total reading)"""
        mp = PV.dmap(p.dict_term(p.deref(fileinfo)))
        it = p.as_int(i)
        e = z3.Select(mp, KEY.KInt(it))
        ln = PV.ival(z3.Select(PV.dmap(e), key_of_const("length")))
        rt = z3.Select(PV.dmap(e), key_of_const("pieces root"))
        lt = p.dict_term(p.deref(layers))
        layer = z3.Select(PV.dmap(lt), key_of_pv(rt))
        return VBox(z3.If(ln > p.as_int(pl), layer, rt))
    SF["recorded_hashes"] = s_recorded_hashes

    def s_path_is_file(p, paths, i):
        fs = fs_of(p)
        h = p.deref(paths)
        X = p.list_seq(h)
        it = p.as_int(i)
        return VBool(z3.Implies(z3.And(it >= 0, it < z3.Length(X)),
                                z3.And(PV.is_PStr(X[it]), kind_at(p, fs.kind, PV.sval(X[it])) == FILE)))
    SF["path_is_file"] = s_path_is_file

    def s_fs_size0(p, path):
        fs = fs_of(p)
        return VInt(z3.Length(z3.Select(fs.data0, str_term(p, path))))
    SF["fs_size0"] = s_fs_size0

    def s_fs_isdir(p, path):
        fs = fs_of(p)
        return VBool(kind_at(p, fs.kind, str_term(p, path)) == DIR)
    SF["fs_isdir"] = s_fs_isdir

    def s_fs_same(p, path):
        fs = fs_of(p)
        t = str_term(p, path)
        return VBool(z3.And(kind_at(p, fs.kind, t) == kind_at(p, fs.kind0, t), z3.Select(fs.data, t) == z3.Select(fs.data0, t)))
    SF["fs_same"] = s_fs_same

    def s_pathjoin(p, a, b):
        return VStr(p.engine.uf("pathjoin", S, S, S)(str_term(p, a), str_term(p, b)))
    SF["pathjoin"] = s_pathjoin

    def s_dirname(p, a):
        return VStr(p.engine.uf("dirname", S, S)(str_term(p, a)))
    SF["dirname"] = s_dirname

    def s_probe_path(p, path):
        t = str_term(p, path)
        join = p.engine.uf("pathjoin", S, S, S)
        ends = z3.Or(z3.SuffixOf(z3.StringVal("\\"), t), z3.SuffixOf(z3.StringVal("/"), t))
        return VStr(z3.If(ends, join(t, z3.StringVal(".torrent")), t))
    SF["probe_path"] = s_probe_path

    def s_benc(p, v):
        enc = p.engine.uf("benc", PV, BYTES)
        return VBytes(enc(p.box(v)))
    SF["benc"] = s_benc

    def s_dumped(p):
        t = p.ghost.get("dumped")
        if t is None:
            return VBox(p.fresh("nothing_dumped", PV))
        return VBox(t)
    SF["dumped"] = s_dumped

    def s_loaded(p, path):
        t = str_term(p, path)
        fs = fs_of(p)
        dec = p.engine.uf("bdecode", BYTES, PV)
        return VBox(dec(z3.Select(fs.data0, t)))
    SF["loaded"] = s_loaded


def install_more(reg):
    SF = reg.spec_funcs
    E = reg.externals
    M = reg.methods

    def path_new(p, args, kw):
        t = str_term(p, args[0])
        return p.alloc(HObj("Path", {"pathstr": VStr(t)}))
    E["pathlib.Path"] = path_new

    def path_parts(p, recv, args, kw):
        t = p.heap[recv.rid].fields["pathstr"].t
        f = p.engine.uf("path_parts", S, PVSEQ)
        h = HList(seq=f(t))
        h.tag["elem"] = "str"
        p.engine.assumption("pathlib.Path(p).parts: the component sequence of p (uninterpreted; only its use as mkdir targets matters)")
        return p.alloc(h)
    M[("obj:Path", "@parts")] = path_parts

    def path_parent(p, recv, args, kw):
        t = p.heap[recv.rid].fields["pathstr"].t
        return p.alloc(HObj("Path", {"pathstr": VStr(p.engine.uf("dirname", S, S)(t))}))
    M[("obj:Path", "@parent")] = path_parent

    def path_name(p, recv, args, kw):
        t = p.heap[recv.rid].fields["pathstr"].t
        p.engine.assumption("pathlib.Path(p).name read as os.path.basename(p) (they differ only for a trailing separator)")
        return VStr(p.engine.uf("basename", S, S)(t))
    M[("obj:Path", "@name")] = path_name

    def _path_kind(p, recv):
        fs = fs_of(p)
        return kind_at(p, fs.kind, p.heap[recv.rid].fields["pathstr"].t)

    M[("obj:Path", "is_dir")] = lambda p, recv, args, kw: VBool(_path_kind(p, recv) == DIR)
    M[("obj:Path", "is_file")] = lambda p, recv, args, kw: VBool(_path_kind(p, recv) == FILE)
    M[("obj:Path", "exists")] = lambda p, recv, args, kw: VBool(_path_kind(p, recv) != ABSENT)

    def path_truediv(p, recv, args, kw):
        t = p.heap[recv.rid].fields["pathstr"].t
        return p.alloc(HObj("Path", {"pathstr": VStr(p.engine.uf("pathjoin", S, S, S)(t, str_term(p, args[0])))}))
    M[("obj:Path", "__truediv__")] = path_truediv

    def os_listdir(p, args, kw):
        """the entry names of a directory as an opaque list; membership of a name is decided by the ghost file system"""
        t = str_term(p, args[0])
        fs = fs_of(p)
        if p.branch(kind_at(p, fs.kind, t) != DIR):
            p.raise_("NotADirectoryError" if p.branch(kind_at(p, fs.kind, t) == FILE) else "FileNotFoundError")
        h = HList(seq=p.engine.uf("listdir", S, fs.kind.sort(), PVSEQ)(t, fs.kind))
        h.tag["elem"] = "str"
        h.tag["listdir_of"] = t
        p.engine.assumption("os.listdir(d): a name n (one path component) is listed iff join(d, n) exists")
        return p.alloc(h)
    E["os.listdir"] = os_listdir

    # ---- directory walk: spec functions defined by the recursion over directory entries (ground unfolding instances) ----------
    def _entries_term(p, t):
        fs = fs_of(p)
        return p.engine.uf("iterdir", S, fs.kind.sort(), PVSEQ)(t, fs.kind)

    def path_iterdir(p, recv, args, kw):
        """Path.iterdir(): the entries of the directory as path strings join(dir, name), each entry once, in an arbitrary order
        (an opaque sequence); the children are handed on as strings"""
        t = p.heap[recv.rid].fields["pathstr"].t
        h = HList(seq=_entries_term(p, t))
        h.tag["elem"] = "str"
        X = h.seq
        h.tag["elem_fact"] = lambda i, X=X: PV.is_PStr(X[i])
        p.engine.assumption("Path.iterdir(): every entry of the directory exactly once, as a path below it; the file system does not "
                            "change during the walk and is a finite tree (no symlink cycles)")
        return p.alloc(h)
    M[("obj:Path", "iterdir")] = path_iterdir

    def s_entries(p, path):
        h = HList(seq=_entries_term(p, str_term(p, path)))
        h.tag["elem"] = "str"
        return p.alloc(h)
    SF["entries"] = s_entries

    def _under(p):
        fs = fs_of(p)
        return p.engine.uf("file_under", S, S, fs.kind.sort(), B), p.engine.uf("file_under_any", PVSEQ, I, S, fs.kind.sort(), B), fs

    def s_file_under(p, path, f):
        """f is a regular file at or below path (the set of files a walk of path must report)"""
        u, _, fs = _under(p)
        return VBool(u(str_term(p, path), str_term(p, f), fs.kind))
    SF["file_under"] = s_file_under

    def s_file_under_any(p, E, i, f):
        """f is a regular file at or below one of the first i entries of E"""
        _, ua, fs = _under(p)
        X, ft = p.list_seq(p.deref(E)), str_term(p, f)
        p.assume(z3.Not(ua(X, z3.IntVal(0), ft, fs.kind)))          # definition: nothing lies under the first 0 entries
        return VBool(ua(X, p.as_int(i), ft, fs.kind))
    SF["file_under_any"] = s_file_under_any

    def s_under_unfold(p, path, f):
        """ground instance of the definition of file_under at `path`"""
        p.engine.assumption('spec functions file_under / size_under: the regular files at or below a path, defined by the recursion over directory entries (ground unfolding instances)')
        u, ua, fs = _under(p)
        t, ft = str_term(p, path), str_term(p, f)
        k = kind_at(p, fs.kind, t)
        E = _entries_term(p, t)
        return VBool(z3.And(z3.Implies(k == FILE, u(t, ft, fs.kind) == (ft == t)),
                            z3.Implies(k == DIR, u(t, ft, fs.kind) == ua(E, z3.Length(E), ft, fs.kind)),
                            z3.Implies(k == ABSENT, z3.Not(u(t, ft, fs.kind))),
                            z3.Not(ua(E, z3.IntVal(0), ft, fs.kind))))
    SF["under_unfold"] = s_under_unfold

    def s_under_step(p, E, i, f):
        """ground instance: the first i+1 entries cover what the first i cover plus what lies under entry i"""
        u, ua, fs = _under(p)
        X, it, ft = p.list_seq(p.deref(E)), p.as_int(i), str_term(p, f)
        return VBool(z3.And(z3.Not(ua(X, z3.IntVal(0), ft, fs.kind)),
                            z3.Implies(z3.And(it >= 0, it < z3.Length(X)),
                                       ua(X, it + 1, ft, fs.kind) == z3.Or(ua(X, it, ft, fs.kind), u(PV.sval(X[it]), ft, fs.kind)))))
    SF["under_step"] = s_under_step

    def _sizes(p):
        fs = fs_of(p)
        return (p.engine.uf("size_under", S, fs.kind.sort(), fs.data.sort(), I),
                p.engine.uf("size_under_first", PVSEQ, I, fs.kind.sort(), fs.data.sort(), I), fs)

    def s_size_under(p, path):
        """total size of the regular files at or below path"""
        su, _, fs = _sizes(p)
        return VInt(su(str_term(p, path), fs.kind, fs.data))
    SF["size_under"] = s_size_under

    def s_size_under_first(p, E, i):
        _, sp, fs = _sizes(p)
        X = p.list_seq(p.deref(E))
        p.assume(sp(X, z3.IntVal(0), fs.kind, fs.data) == 0)
        return VInt(sp(X, p.as_int(i), fs.kind, fs.data))
    SF["size_under_first"] = s_size_under_first

    def s_size_unfold(p, path):
        su, sp, fs = _sizes(p)
        t = str_term(p, path)
        k = kind_at(p, fs.kind, t)
        E = _entries_term(p, t)
        return VBool(z3.And(z3.Implies(k == FILE, su(t, fs.kind, fs.data) == z3.Length(z3.Select(fs.data, t))),
                            z3.Implies(k == DIR, su(t, fs.kind, fs.data) == sp(E, z3.Length(E), fs.kind, fs.data)),
                            z3.Implies(k == ABSENT, su(t, fs.kind, fs.data) == 0),
                            sp(E, z3.IntVal(0), fs.kind, fs.data) == 0))
    SF["size_unfold"] = s_size_unfold

    def s_size_step(p, E, i):
        su, sp, fs = _sizes(p)
        X, it = p.list_seq(p.deref(E)), p.as_int(i)
        return VBool(z3.And(sp(X, z3.IntVal(0), fs.kind, fs.data) == 0,
                            z3.Implies(z3.And(it >= 0, it < z3.Length(X)),
                                       sp(X, it + 1, fs.kind, fs.data) == sp(X, it, fs.kind, fs.data) + su(PV.sval(X[it]), fs.kind, fs.data))))
    SF["size_step"] = s_size_step

    # ---- BEP 52 file tree of a directory: spec functions defined by the recursion over the sorted listing --------------------
    def _sn_term(p, t):
        fs = fs_of(p)
        return p.engine.uf("sorted_listdir", S, fs.kind.sort(), PVSEQ)(t, fs.kind)

    def sorted_listdir_value(p, t):
        """sorted(os.listdir(d)): a function of the directory (the set of names, in ascending order)"""
        h = HList(seq=_sn_term(p, t))
        h.tag["elem"] = "str"
        h.tag["listdir_of"] = t            # membership: a name is listed iff join(d, name) exists
        X = h.seq
        h.tag["elem_fact"] = lambda i, X=X: PV.is_PStr(X[i])
        return p.alloc(h)
    reg.sorted_listdir_value = sorted_listdir_value

    def s_sorted_names(p, path):
        return sorted_listdir_value(p, str_term(p, path))
    SF["sorted_names"] = s_sorted_names

    def s_file_root(p, content, amount):
        """BEP 52 pieces root of a non-empty byte string for pieces of `amount` blocks (defined through file_root_def)"""
        return VBytes(p.engine.uf("file_root", BYTES, I, BYTES)(p.bytes_term(content), p.as_int(amount)))
    SF["file_root"] = s_file_root

    def s_file_root_def(p, content, amount, L):
        """ground instance of the definition: the root is the merkle root of ANY list L that consists of the piece roots of the
        content followed by zero-piece roots up to the next power of two (that list is unique: L4)"""
        p.engine.assumption('spec function file_root: merkle root of the piece roots of the content padded with zero-piece roots to the next power of two (file_root_def; the padded list is unique by L4)')
        fr = p.engine.uf("file_root", BYTES, I, BYTES)
        ct, a = p.bytes_term(content), p.as_int(amount)
        Ls = p.list_seq(p.deref(L)) if not isinstance(L, VBox) else PV.items(L.t)
        PR = PV.items(SF["piece_roots"](p, VBytes(ct), VInt(a)).t)
        Z = SF["mroot"](p, SF["zero_digests"](p, VInt(a)))
        pad = PV.items(SF["repeat_digest"](p, Z, VInt(z3.Length(Ls) - z3.Length(PR))).t)
        ok = z3.And(Ls == z3.Concat(PR, pad), p.engine.is_pow2(p, z3.Length(Ls)), z3.Length(PR) <= z3.Length(Ls),
                    z3.Or(z3.Length(Ls) < 2 * z3.Length(PR), z3.Length(Ls) == 1))
        return VBool(z3.Implies(ok, fr(ct, a) == SF["mroot"](p, VBox(PV.PList(Ls))).t))
    SF["file_root_def"] = s_file_root_def

    def _tree_ufs(p):
        fs = fs_of(p)
        return (p.engine.uf("tree_of", S, I, fs.kind.sort(), fs.data.sort(), PV),
                p.engine.uf("tree_first", PVSEQ, I, S, I, fs.kind.sort(), fs.data.sort(), PV), fs)

    def s_tree_of(p, path, amount):
        """the BEP 52 file tree of what lies at path: {'': {length[, pieces root]}} for a file, {name: tree_of(child)} over the
        ascending listing for a directory, {} for anything else"""
        to, _, fs = _tree_ufs(p)
        return VBox(to(str_term(p, path), p.as_int(amount), fs.kind, fs.data))
    SF["tree_of"] = s_tree_of

    def s_tree_first(p, N, i, path, amount):
        _, tf, fs = _tree_ufs(p)
        X, t, a = p.list_seq(p.deref(N)), str_term(p, path), p.as_int(amount)
        p.assume(tf(X, z3.IntVal(0), t, a, fs.kind, fs.data) == PV.PDict(z3.Empty(KEYSEQ), z3.K(KEY, z3.BoolVal(False)), z3.K(KEY, PV.PNone)))
        return VBox(tf(X, p.as_int(i), t, a, fs.kind, fs.data))
    SF["tree_first"] = s_tree_first

    def _pv_dict(p, items):
        return p.dict_term(HDict(over=dict(items)))

    def s_tree_unfold(p, path, amount):
        """ground instance of the definition of tree_of at path"""
        p.engine.assumption("spec function tree_of: BEP 52 file tree of a path -- {'': {length[, pieces root]}} for a file, {name: tree_of(child)} over sorted(os.listdir) for a directory, {} otherwise (ground unfolding instances)")
        to, tf, fs = _tree_ufs(p)
        t, a = str_term(p, path), p.as_int(amount)
        k = kind_at(p, fs.kind, t)
        data = z3.Select(fs.data, t)
        n = z3.Length(data)
        root = p.engine.uf("file_root", BYTES, I, BYTES)(data, a)
        leaf0 = p.alloc(HDict(over={"length": VInt(n)}))
        leaf1 = p.alloc(HDict(over={"length": VInt(n), "pieces root": VBytes(root)}))
        d0 = _pv_dict(p, [("", leaf0)])
        d1 = _pv_dict(p, [("", leaf1)])
        N = _sn_term(p, t)
        empty = PV.PDict(z3.Empty(KEYSEQ), z3.K(KEY, z3.BoolVal(False)), z3.K(KEY, PV.PNone))
        T = to(t, a, fs.kind, fs.data)
        return VBool(z3.And(z3.Implies(z3.And(k == FILE, n == 0), T == d0),
                            z3.Implies(z3.And(k == FILE, n > 0), T == d1),
                            z3.Implies(k == DIR, T == tf(N, z3.Length(N), t, a, fs.kind, fs.data)),
                            z3.Implies(k == ABSENT, T == empty),
                            tf(N, z3.IntVal(0), t, a, fs.kind, fs.data) == empty))
    SF["tree_unfold"] = s_tree_unfold

    def s_tree_step(p, N, i, path, amount):
        """ground instance: the tree over the first i+1 names is the tree over the first i with names[i] -> tree_of(join(path, names[i]))
        set in it (python dict assignment: an existing key keeps its place, a new one goes to the end)"""
        to, tf, fs = _tree_ufs(p)
        X, it, t, a = p.list_seq(p.deref(N)), p.as_int(i), str_term(p, path), p.as_int(amount)
        Ti = tf(X, it, t, a, fs.kind, fs.data)
        kt = KEY.KStr(PV.sval(X[it]))
        child = p.engine.uf("pathjoin", S, S, S)(t, PV.sval(X[it]))
        nxt = PV.PDict(p.keys_add(PV.dkeys(Ti), PV.dhas(Ti), kt), z3.Store(PV.dhas(Ti), kt, True),
                       z3.Store(PV.dmap(Ti), kt, to(child, a, fs.kind, fs.data)))
        return VBool(z3.Implies(z3.And(it >= 0, it < z3.Length(X), PV.is_PDict(Ti)), tf(X, it + 1, t, a, fs.kind, fs.data) == nxt))
    SF["tree_step"] = s_tree_step

    def _big(p):
        fs = fs_of(p)
        return (p.engine.uf("layered_under", S, BYTES, I, fs.kind.sort(), fs.data.sort(), B),
                p.engine.uf("layered_under_first", PVSEQ, I, S, BYTES, I, fs.kind.sort(), fs.data.sort(), B), fs)

    def s_layered_under(p, path, k, pl):
        """k is the pieces root of a file larger than one piece at or below path (the keys piece layers must have)"""
        bu, _, fs = _big(p)
        return VBool(bu(str_term(p, path), p.bytes_term(k), p.as_int(pl), fs.kind, fs.data))
    SF["layered_under"] = s_layered_under

    def s_layered_under_first(p, N, i, path, k, pl):
        _, bf, fs = _big(p)
        X, t, kt, n = p.list_seq(p.deref(N)), str_term(p, path), p.bytes_term(k), p.as_int(pl)
        p.assume(z3.Not(bf(X, z3.IntVal(0), t, kt, n, fs.kind, fs.data)))
        return VBool(bf(X, p.as_int(i), t, kt, n, fs.kind, fs.data))
    SF["layered_under_first"] = s_layered_under_first

    def s_layered_unfold(p, path, k, pl):
        p.engine.assumption('spec function layered_under: k is the pieces root of a file larger than one piece at or below the path (ground unfolding instances)')
        bu, bf, fs = _big(p)
        t, kt, n = str_term(p, path), p.bytes_term(k), p.as_int(pl)
        kd = kind_at(p, fs.kind, t)
        data = z3.Select(fs.data, t)
        root = p.engine.uf("file_root", BYTES, I, BYTES)(data, n / 16384)
        N = _sn_term(p, t)
        v = bu(t, kt, n, fs.kind, fs.data)
        return VBool(z3.And(z3.Implies(kd == FILE, v == z3.And(z3.Length(data) > n, kt == root)),
                            z3.Implies(kd == DIR, v == bf(N, z3.Length(N), t, kt, n, fs.kind, fs.data)),
                            z3.Implies(kd == ABSENT, z3.Not(v)),
                            z3.Not(bf(N, z3.IntVal(0), t, kt, n, fs.kind, fs.data))))
    SF["layered_unfold"] = s_layered_unfold

    def s_layered_step(p, N, i, path, k, pl):
        bu, bf, fs = _big(p)
        X, it, t, kt, n = p.list_seq(p.deref(N)), p.as_int(i), str_term(p, path), p.bytes_term(k), p.as_int(pl)
        child = p.engine.uf("pathjoin", S, S, S)(t, PV.sval(X[it]))
        return VBool(z3.Implies(z3.And(it >= 0, it < z3.Length(X)),
                                bf(X, it + 1, t, kt, n, fs.kind, fs.data) == z3.Or(bf(X, it, t, kt, n, fs.kind, fs.data),
                                                                                  bu(child, kt, n, fs.kind, fs.data))))
    SF["layered_step"] = s_layered_step

    def s_basename(p, v):
        return VStr(p.engine.uf("basename", S, S)(str_term(p, v)))
    SF["basename"] = s_basename

    def s_path_str(p, v):
        return VStr(str_term(p, v))
    SF["path_str"] = s_path_str

    def s_fs_is_temp(p, path):
        t = str_term(p, path)
        temps = [ev["path"] for ev in p.events if ev.get("temp")]
        return VBool(z3.Or([t == x for x in temps] + [z3.BoolVal(False)]))
    SF["fs_is_temp"] = s_fs_is_temp
