"""Load contracts, verify functions (one process per function), return plain-data results."""
import importlib
import json
import multiprocessing as mp
import os
import sys
import time
import traceback

VERIF = os.path.dirname(os.path.dirname(os.path.abspath(__file__)))
if VERIF not in sys.path:
    sys.path.insert(0, VERIF)

CONTRACT_MODULES = ["utils_c", "edit_c", "commands_c", "torrent_c", "hasher_c", "recheck_c", "rebuild_c"]


def build_registry(only=None):
    from pyvc.engine import Registry
    from pyvc import models
    from pyvc.verifier import Engine
    reg = Registry()
    models.install(reg)
    if not getattr(Engine, "_theories", False):
        models.install_engine_theories(Engine)
        Engine._theories = True
    from contracts import specs
    specs.install(reg)
    for m in CONTRACT_MODULES:
        if only and m not in only:
            continue
        path = os.path.join(VERIF, "contracts", m + ".py")
        if not os.path.exists(path):
            continue
        mod = importlib.import_module("contracts." + m)
        mod.register(reg)
        for c in reg.contracts.values():
            if c.file is None:
                c.file = m
    return reg


def model_values(ob):
    """plain python values of the model for the symbolic inputs (best effort)"""
    out = {}
    m = ob.model
    if m is None:
        return out
    import z3
    for d in m.decls():
        if d.arity() != 0:
            continue
        v = m[d]
        name = d.name()
        try:
            if z3.is_int_value(v):
                out[name] = v.as_long()
            elif z3.is_string_value(v):
                out[name] = v.as_string()
            elif z3.is_true(v) or z3.is_false(v):
                out[name] = bool(z3.is_true(v))
            elif z3.is_rational_value(v):
                out[name] = str(v)
            else:
                s = str(v)
                out[name] = s if len(s) < 400 else s[:400] + "..."
        except Exception:      # noqa: BLE001
            pass
    return out


def discharge_forked(eng, ob, use_cvc5, hard_s):
    """Discharge one obligation in a forked child with a hard wall-clock limit.  z3 5.1 occasionally spins inside the sequence
    solver without honouring its timeout, its rlimit or Z3_interrupt; the only reliable stop is to kill the process.  A killed
    child leaves the obligation undecided (never a violation)."""
    import select
    import signal
    r, w = os.pipe()
    pid = os.fork()
    if pid == 0:
        code = 0
        try:
            os.close(r)
            eng.discharge(ob, use_cvc5=use_cvc5)
            payload = {"verdict": ob.verdict, "backend": ob.backend, "time": ob.time,
                       "model": model_values(ob) if ob.verdict == "sat" and ob.kind != "canary" else None}
            data = json.dumps(payload, default=str).encode()
            while data:
                n = os.write(w, data)
                data = data[n:]
        except BaseException:      # noqa: BLE001
            code = 1
        finally:
            os._exit(code)
    os.close(w)
    t0 = time.time()
    chunks = []
    killed = False
    while True:
        left = hard_s - (time.time() - t0)
        if left <= 0:
            killed = True
            break
        ready, _, _ = select.select([r], [], [], min(left, 5.0))
        if ready:
            b = os.read(r, 65536)
            if not b:
                break
            chunks.append(b)
    if killed:
        try:
            os.kill(pid, signal.SIGKILL)
        except OSError:
            pass
    os.close(r)
    try:
        os.waitpid(pid, 0)
    except OSError:
        pass
    if not killed and chunks:
        try:
            d = json.loads(b"".join(chunks).decode())
            ob.verdict, ob.backend, ob.time = d["verdict"], d["backend"], d["time"]
            return d["model"]
        except ValueError:
            pass
    if killed and not getattr(ob, "z3_seed", 0):
        # one more attempt with another solver seed: the spin depends on the search order, not on the obligation
        ob.z3_seed = 7
        return discharge_forked(eng, ob, use_cvc5, hard_s)
    ob.verdict, ob.backend, ob.time = "unknown", ("killed-after-%ds" % int(hard_s)) if killed else "solver-process-failed", time.time() - t0
    return None


def _verify_one(args):
    qualname, timeout_ms, use_cvc5, mutate = args[:4]
    shard, nshards = (args[4], args[5]) if len(args) > 5 else (0, 1)
    try:
        if os.environ.get("PYVC_HANGLOG"):
            import faulthandler
            faulthandler.dump_traceback_later(120, repeat=True, file=open(os.environ["PYVC_HANGLOG"], "a"))
        import z3  # noqa: F401
        from pyvc.verifier import Engine
        from pyvc.source import Repo
        reg = build_registry()
        repo = Repo()
        if mutate:
            from pyvc import mutants
            mutants.apply(repo, mutate)
        eng = Engine(reg, repo, timeout_ms=timeout_ms)
        for q, c in reg.contracts.items():
            if c.inline:
                eng.inline_ok.add(q)
        c0 = reg.contracts.get(qualname)
        by_variant = bool(c0 is not None and c0.variants and c0.extra.get("shard_by") == "variant" and nshards > 1)
        if by_variant:
            # each shard executes and discharges its own contract variants (the symbolic execution is the expensive part)
            rep = eng.verify(qualname, only_variants=[v for v in range(len(c0.variants)) if v % nshards == shard])
            shard, nshards = 0, 1
        else:
            rep = eng.verify(qualname)
        obs = []
        t_start = time.time()
        func_budget = float(os.environ.get("PYVC_FUNC_BUDGET_S", "240"))
        for oi, ob in enumerate(rep.obligations):
            if oi % nshards != shard:
                continue
            model = None
            if time.time() - t_start > func_budget:
                # solver budget of this function is used up: the remaining obligations stay undecided (never a violation)
                ob.verdict, ob.backend, ob.time = "unknown", "budget-exhausted", 0.0
            else:
                model = discharge_forked(eng, ob, use_cvc5, 4.0 * timeout_ms / 1000.0 + 30.0)
            obs.append({
                "name": ob.name, "kind": ob.kind, "props": ob.props, "func": ob.func, "verdict": ob.verdict,
                "backend": ob.backend, "time": round(ob.time, 4), "note": ob.note, "variant": getattr(ob, "variant", 0),
                "path": "".join("T" if d else "F" for d in (ob.path or [])),
                "model": model if ob.verdict == "sat" and ob.kind != "canary" else None,
                "goal": (str(ob.goal)[:300] if ob.kind != "canary" else "False"),
                "npc": len(ob.pc),
            })
        return {"func": qualname, "status": rep.status, "reason": rep.reason, "paths": rep.paths, "time": round(rep.time, 3),
                "digest": rep.digest, "obligations": obs, "assumptions": list(eng.assumptions) + [f"inlined (no contract of its own): {q}" for q in sorted(eng.inlined)],
                "variants": rep.variants}
    except Exception as e:      # noqa: BLE001
        return {"func": qualname, "status": "crash", "reason": f"{type(e).__name__}: {e}\n{traceback.format_exc()[-1500:]}",
                "paths": 0, "time": 0, "digest": None, "obligations": [], "assumptions": [], "variants": 0}


def _job_child(job, conn):
    try:
        conn.send(_verify_one(job))
    finally:
        conn.close()


def run_jobs(jobs, procs, deadline_s):
    """every job in its own forked process, at most `procs` at a time, each killed at its deadline (symbolic execution itself can
    get stuck in a solver call); a killed job reports status 'timeout' -- undecided, never a violation"""
    ctx = mp.get_context("fork")
    pending = list(enumerate(jobs))
    running = {}
    out = [None] * len(jobs)
    while pending or running:
        while pending and len(running) < procs:
            i, job = pending.pop(0)
            pr, pw = ctx.Pipe(duplex=False)
            proc = ctx.Process(target=_job_child, args=(job, pw))
            proc.start()
            pw.close()
            running[i] = (proc, pr, time.time(), job)
        done = []
        for i, (proc, pr, t0, job) in running.items():
            if pr.poll(0.05):
                try:
                    out[i] = pr.recv()
                except (EOFError, OSError):
                    out[i] = None
                proc.join(10)
                done.append(i)
            elif not proc.is_alive():
                proc.join(1)
                done.append(i)
            elif time.time() - t0 > deadline_s:
                proc.kill()
                proc.join(5)
                out[i] = {"func": job[0], "status": "timeout", "reason": f"killed after {int(deadline_s)}s (solver stuck during symbolic execution)",
                          "paths": 0, "time": deadline_s, "digest": None, "obligations": [], "assumptions": [], "variants": 0}
                done.append(i)
        for i in done:
            proc, pr, t0, job = running.pop(i)
            pr.close()
            if out[i] is None:
                out[i] = {"func": job[0], "status": "crash", "reason": "worker process died without a result", "paths": 0, "time": 0,
                          "digest": None, "obligations": [], "assumptions": [], "variants": 0}
    return out


def verify_functions(qualnames, timeout_ms=10000, use_cvc5=True, procs=None, mutate=None, shards=None):
    """shards: {qualname: n} -- the obligations of that function are discharged by n processes (each re-runs the
    symbolic execution, which is cheap compared with solving)"""
    shards = shards or {}
    jobs = []
    for q in qualnames:
        n = shards.get(q, 1)
        for k in range(n):
            jobs.append((q, timeout_ms, use_cvc5, mutate, k, n))
    procs = procs or min(14, max(1, len(jobs)))
    raw = run_jobs(jobs, procs, float(os.environ.get("PYVC_JOB_DEADLINE_S", "600")))
    merged = {}
    for r in raw:
        m = merged.get(r["func"])
        if m is None:
            merged[r["func"]] = r
            continue
        m["obligations"].extend(r["obligations"])
        m["time"] = max(m["time"], r["time"])
        for a in r["assumptions"]:
            if a not in m["assumptions"]:
                m["assumptions"].append(a)
        if r["status"] != "ok" and m["status"] == "ok":
            m["status"], m["reason"] = r["status"], r["reason"]
    return [merged[q] for q in qualnames if q in merged]


def pin_hash_seed():
    """string hashing decides the iteration order of sets of names, hence the order in which terms are built and asserted, hence
    the solver's search: pin it so that every run of the same tree asks the solver the same questions in the same order"""
    if os.environ.get("PYTHONHASHSEED") != "0":
        os.environ["PYTHONHASHSEED"] = "0"
        os.execv(sys.executable, [sys.executable] + sys.argv)


if __name__ == "__main__":
    if os.environ.get("PYTHONHASHSEED") != "0":
        os.environ["PYTHONHASHSEED"] = "0"
        os.execv(sys.executable, [sys.executable, "-m", "pyvc.run"] + sys.argv[1:])
    res = verify_functions(sys.argv[1:], procs=1)
    for r in res:
        print(r["func"], r["status"], r["reason"] or "", "paths", r["paths"], "time", r["time"])
        for ob in r["obligations"]:
            flag = {"unsat": "ok ", "sat": "REF", "unknown": "???"}[ob["verdict"]]
            if ob["kind"] == "canary":
                flag = {"unsat": "VAC", "sat": "ok ", "unknown": "???"}[ob["verdict"]]
            print("  ", flag, ob["kind"], ob["name"], ob["props"], ob["path"], ob["time"], ob["backend"],
                  (ob["model"] if ob["kind"] != "canary" and ob["verdict"] == "sat" else ""))
