"""Load contracts, verify functions (one process per function), return plain-data results."""
import importlib
import json
import multiprocessing as mp
import os
import sys
import time
import traceback

VERIF = os.path.dirname(os.path.dirname(os.path.abspath(__file__)))
if VERIF not in sys.path:
    sys.path.insert(0, VERIF)

CONTRACT_MODULES = ["utils_c", "edit_c", "commands_c", "torrent_c", "hasher_c", "recheck_c", "rebuild_c"]


def build_registry(only=None):
    from pyvc.engine import Registry
    from pyvc import models
    from pyvc.verifier import Engine
    reg = Registry()
    models.install(reg)
    if not getattr(Engine, "_theories", False):
        models.install_engine_theories(Engine)
        Engine._theories = True
    from contracts import specs
    specs.install(reg)
    for m in CONTRACT_MODULES:
        if only and m not in only:
            continue
        path = os.path.join(VERIF, "contracts", m + ".py")
        if not os.path.exists(path):
            continue
        mod = importlib.import_module("contracts." + m)
        mod.register(reg)
        for c in reg.contracts.values():
            if c.file is None:
                c.file = m
    return reg


def model_values(ob):
    """plain python values of the model for the symbolic inputs (best effort)"""
    out = {}
    m = ob.model
    if m is None:
        return out
    import z3
    for d in m.decls():
        if d.arity() != 0:
            continue
        v = m[d]
        name = d.name()
        try:
            if z3.is_int_value(v):
                out[name] = v.as_long()
            elif z3.is_string_value(v):
                out[name] = v.as_string()
            elif z3.is_true(v) or z3.is_false(v):
                out[name] = bool(z3.is_true(v))
            elif z3.is_rational_value(v):
                out[name] = str(v)
            else:
                s = str(v)
                out[name] = s if len(s) < 400 else s[:400] + "..."
        except Exception:      # noqa: BLE001
            pass
    return out


def _verify_one(args):
    qualname, timeout_ms, use_cvc5, mutate = args[:4]
    shard, nshards = (args[4], args[5]) if len(args) > 5 else (0, 1)
    try:
        import z3  # noqa: F401
        from pyvc.verifier import Engine
        from pyvc.source import Repo
        reg = build_registry()
        repo = Repo()
        if mutate:
            from pyvc import mutants
            mutants.apply(repo, mutate)
        eng = Engine(reg, repo, timeout_ms=timeout_ms)
        for q, c in reg.contracts.items():
            if c.inline:
                eng.inline_ok.add(q)
        rep = eng.verify(qualname)
        obs = []
        t_start = time.time()
        func_budget = float(os.environ.get("PYVC_FUNC_BUDGET_S", "240"))
        for oi, ob in enumerate(rep.obligations):
            if oi % nshards != shard:
                continue
            if time.time() - t_start > func_budget:
                # solver budget of this function is used up: the remaining obligations stay undecided (never a violation)
                ob.verdict, ob.backend, ob.time = "unknown", "budget-exhausted", 0.0
            else:
                eng.discharge(ob, use_cvc5=use_cvc5)
            obs.append({
                "name": ob.name, "kind": ob.kind, "props": ob.props, "func": ob.func, "verdict": ob.verdict,
                "backend": ob.backend, "time": round(ob.time, 4), "note": ob.note, "variant": getattr(ob, "variant", 0),
                "path": "".join("T" if d else "F" for d in (ob.path or [])),
                "model": model_values(ob) if ob.verdict == "sat" and ob.kind != "canary" else None,
                "goal": (str(ob.goal)[:300] if ob.kind != "canary" else "False"),
                "npc": len(ob.pc),
            })
        return {"func": qualname, "status": rep.status, "reason": rep.reason, "paths": rep.paths, "time": round(rep.time, 3),
                "digest": rep.digest, "obligations": obs, "assumptions": list(eng.assumptions) + [f"inlined (no contract of its own): {q}" for q in sorted(eng.inlined)],
                "variants": rep.variants}
    except Exception as e:      # noqa: BLE001
        return {"func": qualname, "status": "crash", "reason": f"{type(e).__name__}: {e}\n{traceback.format_exc()[-1500:]}",
                "paths": 0, "time": 0, "digest": None, "obligations": [], "assumptions": [], "variants": 0}


def verify_functions(qualnames, timeout_ms=10000, use_cvc5=True, procs=None, mutate=None, shards=None):
    """shards: {qualname: n} -- the obligations of that function are discharged by n processes (each re-runs the
    symbolic execution, which is cheap compared with solving)"""
    shards = shards or {}
    jobs = []
    for q in qualnames:
        n = shards.get(q, 1)
        for k in range(n):
            jobs.append((q, timeout_ms, use_cvc5, mutate, k, n))
    procs = procs or min(14, max(1, len(jobs)))
    if procs == 1 or len(jobs) == 1:
        raw = [_verify_one(j) for j in jobs]
    else:
        ctx = mp.get_context("fork")
        with ctx.Pool(procs) as pool:
            raw = pool.map(_verify_one, jobs, chunksize=1)
    merged = {}
    for r in raw:
        m = merged.get(r["func"])
        if m is None:
            merged[r["func"]] = r
            continue
        m["obligations"].extend(r["obligations"])
        m["time"] = max(m["time"], r["time"])
        for a in r["assumptions"]:
            if a not in m["assumptions"]:
                m["assumptions"].append(a)
        if r["status"] != "ok" and m["status"] == "ok":
            m["status"], m["reason"] = r["status"], r["reason"]
    return [merged[q] for q in qualnames if q in merged]


if __name__ == "__main__":
    res = verify_functions(sys.argv[1:], procs=1)
    for r in res:
        print(r["func"], r["status"], r["reason"] or "", "paths", r["paths"], "time", r["time"])
        for ob in r["obligations"]:
            flag = {"unsat": "ok ", "sat": "REF", "unknown": "???"}[ob["verdict"]]
            if ob["kind"] == "canary":
                flag = {"unsat": "VAC", "sat": "ok ", "unknown": "???"}[ob["verdict"]]
            print("  ", flag, ob["kind"], ob["name"], ob["props"], ob["path"], ob["time"], ob["backend"],
                  (ob["model"] if ob["kind"] != "canary" and ob["verdict"] == "sat" else ""))
