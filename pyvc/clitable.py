"""Extract the argparse table of cli.execute from the real source (DESIGN.md section 4: 'cli').
Used as *data* in C07 / C20 obligations; argparse itself is an assumed dependency."""
import ast


def extract(repo):
    m = repo.modules["torrentfile.cli"]
    fn = m.functions["execute"].node
    table = {}
    for n in ast.walk(fn):
        if isinstance(n, ast.Call) and isinstance(n.func, ast.Attribute) and n.func.attr == "add_argument" \
                and isinstance(n.func.value, ast.Name):
            parser = n.func.value.id
            flags = [a.value for a in n.args if isinstance(a, ast.Constant) and isinstance(a.value, str)]
            kw = {}
            for k in n.keywords:
                try:
                    kw[k.arg] = ast.literal_eval(k.value)
                except (ValueError, SyntaxError):
                    kw[k.arg] = ast.unparse(k.value)
            dest = kw.get("dest")
            if dest is None:
                longs = [f for f in flags if f.startswith("--")]
                first = longs[0] if longs else flags[0]
                dest = first.lstrip("-").replace("-", "_")
            action = kw.get("action", "store")
            default = kw.get("default", False if action == "store_true" else None)
            table.setdefault(parser, []).append({"flags": flags, "dest": dest, "action": action, "nargs": kw.get("nargs"),
                                                 "default": default, "choices": kw.get("choices"),
                                                 "positional": bool(flags) and not flags[0].startswith("-")})
    return table


def flag_dest(table, parser, name):
    """dest of the option whose long flag is --<name> in the given sub-parser (None if there is no such flag)"""
    for e in table.get(parser, []):
        if ("--" + name) in e["flags"]:
            return e
    return None
