"""pyvc -- a small contract-driven verification-condition generator for a stated
subset of Python, built for /repo/torrentfile (see /verif/DESIGN.md section 3).

It parses the *real* source text of the repository on every run (never imports
it), symbolically executes the functions named by the sidecar contracts in
/verif/contracts, and discharges the resulting obligations with z3 (cvc5 as
second back end).  Runs under python3-vt (z3-solver 5.1).
"""
