"""Built-in models: Python builtins, methods of builtin types, and the assumed contracts of externals
(math, os.path, hashlib ...).  Every model that is an *assumption* about an external records it through
engine.assumption() so that evidence lists it."""
import ast
import z3

from .values import *  # noqa: F401,F403
from .engine import Unsupported, PyRaise, PathEnd, ContractError


def install(reg):
    E = reg.externals
    M = reg.methods
    reg.extra_types = getattr(reg, "extra_types", {})
    install_configparser(reg)
    install_misc_externals(reg)

    # ------------------------------------------------------------------ builtins
    def b_len(p, args, kw):
        (x,) = args
        if isinstance(x, VBox) and p.pure:
            t = x.t
            det = [z3.simplify(f(t)) for f in (PV.is_PBytes, PV.is_PStr, PV.is_PList, PV.is_PTuple, PV.is_PDict)]
            if not any(z3.is_true(d) for d in det):
                # specification context, type undetermined: len(x) by constructor (0 for values without a length)
                return VInt(z3.If(PV.is_PBytes(t), z3.Length(PV.yval(t)),
                            z3.If(PV.is_PStr(t), z3.Length(PV.sval(t)),
                            z3.If(PV.is_PList(t), z3.Length(PV.items(t)),
                            z3.If(PV.is_PTuple(t), z3.Length(PV.titems(t)),
                            z3.If(PV.is_PDict(t), z3.Length(PV.dkeys(t)), z3.IntVal(0)))))))
        if isinstance(x, VBox):
            x = p.unbox(x)
        if isinstance(x, (VStr, VBytes)):
            return VInt(z3.Length(x.t))
        if isinstance(x, VTuple):
            return VInt(len(x.items))
        if isinstance(x, VRef):
            h = p.heap[x.rid]
            if isinstance(h, HBytes):
                return VInt(h.length if h.length is not None else z3.Length(h.t))
            if isinstance(h, HList):
                return VInt(p.list_len(h))
            if isinstance(h, HDict):
                if h.sym is None:
                    return VInt(sum(1 for v in h.over.values() if v is not DELETED))
                return VInt(z3.Length(PV.dkeys(p.dict_term(h))))
            if isinstance(h, HObj) and not isinstance(h.cls, str):
                mi = p.repo.lookup_method(h.cls, "__len__")
                if mi is not None:
                    return p.call_repo(mi, [x], {})
        raise Unsupported(f"len of {x!r}")
    E["len"] = b_len

    def b_isinstance(p, args, kw):
        x, cls = args
        names = [c.name for c in cls.items] if isinstance(cls, VTuple) else [cls.name]
        res = []
        for nme in names:
            nme = nme.split(".")[-1]
            res.append(_isinstance(p, x, nme))
        return VBool(z3.Or(res))
    E["isinstance"] = b_isinstance

    def _isinstance(p, x, nme):
        if isinstance(x, VBox):
            t = x.t
            tests = {"str": PV.is_PStr(t), "int": z3.Or(PV.is_PInt(t), PV.is_PBool(t)), "bool": PV.is_PBool(t),
                     "bytes": PV.is_PBytes(t), "list": PV.is_PList(t), "dict": PV.is_PDict(t), "tuple": PV.is_PTuple(t),
                     "float": PV.is_PFloat(t), "Sequence": z3.Or(PV.is_PStr(t), PV.is_PList(t), PV.is_PTuple(t), PV.is_PBytes(t)),
                     "bytearray": z3.BoolVal(False)}
            if nme in tests:
                return tests[nme]
            raise Unsupported(f"isinstance(box, {nme})")
        kind = x.kind
        if isinstance(x, VRef):
            h = p.heap[x.rid]
            kind = {HList: "list", HDict: "dict", HBytes: "bytearray", HSet: "set"}.get(type(h), "obj")
            if kind == "obj" and isinstance(h, HObj) and not isinstance(h.cls, str):
                return z3.BoolVal(any(c.qualname.split(".")[-1] == nme for c in p.repo.mro(h.cls)))
        table = {"int": {"int", "bool"}, "str": {"str"}, "bool": {"bool"}, "bytes": {"bytes"}, "list": {"list"},
                 "dict": {"dict"}, "tuple": {"tuple"}, "float": {"float"}, "bytearray": {"bytearray"},
                 "Sequence": {"str", "list", "tuple", "bytes", "bytearray", "range"}, "set": {"set"}}
        if nme in table:
            return z3.BoolVal(kind in table[nme])
        raise Unsupported(f"isinstance(_, {nme})")

    def b_int(p, args, kw):
        (x,) = args
        if isinstance(x, VBox):
            x = p.unbox(x)
        if isinstance(x, VInt):
            return x
        if isinstance(x, VBool):
            return VInt(z3.If(x.t, 1, 0))
        if isinstance(x, VFloat):
            # truncation toward zero
            t = x.t
            return VInt(z3.If(t >= 0, z3.ToInt(t), -z3.ToInt(-t)))
        if isinstance(x, VStr):
            return p.engine.int_of_str(p, x.t)
        raise Unsupported(f"int({x!r})")
    E["int"] = b_int

    def b_float(p, args, kw):
        (x,) = args
        x = p.unbox(x)
        if isinstance(x, VInt):
            p.engine.assumption("float(int) read exactly (float-as-exact-rational)")
            return VFloat(z3.ToReal(x.t))
        if isinstance(x, VFloat):
            return x
        raise Unsupported("float()")
    E["float"] = b_float

    def b_str(p, args, kw):
        if not args:
            return VStr("")
        return p.to_str(args[0])
    E["str"] = b_str

    def b_bool(p, args, kw):
        return VBool(p.truth(args[0])) if args else VBool(False)
    E["bool"] = b_bool

    def b_abs(p, args, kw):
        x = p.unbox(args[0])
        if isinstance(x, VInt):
            return VInt(z3.If(x.t >= 0, x.t, -x.t))
        if isinstance(x, VFloat):
            return VFloat(z3.If(x.t >= 0, x.t, -x.t))
        raise Unsupported("abs")
    E["abs"] = b_abs

    def b_bytes(p, args, kw):
        if not args:
            return VBytes(b"")
        x = p.unbox(args[0])
        if isinstance(x, VInt):
            return VBytes(p.engine.zeros(p, x.t))
        t = p.bytes_term(x)
        if t is not None:
            return VBytes(t)
        raise Unsupported("bytes()")
    E["bytes"] = b_bytes

    def b_bytearray(p, args, kw):
        if not args:
            return p.alloc(HBytes(z3.Empty(BYTES)))
        x = p.unbox(args[0])
        if isinstance(x, VInt):
            ns = z3.simplify(x.t)
            if z3.is_int_value(ns) and ns.as_long() > 64:
                # a large concrete buffer: opaque content, length tracked outside the sequence theory
                return p.alloc(HBytes(p.fresh("buffer", BYTES), length=ns))
            return p.alloc(HBytes(p.engine.zeros(p, x.t)))
        t = p.bytes_term(x)
        if t is not None:
            return p.alloc(HBytes(t))
        raise Unsupported("bytearray()")
    E["bytearray"] = b_bytearray

    def b_list(p, args, kw):
        if not args:
            return p.alloc(HList(items=[]))
        x = args[0]
        if isinstance(x, VBox):
            x = p.unbox(x)
        if isinstance(x, VRef):
            h = p.heap[x.rid]
            if isinstance(h, HList):
                return p.alloc(h.clone())
            if isinstance(h, HGen) and getattr(h, "as_list", None):
                return h.as_list(p)
        src = p.iter_source(x)
        if src["kind"] == "concrete":
            return p.alloc(HList(items=src["items"]))
        return p.alloc(HList(rule=(src["len"], src["get"])))
    E["list"] = b_list

    def b_tuple(p, args, kw):
        if not args:
            return VTuple([])
        src = p.iter_source(args[0])
        if src["kind"] == "concrete":
            return VTuple(src["items"])
        return p.alloc(HList(rule=(src["len"], src["get"])))      # an immutable snapshot; modelled as a list value
    E["tuple"] = b_tuple

    def b_dict(p, args, kw):
        if not args:
            return p.alloc(HDict(over=dict(kw)))
        x = args[0]
        if isinstance(x, VRef):
            h = p.heap[x.rid]
            if isinstance(h, HDict):
                return p.alloc(h.clone())
            if isinstance(h, HList) and h.tag.get("items_of") is not None:
                return p.alloc(h.tag["items_of"].clone())       # dict(d.items()): same mapping, same order
            if isinstance(h, HList) and h.tag.get("sorted_items_of") is not None:
                # dict(sorted(list(d.items()))): same mapping, keys in ascending order
                src = h.tag["sorted_items_of"]
                t = p.dict_term(src)
                keys = p.fresh("sorted_keys", KEYSEQ)
                p.engine.sorted_perm_facts(p, keys, PV.dkeys(t))
                p.assume(p.engine.uf("ascending", KEYSEQ, B)(keys))
                p.engine.assumption("sorted(): python str order == raw-byte order of the UTF-8 encodings (DESIGN 3.3-7); "
                                    "sorted(items) of a dict orders by key because keys are unique")
                nd = HDict(sym=(keys, PV.dhas(t), PV.dmap(t)))
                # nested mutable values keep their identity
                nd.over = {k: v for k, v in src.over.items() if isinstance(v, VRef)}
                return p.alloc(nd)
        raise Unsupported("dict() of that argument")
    E["dict"] = b_dict

    def b_set(p, args, kw):
        if not args:
            return p.alloc(HSet(z3.K(KEY, z3.BoolVal(False))))
        raise Unsupported("set(iterable)")
    E["set"] = b_set

    def b_range(p, args, kw):
        vals = [p.as_int(a) for a in args]
        if len(vals) == 1:
            return VRange(z3.IntVal(0), vals[0])
        if len(vals) == 2:
            return VRange(vals[0], vals[1])
        raise Unsupported("range with step")
    E["range"] = b_range

    def b_enumerate(p, args, kw):
        src = p.iter_source(args[0])
        if src["kind"] == "concrete":
            return VTuple([VTuple([VInt(i), x]) for i, x in enumerate(src["items"])])
        get = src["get"]
        return p.alloc(HList(rule=(src["len"], lambda i: VTuple([VInt(i), get(i)]))))
    E["enumerate"] = b_enumerate

    def b_minmax(which):
        def f(p, args, kw):
            if len(args) == 1:
                src = p.iter_source(args[0])
                if src["kind"] != "concrete":
                    raise Unsupported("min/max of symbolic sequence")
                args = src["items"]
            cur = p.unbox(args[0])
            for x in args[1:]:
                x = p.unbox(x)
                np = p.num_pair(cur, x)
                if np is None or np[2] != "int":
                    raise Unsupported("min/max of non-int")
                a, b, _ = np
                cur = VInt(z3.If(a <= b, a, b) if which == "min" else z3.If(a >= b, a, b))
            return cur
        return f
    E["min"] = b_minmax("min")
    E["max"] = b_minmax("max")

    def b_sum(p, args, kw):
        src = p.iter_source(args[0])
        if src["kind"] == "concrete":
            tot = z3.IntVal(0)
            for x in src["items"]:
                tot = tot + p.as_int(x)
            return VInt(tot)
        h = p.deref(args[0])
        if isinstance(h, HList):
            return VInt(p.engine.uf("sum_seq", PVSEQ, I)(p.list_seq(h)))
        raise Unsupported("sum of symbolic sequence")
    E["sum"] = b_sum

    def b_sorted(p, args, kw):
        x = args[0]
        if isinstance(x, VRef):
            h = p.heap[x.rid]
            if isinstance(h, HList) and "listdir_of" in h.tag and getattr(p.reg, "sorted_listdir_value", None):
                # sorted(os.listdir(d)) is a function of the directory: the spec functions over the sorted listing name the same sequence
                return p.reg.sorted_listdir_value(p, h.tag["listdir_of"])
            if isinstance(h, HList):
                src = h.tag.get("items_of")
                res = HList(seq=p.fresh("sorted", PVSEQ))
                p.assume(z3.Length(res.seq) == p.list_len(h))
                if src is not None:
                    res.tag["sorted_items_of"] = src
                else:
                    p.engine.sorted_perm_facts(p, res.seq, p.list_seq(h))
                return p.alloc(res)
        raise Unsupported("sorted() of that argument")
    E["sorted"] = b_sorted

    def b_next(p, args, kw):
        it = args[0]
        h = p.deref(it)
        if isinstance(h, HObj) and not isinstance(h.cls, str):
            nxt = p.repo.lookup_method(h.cls, "__next__")
            if nxt is not None:
                return p.call_repo(nxt, [it], {})
        raise Unsupported("next() of that object")
    E["next"] = b_next

    def b_print(p, args, kw):
        return VNone()
    E["print"] = b_print

    def b_vars(p, args, kw):
        h = p.deref(args[0])
        if isinstance(h, HObj) and h.ns_dict is not None:
            return h.ns_dict
        raise Unsupported("vars()")
    E["vars"] = b_vars

    def b_hasattr(p, args, kw):
        h = p.deref(args[0])
        nme = p.const_key(args[1])
        if isinstance(h, HObj) and nme is not None:
            return VBool(nme in h.fields)
        raise Unsupported("hasattr")
    E["hasattr"] = b_hasattr

    def b_any_all(which):
        def f(p, args, kw):
            src = p.iter_source(args[0])
            if src["kind"] != "concrete":
                raise Unsupported("any/all of symbolic sequence")
            ts = [p.truth(x) for x in src["items"]]
            return VBool(z3.Or(ts + [z3.BoolVal(False)]) if which == "any" else z3.And(ts + [z3.BoolVal(True)]))
        return f
    E["any"] = b_any_all("any")
    E["all"] = b_any_all("all")

    # ------------------------------------------------------------------ math
    def m_log2(p, args, kw):
        x = p.unbox(args[0])
        if isinstance(x, VInt):
            if not p.branch(x.t > 0):
                p.raise_("ValueError")
            return VFloat(p.engine.log2_real(p, x.t))
        raise Unsupported("math.log2 of non-int")
    E["math.log2"] = m_log2

    def m_ceil(p, args, kw):
        x = p.unbox(args[0])
        if isinstance(x, VInt):
            return x
        if isinstance(x, VFloat):
            t = x.t
            return VInt(z3.If(z3.ToReal(z3.ToInt(t)) == t, z3.ToInt(t), z3.ToInt(t) + 1))
        raise Unsupported("math.ceil")
    E["math.ceil"] = m_ceil

    # ------------------------------------------------------------------ str methods
    def s_isnumeric(p, recv, args, kw):
        f = p.engine.uf("isnumeric", S, B)
        t = f(recv.t)
        p.engine.str_numeral_facts(p, recv.t)
        return VBool(t)
    M[("str", "isnumeric")] = s_isnumeric
    M[("str", "isdigit")] = s_isnumeric

    def s_lower(p, recv, args, kw):
        f = p.engine.uf("str_lower", S, S)
        t = z3.simplify(recv.t)
        if z3.is_string_value(t):
            return VStr(t.as_string().lower())
        r = f(recv.t)
        p.assume(z3.Length(r) == z3.Length(recv.t))
        return VStr(r)
    M[("str", "lower")] = s_lower

    def s_startswith(p, recv, args, kw):
        return VBool(z3.PrefixOf(p.unbox(args[0]).t, recv.t))
    M[("str", "startswith")] = s_startswith

    def s_endswith(p, recv, args, kw):
        return VBool(z3.SuffixOf(p.unbox(args[0]).t, recv.t))
    M[("str", "endswith")] = s_endswith

    def s_split(p, recv, args, kw):
        # uninterpreted: result = split(recv, sep) as a list of str (PV sequence); specific facts are added
        # by the spec functions that talk about it
        sep = p.unbox(args[0]).t if args else z3.StringVal(" \t\n*")     # marker for whitespace split
        f = p.engine.uf("str_split", S, S, PVSEQ)
        return p.alloc(HList(seq=f(recv.t, sep)))
    M[("str", "split")] = s_split

    def s_join(p, recv, args, kw):
        x = args[0]
        h = p.deref(x)
        if isinstance(h, HList) and h.items is not None:
            parts = []
            for i, it in enumerate(h.items):
                if i:
                    parts.append(recv.t)
                parts.append(p.unbox(it).t)
            if not parts:
                return VStr("")
            return VStr(parts[0] if len(parts) == 1 else z3.Concat(*parts))
        if isinstance(h, HList):
            f = p.engine.uf("str_join", S, PVSEQ, S)
            return VStr(f(recv.t, p.list_seq(h)))
        raise Unsupported("str.join of that argument")
    M[("str", "join")] = s_join

    def s_encode(p, recv, args, kw):
        f = p.engine.uf("utf8", S, BYTES)
        return VBytes(f(recv.t))
    M[("str", "encode")] = s_encode

    def s_strip(p, recv, args, kw):
        f = p.engine.uf("str_strip", S, S)
        return VStr(f(recv.t))
    M[("str", "strip")] = s_strip

    def s_title(p, recv, args, kw):
        f = p.engine.uf("str_title", S, S)
        return VStr(f(recv.t))
    M[("str", "title")] = s_title

    def b_join(p, recv, args, kw):
        h = p.deref(args[0])
        if isinstance(h, HList):
            if h.items is not None and len(h.items) <= 8:
                parts = [recv.t.__class__ and p.bytes_term(p.unbox(x)) for x in h.items]
                out = z3.Empty(BYTES)
                for i, t in enumerate(parts):
                    out = t if i == 0 else z3.Concat(out, recv.t, t)
                return VBytes(out)
            f = p.engine.uf("bytes_join", BYTES, PVSEQ, BYTES)
            return VBytes(f(recv.t, p.list_seq(h)))
        raise Unsupported("bytes.join of that argument")
    M[("bytes", "join")] = b_join

    # ------------------------------------------------------------------ bytes / bytearray
    def ba_extend(p, recv, args, kw):
        h = p.heap[recv.rid]
        t = p.bytes_term(p.unbox(args[0]))
        if t is None:
            raise Unsupported("bytearray.extend of non-bytes")
        h.t = z3.Concat(h.t, t)
        if h.length is not None:
            h.length = h.length + z3.Length(t)
        return VNone()
    M[("HBytes", "extend")] = ba_extend

    # ------------------------------------------------------------------ list methods
    def l_append(p, recv, args, kw):
        h = p.heap[recv.rid]
        if h.items is not None:
            h.items.append(args[0])
        else:
            h.seq = z3.Concat(p.list_seq(h), z3.Unit(p.box(args[0])))
            h.rule = None
        return VNone()
    M[("HList", "append")] = l_append

    def l_extend(p, recv, args, kw):
        h = p.heap[recv.rid]
        o = p.deref(p.unbox(args[0]) if isinstance(args[0], VBox) else args[0])
        if isinstance(args[0], VTuple):
            o = HList(items=args[0].items)
        if not isinstance(o, HList):
            raise Unsupported("list.extend of non-list")
        if h.items is not None and o.items is not None:
            h.items.extend(o.items)
        else:
            h.seq = z3.Concat(p.list_seq(h), p.list_seq(o))
            h.items, h.rule = None, None
        return VNone()
    M[("HList", "extend")] = l_extend

    # ------------------------------------------------------------------ dict methods
    def d_items(p, recv, args, kw):
        h = p.heap[recv.rid]
        if h.sym is None:
            items = [VTuple([p.key_val(k), v]) for k, v in h.over.items() if v is not DELETED]
            res = HList(items=items)
        else:
            snap = h.clone()
            t = p.dict_term(snap)
            keys, mp = PV.dkeys(t), PV.dmap(t)
            p.engine.dict_wf_facts(p, t)

            dom = snap.tag.get("key_domain")

            def rule(i):
                p.engine.dict_key_facts(p, t, i)
                inr = z3.And(i >= 0, i < z3.Length(keys))
                if snap.tag.get("lower_keys"):
                    p.assume(z3.Implies(inr, z3.And(KEY.is_KStr(keys[i]),
                                                    p.engine.uf("str_lower", S, S)(KEY.ks(keys[i])) == KEY.ks(keys[i]))))
                if snap.tag.get("str_values"):
                    p.assume(z3.Implies(inr, PV.is_PStr(z3.Select(mp, keys[i]))))
                if dom:
                    p.assume(z3.Implies(z3.And(i >= 0, i < z3.Length(keys)),
                                        z3.Or([keys[i] == key_of_const(c) for c in dom])))
                kv = VStr(KEY.ks(keys[i])) if snap.tag.get("str_keys") else VBox(pv_of_key(keys[i]))
                return VTuple([kv, VBox(z3.Select(mp, keys[i]))])
            res = HList(rule=(z3.Length(keys), rule))
        res.tag["items_of"] = h.clone()
        return p.alloc(res)
    M[("HDict", "items")] = d_items

    def d_keys(p, recv, args, kw):
        h = p.heap[recv.rid]
        if h.sym is None:
            return p.alloc(HList(items=[p.key_val(k) for k, v in h.over.items() if v is not DELETED]))
        t = p.dict_term(h)
        keys = PV.dkeys(t)
        return p.alloc(HList(rule=(z3.Length(keys), lambda i: VBox(pv_of_key(keys[i])))))
    M[("HDict", "keys")] = d_keys

    def d_get(p, recv, args, kw):
        h = p.heap[recv.rid]
        key = args[0]
        default = args[1] if len(args) > 1 else VNone()
        if p.branch(p.dict_has(h, key)):
            return p.dict_get(h, key)
        return default
    M[("HDict", "get")] = d_get

    def d_pop(p, recv, args, kw):
        h = p.heap[recv.rid]
        key = args[0]
        if p.branch(p.dict_has(h, key)):
            v = p.dict_get(h, key)
            p.dict_del(h, key)
            return v
        if len(args) > 1:
            return args[1]
        p.raise_("KeyError")
    M[("HDict", "pop")] = d_pop

    def d_setdefault(p, recv, args, kw):
        h = p.heap[recv.rid]
        key = args[0]
        default = args[1] if len(args) > 1 else VNone()
        if p.branch(p.dict_has(h, key)):
            return p.dict_get(h, key)
        p.dict_set(h, key, default)
        return default
    M[("HDict", "setdefault")] = d_setdefault

    def d_update(p, recv, args, kw):
        h = p.heap[recv.rid]
        o = p.deref(args[0])
        if isinstance(o, HDict) and o.sym is None:
            for k, v in o.over.items():
                if v is not DELETED:
                    p.dict_set(h, p.key_val(k), v)
            return VNone()
        raise Unsupported("dict.update with symbolic dict")
    M[("HDict", "update")] = d_update

    # ------------------------------------------------------------------ set methods
    def set_add(p, recv, args, kw):
        h = p.heap[recv.rid]
        h.has = z3.Store(h.has, p.key_term(args[0]), True)
        return VNone()
    M[("HSet", "add")] = set_add


# ---------------------------------------------------------------------------------------------
# helper theories installed on the Engine class (kept here so that verifier.py stays small)
# ---------------------------------------------------------------------------------------------

def install_engine_theories(Engine):

    def zeros(self, path, n):
        """bytes(n): n zero bytes"""
        ns = z3.simplify(n)
        if z3.is_int_value(ns) and 0 <= ns.as_long() <= 64:
            return const_bytes(bytes(ns.as_long()))
        f = self.uf("zeros", I, BYTES)
        t = f(n)
        path.assume(z3.Implies(n >= 0, z3.Length(t) == n))
        path.assume(z3.Implies(n <= 0, t == z3.Empty(BYTES)))
        path.ghost.setdefault("zeros_terms", []).append((t, n))
        return t
    Engine.zeros = zeros

    def int_of_str(self, path, s):
        """int(s): abstract numerals.  parsable(s) <=> CPython's int() accepts s.  For ASCII decimal numerals
        the value is str.to_int; otherwise an uninterpreted value.  Raises ValueError when not parsable."""
        parsable = self.uf("int_parsable", S, B)
        val = self.uf("int_value", S, I)
        self.str_numeral_facts(path, s)
        if not path.branch(parsable(s)):
            path.raise_("ValueError")
        return VInt(val(s))
    Engine.int_of_str = int_of_str

    def str_numeral_facts(self, path, s):
        key = ("numeral", s.get_id())
        if key in path.ghost:
            return
        path.ghost[key] = True
        isnum = self.uf("isnumeric", S, B)
        parsable = self.uf("int_parsable", S, B)
        val = self.uf("int_value", S, I)
        ascii_dec = self.uf("ascii_decimal", S, B)      # s matches [0-9]+
        digits = z3.Plus(z3.Range("0", "9"))
        path.assume(ascii_dec(s) == z3.InRe(s, digits))
        # true relations between the three predicates (CPython): ASCII decimal numerals are numeric and
        # parsable with value str.to_int; an isnumeric string need not be parsable (e.g. '½');
        # a parsable string need not be isnumeric (e.g. '-5', ' 7 ', '1_0').
        path.assume(z3.Implies(ascii_dec(s), z3.And(isnum(s), parsable(s), val(s) == z3.StrToInt(s), val(s) >= 0)))
        path.assume(z3.Implies(isnum(s), z3.Length(s) > 0))
        # an isnumeric string that int() accepts consists of decimal digits of some script: value >= 0
        path.assume(z3.Implies(z3.And(isnum(s), parsable(s)), val(s) >= 0))
        self.assumption("str numerals: isnumeric / int() parsability are abstract predicates related only by the "
                        "facts CPython guarantees (ASCII [0-9]+ => numeric, parsable, value = decimal reading)")
    Engine.str_numeral_facts = str_numeral_facts

    def sorted_perm_facts(self, path, out, src):
        """out = sorted(src): same length; (ground) ordered and permutation facts are instantiated by
        the users that need them"""
        path.assume(z3.Length(out) == z3.Length(src))
        path.ghost.setdefault("sorted_pairs", []).append((out, src))
    Engine.sorted_perm_facts = sorted_perm_facts

    def dict_wf_facts(self, path, t):
        pass
    Engine.dict_wf_facts = dict_wf_facts

    def dict_key_facts(self, path, t, i):
        """well-formedness of dict term t instantiated at key index i: keys[i] is present and sits at index i only"""
        keys, has = PV.dkeys(t), PV.dhas(t)
        idx = self.uf("key_index", KEYSEQ, KEY, I)
        inr = z3.And(i >= 0, i < z3.Length(keys))
        path.assume(z3.Implies(inr, z3.And(z3.Select(has, keys[i]), idx(keys, keys[i]) == i)))
    Engine.dict_key_facts = dict_key_facts

    def key_index_facts(self, path, keys, has, kt):
        """position of a key in the insertion-ordered key sequence of a dict (ground instance of dict
        well-formedness: has[k] <=> k occurs in keys, at exactly one index)"""
        idx = self.uf("key_index", KEYSEQ, KEY, I)
        i = idx(keys, kt)
        path.assume(z3.If(z3.Select(has, kt), z3.And(i >= 0, i < z3.Length(keys), keys[i] == kt), i == -1))
        path.assume(z3.Select(has, kt) == self.uf("key_in", KEYSEQ, KEY, B)(keys, kt))
        return i
    Engine.key_index_facts = key_index_facts


def install_configparser(reg):
    E = reg.externals
    M = reg.methods

    def cp_new(p, args, kw):
        if args or kw:
            raise Unsupported("configparser.ConfigParser with non-default arguments (its parsing rules are not the assumed ones)")
        p.engine.assumption("configparser: option names are lower-cased, values are str, continuation lines joined with '\\n' "
                            "(assumed; exercised natively)")
        return p.alloc(HObj("ConfigParser", {}))
    E["configparser.ConfigParser"] = cp_new

    def cp_read(p, recv, args, kw):
        return VNone()
    M[("obj:ConfigParser", "read")] = cp_read

    def cp_getitem(p, recv, args, kw):
        sec = p.ghost.get("config_section")
        if sec is None:
            raise Unsupported("config section not declared by the contract (ghost config_section)")
        return sec
    M[("obj:ConfigParser", "__getitem__")] = cp_getitem


def install_misc_externals(reg):
    E = reg.externals
    M = reg.methods

    def mk_hash(algo):
        def f(p, args, kw):
            acc = z3.Empty(BYTES)
            if args:
                t = p.bytes_term(p.unbox(args[0]))
                if t is None:
                    raise Unsupported("hash of non-bytes")
                acc = t
            return p.alloc(HHash(algo, acc))
        return f
    E["hashlib.sha1"] = mk_hash("sha1")
    E["hashlib.sha256"] = mk_hash("sha256")

    def h_update(p, recv, args, kw):
        h = p.heap[recv.rid]
        t = p.bytes_term(p.unbox(args[0]))
        if t is None:
            raise Unsupported("hash update of non-bytes")
        h.acc = z3.Concat(h.acc, t)
        return VNone()
    M[("HHash", "update")] = h_update

    def h_digest(p, recv, args, kw):
        h = p.heap[recv.rid]
        p.engine.assumption("SHA-1 / SHA-256 are uninterpreted functions (digest length 20 / 32)")
        f = p.engine.uf(h.algo, BYTES, BYTES)
        d = f(h.acc)
        p.ghost["hashed_" + h.algo] = h.acc          # ghost: the input of the most recent digest (read by spec function hashed())
        p.assume(z3.Length(d) == (20 if h.algo == "sha1" else 32))
        return VBytes(d)
    M[("HHash", "digest")] = h_digest

    def h_hexdigest(p, recv, args, kw):
        h = p.heap[recv.rid]
        f = p.engine.uf(h.algo + "hex", BYTES, S)
        p.engine.assumption("hexdigest(): uninterpreted (40 / 64 lower-case hex digits of the digest)")
        return VStr(f(h.acc))
    M[("HHash", "hexdigest")] = h_hexdigest

    def quote_plus(p, args, kw):
        p.engine.assumption("urllib.parse.quote_plus: uninterpreted Q with unquote_plus(Q(s)) == s and an output alphabet without "
                            "'&', '=', '#' (so a standard query parser recovers the value) -- assumed, exercised natively")
        a = args[0]
        if isinstance(a, VBox):
            if not p.pure and not p.entails(PV.is_PStr(a.t)):
                p.engine.assumption("quote_plus is applied to str values only (well-formed metafile: names and URL lists hold strings)")
                p.assume(PV.is_PStr(a.t))
            a = VStr(PV.sval(a.t))
        return VStr(p.engine.uf("quote_plus", S, S)(a.t))
    E["urllib.parse.quote_plus"] = quote_plus

    def noop(p, args, kw):
        return VNone()
    E["sys.stdout.write"] = noop
    E["sys.stdout.flush"] = noop

    def dt_now(p, args, kw):
        return p.alloc(HObj("datetime", {}))
    E["datetime.datetime.now"] = dt_now

    def dt_timestamp(p, args, kw):
        p.engine.assumption("the clock (datetime.now) is an arbitrary value")
        t = p.fresh("clock", R)
        p.assume(t >= 0)
        return VFloat(t)
    E["datetime.datetime.timestamp"] = dt_timestamp
