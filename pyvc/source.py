"""Locate the real functions of /repo/torrentfile by qualified name (ast only)."""
import ast
import hashlib
import os

REPO = os.environ.get("VERIF_REPO", "/repo")
PKG = "torrentfile"


class FuncInfo:
    def __init__(self, qualname, node, module, cls, path):
        self.qualname = qualname      # torrentfile.utils.get_piece_length
        self.node = node              # ast.FunctionDef
        self.module = module          # ModuleInfo
        self.cls = cls                # ClassInfo or None
        self.path = path
        self.is_generator = any(isinstance(n, (ast.Yield, ast.YieldFrom)) for n in ast.walk(node))

    @property
    def name(self):
        return self.node.name

    def params(self):
        a = self.node.args
        names = [x.arg for x in a.posonlyargs + a.args]
        return names

    def defaults(self):
        a = self.node.args
        pos = a.posonlyargs + a.args
        d = {}
        for arg, dv in zip(pos[len(pos) - len(a.defaults):], a.defaults):
            d[arg.arg] = dv
        for arg, dv in zip(a.kwonlyargs, a.kw_defaults):
            if dv is not None:
                d[arg.arg] = dv
        return d

    def source_text(self):
        return ast.get_source_segment(self.module.text, self.node)

    def digest(self):
        return hashlib.sha256(ast.dump(self.node).encode()).hexdigest()[:16]


class ClassInfo:
    def __init__(self, qualname, node, module):
        self.qualname = qualname
        self.node = node
        self.module = module
        self.methods = {}
        self.attrs = {}          # class-level simple assignments name -> ast expr
        self.bases = []          # base names as written (resolved lazily)
        self.nested = {}


class ModuleInfo:
    def __init__(self, name, path):
        self.name = name
        self.path = path
        with open(path, "r", encoding="utf-8") as fh:
            self.text = fh.read()
        self.tree = ast.parse(self.text, filename=path)
        self.functions = {}
        self.classes = {}
        self.globals = {}        # module-level simple assignments name -> ast expr
        self.imports = {}        # local name -> dotted origin (module or module.attr)
        self._scan()

    def _scan(self):
        for node in self.tree.body:
            if isinstance(node, ast.FunctionDef):
                self.functions[node.name] = FuncInfo(f"{self.name}.{node.name}", node, self, None, self.path)
            elif isinstance(node, ast.ClassDef):
                self._scan_class(node, self.name, self.classes)
            elif isinstance(node, ast.Assign) and len(node.targets) == 1 and isinstance(node.targets[0], ast.Name):
                self.globals[node.targets[0].id] = node.value
            elif isinstance(node, ast.Import):
                for al in node.names:
                    self.imports[al.asname or al.name.split(".")[0]] = al.name if al.asname else al.name.split(".")[0]
            elif isinstance(node, ast.ImportFrom):
                for al in node.names:
                    self.imports[al.asname or al.name] = f"{node.module}.{al.name}"

    def _scan_class(self, node, prefix, into):
        ci = ClassInfo(f"{prefix}.{node.name}", node, self)
        for b in node.bases:
            ci.bases.append(ast.unparse(b))
        for sub in node.body:
            if isinstance(sub, ast.FunctionDef):
                ci.methods[sub.name] = FuncInfo(f"{ci.qualname}.{sub.name}", sub, self, ci, self.path)
            elif isinstance(sub, ast.Assign) and len(sub.targets) == 1 and isinstance(sub.targets[0], ast.Name):
                ci.attrs[sub.targets[0].id] = sub.value
            elif isinstance(sub, ast.ClassDef):
                self._scan_class(sub, ci.qualname, ci.nested)
        into[node.name] = ci


class Repo:
    """All modules of the package, parsed from the working tree as it is now."""

    def __init__(self, root=None):
        self.root = root or REPO
        self.modules = {}
        pkgdir = os.path.join(self.root, PKG)
        for fn in sorted(os.listdir(pkgdir)):
            if fn.endswith(".py"):
                mod = fn[:-3]
                name = PKG if mod == "__init__" else f"{PKG}.{mod}"
                self.modules[name] = ModuleInfo(name, os.path.join(pkgdir, fn))

    def find_class(self, qualname):
        parts = qualname.split(".")
        for i in range(len(parts), 0, -1):
            mname = ".".join(parts[:i])
            if mname in self.modules:
                m = self.modules[mname]
                rest = parts[i:]
                if not rest:
                    return None
                ci = m.classes.get(rest[0])
                for r in rest[1:]:
                    if ci is None:
                        return None
                    ci = ci.nested.get(r)
                return ci
        return None

    def find(self, qualname):
        """Return FuncInfo for module.func or module.Class[.Nested].method; None if absent."""
        parts = qualname.split(".")
        for i in range(len(parts) - 1, 0, -1):
            mname = ".".join(parts[:i])
            if mname in self.modules:
                m = self.modules[mname]
                rest = parts[i:]
                if len(rest) == 1:
                    return m.functions.get(rest[0])
                ci = m.classes.get(rest[0])
                for r in rest[1:-1]:
                    if ci is None:
                        return None
                    ci = ci.nested.get(r)
                if ci is None:
                    return None
                return ci.methods.get(rest[-1])
        return None

    def resolve_base(self, ci, basename):
        """Resolve a base-class name written in class ci to a ClassInfo (or None for externals)."""
        m = ci.module
        if basename in m.classes:
            return m.classes[basename]
        origin = m.imports.get(basename)
        if origin and origin.startswith(PKG):
            return self.find_class(origin)
        return None

    def mro(self, ci):
        """Linearised class list (simple depth-first, left-to-right, dedup keeping first) -- matches
        Python's MRO for the single/mixin hierarchies used in this package."""
        out = []

        def walk(c):
            if c in out:
                return
            out.append(c)
            for b in c.bases:
                bc = self.resolve_base(c, b)
                if bc is not None:
                    walk(bc)
        walk(ci)
        return out

    def lookup_method(self, ci, name):
        for c in self.mro(ci):
            if name in c.methods:
                return c.methods[name]
        return None

    def lookup_class_attr(self, ci, name):
        for c in self.mro(ci):
            if name in c.attrs:
                return c.attrs[name], c
        return None, None
