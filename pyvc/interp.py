"""Statement / expression evaluation over the real AST (subclass of engine.Path)."""
import ast
import re
import z3

from .values import *  # noqa: F401,F403
from .engine import (Path, Unsupported, ContractError, PathEnd, PyRaise, CtlReturn, CtlBreak, CtlContinue, guarded_check, forked_check)

DROPPED_CALL_PREFIXES = ("logger.",)            # calls dropped by the mechanical extraction (DESIGN 3.2)
DROPPED_METHODS = {"close_out"}                   # progress-bar traffic
PROGBAR_ATTRS = {"progbar", "prog_bar"}


def _is_dropped_call(node):
    """logger.* and progress-bar traffic: dropped (assumed effect-free on results)."""
    if not isinstance(node, ast.Call):
        return False
    f = node.func
    if isinstance(f, ast.Attribute):
        base = f.value
        if isinstance(base, ast.Name) and base.id == "logger":
            return True
        if isinstance(base, ast.Attribute) and base.attr in PROGBAR_ATTRS:
            return True
        if isinstance(base, ast.Name) and base.id in PROGBAR_ATTRS:
            return True
        if f.attr in ("log_msg",):
            return True
    return False


class Exec(Path):

    # ======================================================================
    # statements
    # ======================================================================
    def exec_block(self, stmts):
        for s in stmts:
            self.exec_stmt(s)

    def exec_stmt(self, s):
        m = getattr(self, "st_" + type(s).__name__, None)
        if m is None:
            raise Unsupported(f"statement {type(s).__name__} at line {getattr(s, 'lineno', '?')}")
        self.cur_line = getattr(s, "lineno", None)
        return m(s)

    def st_Expr(self, s):
        if isinstance(s.value, ast.Constant):
            return                                  # docstring
        if _is_dropped_call(s.value):
            return
        if isinstance(s.value, ast.Yield):
            # generator = procedure with a ghost output sequence; `yield e` appends a snapshot of e
            v = self.eval(s.value.value) if s.value.value is not None else VNone()
            out = self.ghost.setdefault("yielded", [])
            out.append(self.box(v))
            hook = self.func_stack[-1].get("on_yield")
            if hook:
                hook(self, v)
            return
        self.eval(s.value)

    def st_Pass(self, s):
        return

    def st_Global(self, s):
        raise Unsupported("global statement")

    def st_Import(self, s):
        raise Unsupported("local import")

    def st_Assign(self, s):
        if _is_dropped_call(s.value) :
            # e.g. self.progbar = self.get_progress_tracker(...) handled below by attribute name
            pass
        if (len(s.targets) == 1 and isinstance(s.targets[0], ast.Attribute) and s.targets[0].attr in PROGBAR_ATTRS):
            return                                  # progress-bar object: dropped
        v = self.eval(s.value)
        for t in s.targets:
            self.assign(t, v)

    def st_AnnAssign(self, s):
        if s.value is not None:
            self.assign(s.target, self.eval(s.value))

    def st_AugAssign(self, s):
        cur = self.eval(self._as_load(s.target))
        rhs = self.eval(s.value)
        if isinstance(s.op, ast.Add) and isinstance(cur, VRef) and isinstance(self.heap[cur.rid], (HList, HBytes)):
            self.call_method(cur, "extend", [rhs], {})      # list += x mutates in place
            return
        if isinstance(s.op, ast.BitOr) and isinstance(cur, VRef) and isinstance(self.heap[cur.rid], HSet):
            self.call_method(cur, "update", [rhs], {})
            return
        self.assign(s.target, self.binop(s.op, cur, rhs))

    def _as_load(self, t):
        t2 = ast.copy_location(type(t)(**{f: getattr(t, f) for f in t._fields}), t)
        t2.ctx = ast.Load()
        return t2

    def st_Return(self, s):
        raise CtlReturn(self.eval(s.value) if s.value is not None else VNone())

    def st_Break(self, s):
        raise CtlBreak()

    def st_Continue(self, s):
        raise CtlContinue()

    def st_Raise(self, s):
        if s.exc is None:
            if getattr(self, "handling", None):
                raise PyRaise(self.handling[-1])
            raise Unsupported("bare raise outside handler")
        v = self.eval(s.exc)
        if isinstance(v, VClass):
            v = VExc(v.name, [])
        if not isinstance(v, VExc):
            raise Unsupported(f"raise of {v!r}")
        raise PyRaise(v)

    def st_Assert(self, s):
        c = self.truth(self.eval(s.test))
        if not self.branch(c):
            self.raise_("AssertionError")

    def st_Delete(self, s):
        for t in s.targets:
            if isinstance(t, ast.Subscript):
                obj = self.eval(t.value)
                key = self.eval(t.slice)
                h = self.deref(obj)
                if isinstance(h, HDict):
                    self.check_frozen(obj)
                    if not self.branch(self.dict_has(h, key)):
                        self.raise_("KeyError")
                    self.dict_del(h, key)
                    continue
                raise Unsupported("del on non-dict")
            elif isinstance(t, ast.Attribute):
                obj = self.eval(t.value)
                h = self.deref(obj)
                if isinstance(h, HObj):
                    if t.attr not in h.fields:
                        self.raise_("AttributeError")
                    del h.fields[t.attr]
                    continue
                raise Unsupported("del attribute")
            elif isinstance(t, ast.Name):
                self.env.pop(t.id, None)
            else:
                raise Unsupported("del target")

    def st_If(self, s):
        c = self.truth(self.eval(s.test))
        cs = z3.simplify(c)
        if (not z3.is_true(cs) and not z3.is_false(cs) and self.merge_enabled() and _mergeable(s.body) and _mergeable(s.orelse)):
            if self.try_merge_if(s, cs):
                return
        if self.branch(c):
            self.exec_block(s.body)
        else:
            self.exec_block(s.orelse)

    # -- state merging for simple conditionals (keeps the number of paths down) --------------------------
    def merge_enabled(self):
        fn = self.func_stack[0]["contract"]
        return bool(fn is not None and fn.extra.get("merge_ifs")) and not self.pure

    def try_merge_if(self, s, c):
        """execute both arms from a snapshot, under c / not c, and join the two states with ite.  Any branching,
        raise or unsupported construct inside an arm aborts the attempt (the `if` then forks as usual)."""
        if not (self.feasible(c) and self.feasible(z3.Not(c))):
            return False
        snap_env = [dict(f) for f in self.frames]
        snap_heap = {k: v.clone() for k, v in self.heap.items()}
        snap = (len(self.pc), self.next_ref, dict(self.counter), len(self.obligations), len(self.events), dict(self.ghost))
        results = []
        self.merging = getattr(self, "merging", 0) + 1
        ok = True
        try:
            for cond, block in ((c, s.body), (z3.Not(c), s.orelse)):
                self.frames = [dict(f) for f in snap_env]
                self.heap = {k: v.clone() for k, v in snap_heap.items()}
                del self.pc[snap[0]:]
                self.solver.push()
                self.solver.add(cond)
                self.pc.append(cond)
                try:
                    self.exec_block(block)
                    results.append(([dict(f) for f in self.frames], self.heap, list(self.pc[snap[0] + 1:])))
                except (PyRaise, Unsupported, MergeAbort, CtlReturn, CtlBreak, CtlContinue, PathEnd):
                    ok = False
                finally:
                    self.solver.pop()
                if not ok or len(self.obligations) != snap[3] or len(self.events) != snap[4]:
                    ok = False
                    break
        finally:
            self.merging -= 1
        if not ok:
            # restore and let the caller fork normally
            self.frames = snap_env
            self.heap = snap_heap
            del self.pc[snap[0]:]
            del self.obligations[snap[3]:]
            del self.events[snap[4]:]
            self.counter = snap[2]
            self.ghost = snap[5]
            return False
        (env1, heap1, pc1), (env2, heap2, pc2) = results
        del self.pc[snap[0]:]
        for f in pc1:
            self.assume(z3.Implies(c, f))
        for f in pc2:
            self.assume(z3.Implies(z3.Not(c), f))
        # join heaps
        self.heap = {}
        saved_mh = getattr(self, "_merge_heaps", None)
        self._merge_heaps = (heap1, heap2)
        for rid in sorted(set(heap1) | set(heap2)):
            if rid in heap1 and rid in heap2:
                self.heap[rid] = self.merge_obj(c, heap1[rid], heap2[rid], heap1, heap2)
            else:
                self.heap[rid] = heap1.get(rid) or heap2.get(rid)
        # join environments
        frames = []
        for f1, f2 in zip(env1, env2):
            fr = {}
            for k in f1:
                if k in f2:
                    fr[k] = self.merge_val(c, f1[k], f2[k])
            frames.append(fr)
        self.frames = frames
        self._merge_heaps = saved_mh
        return True

    def box_in(self, v, heap):
        saved = self.heap
        self.heap = heap
        try:
            return self.box(v)
        finally:
            self.heap = saved

    def merge_val(self, c, a, b):
        if a is b:
            return a
        if isinstance(a, VRef) and isinstance(b, VRef) and a.rid == b.rid:
            return a
        if type(a) is type(b) and isinstance(a, (VInt, VBool, VStr, VBytes, VFloat, VBox)):
            if a.t.eq(b.t):
                return a
            return type(a)(z3.If(c, a.t, b.t))
        if isinstance(a, VNone) and isinstance(b, VNone):
            return a
        if isinstance(a, VTuple) and isinstance(b, VTuple) and len(a.items) == len(b.items):
            return VTuple([self.merge_val(c, x, y) for x, y in zip(a.items, b.items)])
        if isinstance(a, (VClass, VFunc, VBuiltin, VModule)) and type(a) is type(b) and repr(a) == repr(b):
            return a
        h1, h2 = self._merge_heaps
        return VBox(z3.If(c, self.box_in(a, h1), self.box_in(b, h2)))

    def merge_obj(self, c, h1, h2, heap1, heap2):
        if isinstance(h1, HBytes):
            return h1 if h1.t.eq(h2.t) else HBytes(z3.If(c, h1.t, h2.t))
        if isinstance(h1, HObj):
            out = HObj(h1.cls)
            for k in h1.fields:
                if k in h2.fields:
                    out.fields[k] = self.merge_val(c, h1.fields[k], h2.fields[k])
            return out
        if isinstance(h1, HFile):
            if h1.pos.eq(h2.pos) and h1.tail.eq(h2.tail) and h1.closed == h2.closed:
                return h1
            if h1.closed != h2.closed:
                raise Unsupported("merge of open/closed file")
            return HFile(h1.path, h1.content, z3.If(c, h1.pos, h2.pos), h1.mode, h1.closed, z3.If(c, h1.tail, h2.tail))
        if isinstance(h1, HHash):
            return h1 if h1.acc.eq(h2.acc) else HHash(h1.algo, z3.If(c, h1.acc, h2.acc))
        if isinstance(h1, HSet):
            return h1 if h1.has.eq(h2.has) else HSet(z3.If(c, h1.has, h2.has))
        if isinstance(h1, HList):
            if h1.items is not None and h2.items is not None and len(h1.items) == len(h2.items):
                out = HList(items=[self.merge_val(c, x, y) for x, y in zip(h1.items, h2.items)])
                out.tag = dict(h1.tag)
                return out
            if h1.seq is not None and h2.seq is not None and h1.seq.eq(h2.seq) and h1.rule is h2.rule:
                return h1
            saved = self.heap
            self.heap = heap1
            s1 = self.list_seq(h1)
            self.heap = heap2
            s2 = self.list_seq(h2)
            self.heap = saved
            return HList(seq=z3.If(c, s1, s2))
        if isinstance(h1, HDict):
            same_shape = (h1.sym is None) == (h2.sym is None) and (h1.sym is None or all(x.eq(y) for x, y in zip(h1.sym, h2.sym)))
            if h1.sym is None and same_shape and list(h1.over.keys()) == list(h2.over.keys()) and all(
                    (h1.over[k] is DELETED) == (h2.over[k] is DELETED) for k in h1.over):
                out = HDict(sym=h1.sym)
                out.tag = dict(h1.tag)
                for k in h1.over:
                    out.over[k] = DELETED if h1.over[k] is DELETED else self.merge_val(c, h1.over[k], h2.over[k])
                return out
            same_sym = (h1.sym is not None and h2.sym is not None and all(x.eq(y) for x, y in zip(h1.sym, h2.sym)))
            if same_sym:
                # pointwise join of the override entries over a common symbolic base (keeps formulas small)
                out = HDict(sym=h1.sym)
                out.tag = dict(h1.tag)
                for k in list(h1.over.keys()) + [k for k in h2.over if k not in h1.over]:
                    e1, e2 = h1.over.get(k, MISSING), h2.over.get(k, MISSING)
                    if e1 is e2 or (e1 is DELETED and e2 is DELETED):
                        out.over[k] = e1
                    elif isinstance(e1, VRef) and isinstance(e2, VRef) and e1.rid == e2.rid:
                        out.over[k] = e1
                    elif isinstance(e1, Val) and isinstance(e2, Val) and not isinstance(e1, VRef) and not isinstance(e2, VRef) \
                            and type(e1) is type(e2) and isinstance(e1, (VInt, VBool, VStr, VBytes, VFloat, VBox)):
                        out.over[k] = self.merge_val(c, e1, e2)
                    else:
                        def snap(e, hp):
                            if isinstance(e, VRef):       # nested object that exists on one side only: snapshot
                                saved = self.heap
                                self.heap = hp
                                try:
                                    return VBox(self.box(e))
                                finally:
                                    self.heap = saved
                            return e
                        out.over[k] = Cond(c, snap(e1, heap1), snap(e2, heap2))
                return out
            # general case: fold the non-reference part of both and select with ite; common references stay on top
            common = {k: v for k, v in h1.over.items()
                      if isinstance(v, VRef) and isinstance(h2.over.get(k), VRef) and h2.over[k].rid == v.rid}
            terms = []
            for h, hp in ((h1, heap1), (h2, heap2)):
                saved = self.heap
                self.heap = hp
                try:
                    terms.append(self.dict_term(h))
                finally:
                    self.heap = saved
            t1, t2 = terms
            out = HDict(sym=(z3.If(c, PV.dkeys(t1), PV.dkeys(t2)), z3.If(c, PV.dhas(t1), PV.dhas(t2)), z3.If(c, PV.dmap(t1), PV.dmap(t2))))
            out.over = dict(common)
            out.tag = dict(h1.tag)
            return out
        if h1 is h2:
            return h1
        raise Unsupported(f"merge of {type(h1).__name__}")

    def st_With(self, s):
        # only `with open(...) as fd:` -- enter binds the handle, exit closes it
        opened = []
        for item in s.items:
            v = self.eval(item.context_expr)
            h = self.deref(v)
            if not isinstance(h, HFile):
                raise Unsupported("with on non-file")
            opened.append(h)
            if item.optional_vars is not None:
                self.assign(item.optional_vars, v)
        try:
            self.exec_block(s.body)
        finally:
            for h in opened:
                self.close_file(h)

    def close_file(self, h):
        if not h.closed and getattr(h, "pending", None) is not None:
            from .fsmodel import flush_file
            h.closed = True
            flush_file(self, h)
        h.closed = True
        hook = getattr(self.engine, "on_close", None)
        if hook:
            hook(self, h)

    def st_Try(self, s):
        try:
            self.exec_block(s.body)
        except PyRaise as pr:
            for h in s.handlers:
                if h.type is None:
                    names = ["BaseException"]
                elif isinstance(h.type, ast.Tuple):
                    names = [ast.unparse(e) for e in h.type.elts]
                else:
                    names = [ast.unparse(h.type)]
                if any(self.exc_matches(pr.exc.cls, n) for n in names):
                    if h.name:
                        self.env[h.name] = pr.exc
                    self.handling = getattr(self, "handling", []) + [pr.exc]
                    try:
                        self.exec_block(h.body)
                    finally:
                        self.handling = self.handling[:-1]
                        self.exec_block(s.finalbody)
                    return
            self.exec_block(s.finalbody)
            raise
        except (CtlReturn, CtlBreak, CtlContinue):
            self.exec_block(s.finalbody)
            raise
        else:
            self.exec_block(s.orelse)
            self.exec_block(s.finalbody)

    # -- loops ---------------------------------------------------------------------
    def loop_ordinal(self, node):
        fn = self.func_stack[-1]
        return fn["loops"].index(node)

    def loop_spec(self, node):
        fn = self.func_stack[-1]
        c = fn["contract"]
        k = self.loop_ordinal(node)
        if c is None:
            return None, k
        return c.loops.get(k), k

    def st_While(self, s):
        spec, k = self.loop_spec(s)
        if spec is None:
            raise Unsupported(f"while loop #{k} without invariant")
        if s.orelse:
            raise Unsupported("while/else")
        self.cut_loop(s, spec, k, cond=lambda: self.truth(self.eval(s.test)), pre_body=None)

    def st_For(self, s):
        spec, k = self.loop_spec(s)
        if s.orelse:
            raise Unsupported("for/else")
        if spec is not None and spec.get("protocol"):
            return self.for_protocol(s, spec, k)
        if spec is not None and spec.get("over"):
            # the iterable is an iterator object whose protocol contract says it yields the ghost sequence `over`
            gv = self.eval_contract_expr(spec["over"], want_bool=False)
            seq = self.iter_source(gv)
        else:
            it = self.eval(s.iter)
            seq = self.iter_source(it)
        if seq["kind"] == "concrete" and (spec is None or spec.get("unroll")):
            for item in seq["items"]:
                self.assign(s.target, item)
                try:
                    self.exec_block(s.body)
                except CtlBreak:
                    break
                except CtlContinue:
                    continue
            return
        if spec is None:
            raise Unsupported(f"for loop #{k} over symbolic sequence without invariant (line {s.lineno})")
        idxname = spec.get("index", f"_i{k}")
        self.env[idxname] = VInt(0)
        n = seq["len"]
        self.env[f"_n{k}"] = VInt(n)

        def cond():
            return self.env[idxname].t < n

        def pre_body():
            i = self.env[idxname].t
            self.assign(s.target, seq["get"](i))
            self.env[idxname] = VInt(i + 1)

        self.cut_loop(s, spec, k, cond, pre_body, idxname=idxname, bound=n)

    def for_protocol(self, s, spec, k):
        """for x in obj:  where obj is a repository iterator object -- desugared to next()/StopIteration through the
        contract of its __next__ (DESIGN section 9, 'Iterators')"""
        it = self.eval(s.iter)
        h = self.deref(it)
        if not isinstance(h, HObj) or isinstance(h.cls, str):
            raise Unsupported("iterator protocol on a non-repository object")
        nxt = self.repo.lookup_method(h.cls, "__next__")
        if nxt is None:
            raise Unsupported("object has no __next__")
        state = {"stop": False}

        def cond():
            try:
                v = self.call_repo(nxt, [it], {})
            except PyRaise as pr:
                if pr.exc.cls.split(".")[-1] == "StopIteration":
                    state["stop"] = True
                    return z3.BoolVal(False)
                raise
            state["value"] = v
            return z3.BoolVal(True)

        def pre_body():
            self.assign(s.target, state["value"])

        self.cut_loop(s, spec, k, cond, pre_body)

    def cut_loop(self, s, spec, k, cond, pre_body, idxname=None, bound=None):
        fn = self.func_stack[-1]
        label = f"loop{k}"
        invs = spec.get("invariant", [])
        for gname, gexpr in spec.get("capture", {}).items():
            v = self.eval_contract_expr(gexpr, want_bool=False)                   # ghost constant: value just before the loop
            self.env[gname] = self.import_value(v, self.heap, {}) if isinstance(v, VRef) else v
        for gname, gexpr in spec.get("ghost_init", {}).items():
            self.env[gname] = self.eval_contract_expr(gexpr, want_bool=False)     # ghost accumulator
        # 1. establish
        for j, inv in enumerate(invs):
            props, lab, expr = self._clause(inv, fn)
            self.oblige(f"{label}:{lab or j}", "loop-establish", self.eval_contract_expr(expr), props)
        for tgt, goal in self.shapes_goal(spec.get("shapes", {}), getattr(self, "variant", 0)):
            self.oblige(f"{label}:shape of {tgt}", "loop-establish", goal, fn["contract"].props if fn["contract"] else [])
        if idxname:
            pass
        # 2. havoc
        self.havoc_loop_targets(s, spec, idxname)
        if idxname:
            self.assume(z3.And(self.env[idxname].t >= 0, self.env[idxname].t <= bound))
        # 3. assume invariant
        self.shapes_assume(spec.get("shapes", {}), getattr(self, "variant", 0), label)
        for inv in invs:
            props, lab, expr = self._clause(inv, fn)
            self.assume(self.eval_contract_expr(expr))
        for gname, gexpr in spec.get("let", {}).items():
            self.env[gname] = self.eval_contract_expr(gexpr, want_bool=False)      # ghost snapshot at the loop head
        dec0 = None
        if spec.get("decreases"):
            dec0 = self.eval_contract_expr(spec["decreases"], want_bool=False)
        # 4. branch on condition
        if self.branch(cond()):
            try:
                idx_before = self.env.get(idxname) if idxname else None
                if pre_body:
                    pre_body()
                for ex in spec.get("assume_in_body", []):
                    # an explicit, listed assumption about an external's result (never about the code)
                    self.engine.assumption(f"loop assumption in {fn['info'].qualname}: {ex}")
                    self.assume(self.eval_contract_expr(ex))
                # extra ground instances of ghost-quantified invariants (sound: they are proved for arbitrary ghost values)
                for g, exprs in spec.get("instantiate", {}).items():
                    for ex in exprs:
                        val = self.eval_contract_expr(ex, want_bool=False)
                        saved_g, saved_i = self.env.get(g), self.env.get(idxname) if idxname else None
                        self.env[g] = val
                        if idxname:
                            self.env[idxname] = idx_before
                        for inv in invs:
                            props, lab, expr = self._clause(inv, fn)
                            if re.search(r"\b%s\b" % re.escape(g), expr):
                                self.assume(self.eval_contract_expr(expr))
                        self.env[g] = saved_g
                        if idxname:
                            self.env[idxname] = saved_i
                self.exec_block(s.body)
            except CtlBreak:
                return
            except CtlContinue:
                pass
            for ex in spec.get("lemmas_after_body", []):
                # ground instances of spec-function definitions, stated about the values the body just produced
                self.assume(self.eval_contract_expr(ex))
            for gname, gexpr in spec.get("ghost_step", {}).items():
                self.env[gname] = self.eval_contract_expr(gexpr, want_bool=False)
            for j, inv in enumerate(invs):
                props, lab, expr = self._clause(inv, fn)
                self.oblige(f"{label}:{lab or j}", "loop-preserve", self.eval_contract_expr(expr), props)
            for tgt, goal in self.shapes_goal(spec.get("shapes", {}), getattr(self, "variant", 0)):
                self.oblige(f"{label}:shape of {tgt}", "loop-preserve", goal, fn["contract"].props if fn["contract"] else [])
            if dec0 is not None:
                dec1 = self.eval_contract_expr(spec["decreases"], want_bool=False)
                self.oblige(f"{label}:decreases", "loop-decreases", z3.And(dec0.t >= 0, dec1.t < dec0.t), [])
            raise PathEnd()
        # loop exited normally: continue after the loop with invariant & !cond

    def _clause(self, cl, fn):
        """normalise a contract clause: str | (props,label,expr) | (label, expr)"""
        if isinstance(cl, str):
            return (fn["contract"].props if fn["contract"] else []), None, cl
        if len(cl) == 2:
            return (fn["contract"].props if fn["contract"] else []), cl[0], cl[1]
        p = cl[0]
        if isinstance(p, str):
            p = [p]
        return p, cl[1], cl[2]

    def assigned_names(self, stmts):
        names, attrs, mutated = set(), set(), set()
        for st in stmts:
            for n in ast.walk(st):
                if isinstance(n, (ast.Assign, ast.AugAssign, ast.AnnAssign, ast.For)):
                    tgts = n.targets if isinstance(n, ast.Assign) else [n.target]
                    for t in tgts:
                        for x in ast.walk(t):
                            if isinstance(x, ast.Name) and isinstance(x.ctx, ast.Store):
                                names.add(x.id)
                            elif isinstance(x, ast.Attribute) and isinstance(x.ctx, ast.Store):
                                attrs.add(ast.unparse(x))
                            elif isinstance(x, ast.Subscript) and isinstance(x.ctx, ast.Store):
                                mutated.add(ast.unparse(x.value))
                    if isinstance(n, ast.AugAssign):
                        mutated.add(ast.unparse(n.target))
                elif isinstance(n, ast.Call) and isinstance(n.func, ast.Attribute):
                    if n.func.attr in ("append", "extend", "update", "add", "setdefault", "pop", "insert", "remove", "clear", "sort"):
                        mutated.add(ast.unparse(n.func.value))
                elif isinstance(n, ast.Delete):
                    for t in n.targets:
                        if isinstance(t, ast.Subscript):
                            mutated.add(ast.unparse(t.value))
                elif isinstance(n, ast.With):
                    for item in n.items:
                        if item.optional_vars is not None and isinstance(item.optional_vars, ast.Name):
                            names.add(item.optional_vars.id)
        return names, attrs, mutated

    def havoc_loop_targets(self, s, spec, idxname):
        names, attrs, mutated = self.assigned_names(s.body)
        if isinstance(s, ast.For):
            for x in ast.walk(s.target):
                if isinstance(x, ast.Name):
                    names.add(x.id)
        for gname in spec.get("ghost_init", {}):
            names.add(gname)
        extra = spec.get("modifies", [])
        for e in extra:
            if "." in e or "[" in e:
                attrs.add(e)
            else:
                mutated.add(e)
        for nme in sorted(names):
            if nme in self.env:
                self.env[nme] = self.havoc_value(self.env[nme], nme)
        if idxname:
            self.env[idxname] = VInt(self.fresh(idxname, I))
        for a in sorted(attrs):
            try:
                node = ast.parse(a, mode="eval").body
                cur = self.eval(node)
            except (PyRaise, Unsupported):
                continue
            node.ctx = ast.Store()
            self.assign(node, self.havoc_value(cur, a))
        for mname in sorted(mutated):
            try:
                cur = self.eval(ast.parse(mname, mode="eval").body)
            except (PyRaise, Unsupported):
                continue
            if isinstance(cur, VRef):
                self.havoc_heap(cur, mname)
        # heap effects of calls under contract inside the loop body are havocked through 'modifies' of spec

    def havoc_value(self, v, name):
        name = name.replace(".", "_").replace("[", "_").replace("]", "").replace('"', "").replace("'", "")
        if isinstance(v, VInt):
            return VInt(self.fresh(name, I))
        if isinstance(v, VBool):
            return VBool(self.fresh(name, B))
        if isinstance(v, VStr):
            return VStr(self.fresh(name, S))
        if isinstance(v, VBytes):
            return VBytes(self.fresh(name, BYTES))
        if isinstance(v, VFloat):
            return VFloat(self.fresh(name, R))
        if isinstance(v, VBox):
            return VBox(self.fresh(name, PV))
        if isinstance(v, VNone):
            return VBox(self.fresh(name, PV))
        if isinstance(v, VTuple):
            return VTuple([self.havoc_value(x, f"{name}_{i}") for i, x in enumerate(v.items)])
        if isinstance(v, VRef):
            h = self.heap[v.rid]
            nh = h.clone()
            ref = self.alloc(nh)
            self.havoc_heap(ref, name)
            return ref
        if isinstance(v, (VClass, VFunc, VBuiltin, VModule)):
            return v
        raise Unsupported(f"havoc of {v!r}")

    def havoc_heap(self, ref, name):
        name = name.replace(".", "_").replace("[", "_").replace("]", "").replace('"', "").replace("'", "")
        h = self.heap[ref.rid]
        if isinstance(h, HBytes):
            h.t = self.fresh(name, BYTES)       # a tracked length (fixed-size buffer) survives: bytearray length changes only by extend
        elif isinstance(h, HList):
            if h.items is not None and any(isinstance(x, VRef) and not isinstance(self.heap[x.rid], (HDict, HList, HBytes, HObj)) for x in h.items):
                raise Unsupported("havoc of list holding object references")
            h.items, h.rule = None, None
            h.seq = self.fresh(name, PVSEQ)
        elif isinstance(h, HDict):
            if any(isinstance(x, VRef) for x in h.over.values()) and h.sym is not None:
                # keep nested object identity, havoc their contents
                for k, x in list(h.over.items()):
                    if isinstance(x, VRef):
                        self.havoc_heap(x, f"{name}_{k}")
                    elif isinstance(x, Cond):
                        del h.over[k]
                    elif x is not DELETED:
                        h.over[k] = self.havoc_value(x, f"{name}_{k}")
                if h.sym is not None:
                    h.sym = (self.fresh(name + "_keys", KEYSEQ), self.fresh(name + "_has", z3.ArraySort(KEY, B)),
                             self.fresh(name + "_map", z3.ArraySort(KEY, PV)))
            else:
                h.over = {}
                h.sym = (self.fresh(name + "_keys", KEYSEQ), self.fresh(name + "_has", z3.ArraySort(KEY, B)),
                         self.fresh(name + "_map", z3.ArraySort(KEY, PV)))
        elif isinstance(h, HObj):
            for f, x in list(h.fields.items()):
                h.fields[f] = self.havoc_value(x, f"{name}_{f}")
        elif isinstance(h, HFile):
            h.pos = self.fresh(name + "_pos", I)
            h.tail = self.fresh(name + "_tail", BYTES)
            h.path = self.fresh(name + "_path", S)
            h.content = self.fresh(name + "_content", BYTES)
        elif isinstance(h, HHash):
            h.acc = self.fresh(name + "_acc", BYTES)
        elif isinstance(h, HSet):
            h.has = self.fresh(name + "_has", z3.ArraySort(KEY, B))
        else:
            raise Unsupported(f"havoc of heap {type(h).__name__}")

    def iter_source(self, it):
        """describe an iterable: concrete list of Vals, or (len, get)"""
        if isinstance(it, VTuple):
            return {"kind": "concrete", "items": it.items}
        if isinstance(it, VRange):
            lo, hi = z3.simplify(it.start), z3.simplify(it.stop)
            if z3.is_int_value(lo) and z3.is_int_value(hi) and hi.as_long() - lo.as_long() <= 64:
                return {"kind": "concrete", "items": [VInt(i) for i in range(lo.as_long(), hi.as_long())]}
            n = z3.If(hi > lo, hi - lo, 0)
            return {"kind": "sym", "len": n, "get": lambda i: VInt(lo + i)}
        if isinstance(it, VStr):
            raise Unsupported("iteration over str")
        if isinstance(it, VBytes):
            return {"kind": "sym", "len": z3.Length(it.t), "get": lambda i: VInt(it.t[i])}
        if isinstance(it, VBox):
            it = self.unbox(it)
        if isinstance(it, VRef):
            h = self.heap[it.rid]
            if isinstance(h, HList):
                if h.items is not None:
                    return {"kind": "concrete", "items": list(h.items)}
                hh = h.clone()      # iteration over a snapshot (mutation during iteration is not modelled)
                return {"kind": "sym", "len": self.list_len(hh), "get": lambda i: self.list_get(hh, i)}
            if isinstance(h, HDict):
                if h.sym is None:
                    return {"kind": "concrete", "items": [self.key_val(k) for k, v in h.over.items() if v is not DELETED]}
                t = self.dict_term(h)
                keys = PV.dkeys(t)
                return {"kind": "sym", "len": z3.Length(keys), "get": lambda i: VBox(pv_of_key(keys[i]))}
            if isinstance(h, HBytes):
                t = h.t
                return {"kind": "sym", "len": z3.Length(t), "get": lambda i: VInt(t[i])}
        raise Unsupported(f"iteration over {it!r}")

    def key_val(self, k):
        if isinstance(k, str):
            return VStr(k)
        if isinstance(k, int):
            return VInt(k)
        raise Unsupported("key type")

    # ======================================================================
    # assignment
    # ======================================================================
    def check_frozen(self, ref):
        pass

    def assign(self, target, v):
        if isinstance(target, ast.Name):
            self.env[target.id] = v
        elif isinstance(target, (ast.Tuple, ast.List)):
            items = self.unpack(v, len(target.elts))
            for t, x in zip(target.elts, items):
                self.assign(t, x)
        elif isinstance(target, ast.Attribute):
            obj = self.eval(target.value)
            h = self.deref(obj)
            if isinstance(h, HObj) and h.ns_dict is not None:
                self.dict_set(self.heap[h.ns_dict.rid], VStr(target.attr), v)
            elif isinstance(h, HObj):
                h.fields[target.attr] = v
            else:
                raise Unsupported(f"attribute store on {obj!r}")
        elif isinstance(target, ast.Subscript):
            obj = self.eval(target.value)
            if isinstance(obj, VBox):
                obj = self.unbox(obj)
            h = self.deref(obj)
            key = self.eval(target.slice)
            if isinstance(h, HDict):
                self.dict_set(h, key, v)
            elif isinstance(h, HList):
                raise Unsupported("list item store")
            else:
                raise Unsupported(f"subscript store on {obj!r}")
        else:
            raise Unsupported(f"assignment target {type(target).__name__}")

    def unpack(self, v, n):
        if isinstance(v, VTuple):
            if len(v.items) != n:
                self.raise_("ValueError")
            return v.items
        if isinstance(v, VBox):
            t = v.t
            if self.entails(PV.is_PTuple(t)) or self.entails(PV.is_PList(t)):
                seq = PV.titems(t) if self.entails(PV.is_PTuple(t)) else PV.items(t)
                if not self.branch(z3.Length(seq) == n):
                    self.raise_("ValueError")
                return [VBox(seq[i]) for i in range(n)]
        if isinstance(v, VRef):
            h = self.heap[v.rid]
            if isinstance(h, HList):
                if not self.branch(self.list_len(h) == n):
                    self.raise_("ValueError")
                return [self.list_get(h, z3.IntVal(i)) for i in range(n)]
        raise Unsupported(f"unpack of {v!r}")

    # ======================================================================
    # expressions
    # ======================================================================
    def eval(self, node):
        m = getattr(self, "ex_" + type(node).__name__, None)
        if m is None:
            raise Unsupported(f"expression {type(node).__name__} at line {getattr(node, 'lineno', '?')}")
        return m(node)

    def ex_Constant(self, n):
        c = n.value
        if isinstance(c, bool):
            return VBool(c)
        if isinstance(c, int):
            return VInt(c)
        if isinstance(c, float):
            return VFloat(c)
        if isinstance(c, str):
            return VStr(c)
        if isinstance(c, bytes):
            return VBytes(c)
        if c is None:
            return VNone()
        raise Unsupported(f"constant {c!r}")

    def ex_Name(self, n):
        name = n.id
        for fr in (self.env,):
            if name in fr:
                return fr[name]
        return self.lookup_global(name)

    def lookup_global(self, name):
        fn = self.func_stack[-1] if self.func_stack else None
        if self.pure and not getattr(self, "code_eval", 0) and name in self.reg.spec_funcs:
            return VBuiltin("spec:" + name)
        if fn is not None and fn.get("info") is not None:
            mod = fn["info"].module
            if name in mod.functions:
                return VFunc(mod.functions[name])
            if name in mod.classes:
                ci = mod.classes[name]
                return VClass(ci.qualname, ci)
            if name in mod.globals:
                # module-level constants only (immutable literals / arithmetic on them)
                gnode = mod.globals[name]
                saved = self.func_stack[-1]
                try:
                    v = self.eval_const_expr(gnode, mod)
                except Unsupported:
                    raise Unsupported(f"module global {name} is not a constant")
                return v
            if name in mod.imports:
                origin = mod.imports[name]
                return self.resolve_import(origin)
        if name in self.reg.spec_funcs:
            return VBuiltin("spec:" + name)
        if name in BUILTIN_NAMES:
            return VBuiltin(name)
        if name in BUILTIN_EXCEPTIONS:
            return VClass(name)
        raise Unsupported(f"unknown name {name}")

    def eval_const_expr(self, node, mod):
        if isinstance(node, ast.Constant):
            return self.ex_Constant(node)
        if isinstance(node, ast.BinOp):
            return self.binop(node.op, self.eval_const_expr(node.left, mod), self.eval_const_expr(node.right, mod))
        if isinstance(node, ast.Name) and node.id in mod.globals:
            return self.eval_const_expr(mod.globals[node.id], mod)
        if isinstance(node, (ast.List, ast.Tuple)) and all(isinstance(e, ast.Constant) for e in node.elts):
            return VTuple([self.ex_Constant(e) for e in node.elts])
        raise Unsupported("non-constant global")

    def resolve_import(self, origin):
        # origin: dotted path, e.g. "os", "hashlib.sha1", "torrentfile.utils.next_power_2", "torrentfile.utils"
        if origin.startswith("torrentfile"):
            if origin in self.repo.modules:
                return VModule(origin)
            fi = self.repo.find(origin)
            if fi is not None:
                return VFunc(fi)
            ci = self.repo.find_class(origin)
            if ci is not None:
                return VClass(ci.qualname, ci)
            mname, _, attr = origin.rpartition(".")
            if mname in self.repo.modules and attr in self.repo.modules[mname].globals:
                return self.eval_const_expr(self.repo.modules[mname].globals[attr], self.repo.modules[mname])
            raise Unsupported(f"import {origin}")
        if origin in self.reg.externals:
            return VBuiltin(origin)
        if origin in BUILTIN_EXC_ALIASES:
            return VClass(BUILTIN_EXC_ALIASES[origin])
        return VModule(origin)

    def ex_Attribute(self, n):
        obj = self.eval(n.value)
        return self.getattr(obj, n.attr)

    def getattr(self, obj, attr):
        if attr in PROGBAR_ATTRS and isinstance(obj, VRef):
            return VNone()              # progress-bar objects are dropped by the extraction
        if isinstance(obj, VModule):
            dotted = f"{obj.name}.{attr}"
            if obj.name.startswith("torrentfile"):
                return self.resolve_import(dotted)
            if dotted in self.reg.externals:
                return VBuiltin(dotted)
            if dotted in MODULE_CONSTS:
                return MODULE_CONSTS[dotted]()
            return VModule(dotted)
        if isinstance(obj, VRef):
            h = self.heap[obj.rid]
            if isinstance(h, HObj) and h.ns_dict is not None:
                d = self.heap[h.ns_dict.rid]
                if self.pure or self.branch(self.dict_has(d, VStr(attr))):
                    return self.dict_get(d, VStr(attr))
                self.raise_("AttributeError", VStr(attr))
            if isinstance(h, HObj):
                if attr in h.fields:
                    return h.fields[attr]
                ci = h.cls
                if not isinstance(ci, str):
                    mi = self.repo.lookup_method(ci, attr)
                    if mi is not None:
                        return VFunc(mi, bound=obj)
                    cnode, owner = self.repo.lookup_class_attr(ci, attr)
                    if cnode is not None:
                        return self.eval_const_expr(cnode, owner.module)
                    for c in self.repo.mro(ci):
                        if attr in c.nested:
                            return VClass(c.nested[attr].qualname, c.nested[attr])
                    if self.pure:
                        # total reading in contract expressions: a deleted / never-set attribute is an unconstrained value
                        return VBox(self.fresh(f"no_attr_{attr}", PV))
                else:
                    hook = self.reg.methods.get(("obj:" + ci, "@" + attr))
                    if hook is not None:
                        return hook(self, obj, [], {})
                    return VBuiltin("method:" + attr, bound=obj)
                self.raise_("AttributeError", VStr(attr))
            return VBuiltin("method:" + attr, bound=obj)
        if isinstance(obj, VClass):
            if obj.info is not None:
                mi = self.repo.lookup_method(obj.info, attr)
                if mi is not None:
                    return VFunc(mi)
                if attr in obj.info.nested:
                    ci = obj.info.nested[attr]
                    return VClass(ci.qualname, ci)
                cnode, owner = self.repo.lookup_class_attr(obj.info, attr)
                if cnode is not None:
                    return self.eval_const_expr(cnode, owner.module)
            raise Unsupported(f"class attribute {obj.name}.{attr}")
        if isinstance(obj, VExc):
            if attr == "args":
                return VTuple(obj.args)
            raise Unsupported("exception attribute")
        if isinstance(obj, (VStr, VBytes, VInt, VBox, VTuple, VFloat)):
            return VBuiltin("method:" + attr, bound=obj)
        raise Unsupported(f"attribute {attr} of {obj!r}")

    def ex_UnaryOp(self, n):
        v = self.eval(n.operand)
        if isinstance(n.op, ast.Not):
            return VBool(z3.Not(self.truth(v)))
        if isinstance(v, VBox):
            v = self.unbox(v)
        if isinstance(n.op, ast.USub):
            if isinstance(v, VInt):
                return VInt(-v.t)
            if isinstance(v, VFloat):
                return VFloat(-v.t)
        if isinstance(n.op, ast.UAdd) and isinstance(v, (VInt, VFloat)):
            return v
        raise Unsupported("unary op")

    def ex_BoolOp(self, n):
        if self.pure:
            ts = [self.truth(self.eval(x)) for x in n.values]
            return VBool(z3.And(ts) if isinstance(n.op, ast.And) else z3.Or(ts))
        cur = None
        for i, x in enumerate(n.values):
            cur = self.eval(x)
            if i == len(n.values) - 1:
                return cur
            t = self.branch(self.truth(cur))
            if isinstance(n.op, ast.And) and not t:
                return cur
            if isinstance(n.op, ast.Or) and t:
                return cur
        return cur

    def ex_IfExp(self, n):
        c = self.truth(self.eval(n.test))
        if self.pure:
            a, b = self.eval(n.body), self.eval(n.orelse)
            return self.ite(c, a, b)
        return self.eval(n.body) if self.branch(c) else self.eval(n.orelse)

    def ite(self, c, a, b):
        c = z3.simplify(c)
        if z3.is_true(c):
            return a
        if z3.is_false(c):
            return b
        if type(a) is type(b) and isinstance(a, (VInt, VBool, VStr, VBytes, VFloat, VBox)):
            return type(a)(z3.If(c, a.t, b.t))
        if isinstance(a, VNone) and isinstance(b, VNone):
            return a
        ta, tb = self.bytes_term(a), self.bytes_term(b)
        if ta is not None and tb is not None:
            return VBytes(z3.If(c, ta, tb))
        return VBox(z3.If(c, self.box(a), self.box(b)))

    def ex_Tuple(self, n):
        items = []
        for e in n.elts:
            if isinstance(e, ast.Starred):
                src = self.iter_source(self.eval(e.value))
                if src["kind"] != "concrete":
                    raise Unsupported("star of symbolic sequence")
                items.extend(src["items"])
            else:
                items.append(self.eval(e))
        return VTuple(items)

    def ex_List(self, n):
        items = []
        for e in n.elts:
            if isinstance(e, ast.Starred):
                src = self.iter_source(self.eval(e.value))
                if src["kind"] != "concrete":
                    raise Unsupported("star of symbolic sequence")
                items.extend(src["items"])
            else:
                items.append(self.eval(e))
        return self.alloc(HList(items=items))

    def ex_Dict(self, n):
        h = HDict()
        ref = self.alloc(h)
        for k, v in zip(n.keys, n.values):
            if k is None:
                raise Unsupported("dict unpacking")
            self.dict_set(h, self.eval(k), self.eval(v))
        return ref

    def ex_JoinedStr(self, n):
        parts = []
        for v in n.values:
            if isinstance(v, ast.Constant):
                parts.append(z3.StringVal(v.value))
            else:
                x = self.eval(v.value)
                parts.append(self.to_str(x).t)
        if not parts:
            return VStr("")
        return VStr(parts[0] if len(parts) == 1 else z3.Concat(*parts))

    def to_str(self, x):
        if isinstance(x, VBox):
            x = self.unbox(x)
        if isinstance(x, VStr):
            return x
        if isinstance(x, VRef) and isinstance(self.heap.get(x.rid), HObj) and "pathstr" in self.heap[x.rid].fields:
            return self.heap[x.rid].fields["pathstr"]
        if isinstance(x, VInt):
            t = x.t
            return VStr(z3.If(t >= 0, z3.IntToStr(t), z3.Concat(z3.StringVal("-"), z3.IntToStr(-t))))
        f = self.engine.uf("str_of", PV, S)
        return VStr(f(self.box(x)))

    def ex_Subscript(self, n):
        obj = self.eval(n.value)
        if isinstance(n.slice, ast.Slice):
            return self.slice(obj, n.slice)
        key = self.eval(n.slice)
        return self.getitem(obj, key)

    def getitem(self, obj, key):
        if isinstance(obj, VBox) and self.pure and isinstance(key, VInt):
            kk = z3.simplify(key.t)
            t = obj.t
            det = [z3.simplify(f(t)) for f in (PV.is_PTuple, PV.is_PList, PV.is_PDict, PV.is_PBytes, PV.is_PStr)]
            if z3.is_int_value(kk) and kk.as_long() >= 0 and not any(z3.is_true(d) for d in det):
                # total reading of x[i] for a boxed x of undetermined type: by constructor
                i = kk.as_long()
                return VBox(z3.If(PV.is_PTuple(t), PV.titems(t)[i],
                                  z3.If(PV.is_PList(t), PV.items(t)[i], z3.Select(PV.dmap(t), self.key_term(key)))))
        if isinstance(obj, VBox):
            obj = self.unbox(obj)
        if isinstance(obj, VTuple):
            k = self.as_int(key)
            kk = z3.simplify(k)
            if z3.is_int_value(kk):
                i = kk.as_long()
                if -len(obj.items) <= i < len(obj.items):
                    return obj.items[i]
                self.raise_("IndexError")
            raise Unsupported("symbolic tuple index")
        if isinstance(obj, (VBytes, VStr)):
            k = self.as_int(key)
            ln = z3.Length(obj.t)
            k = self.norm_index(k, ln)
            if isinstance(obj, VStr):
                return VStr(z3.SubString(obj.t, k, 1))
            return VInt(obj.t[k])
        if isinstance(obj, VRef):
            h = self.heap[obj.rid]
            if isinstance(h, HDict):
                if not self.pure and not self.branch(self.dict_has(h, key)):
                    self.raise_("KeyError")
                return self.dict_get(h, key)
            if isinstance(h, HList):
                k = self.as_int(key)
                k = self.norm_index(k, self.list_len(h))
                return self.list_get(h, k)
            if isinstance(h, HBytes):
                k = self.norm_index(self.as_int(key), z3.Length(h.t))
                return VInt(h.t[k])
            if isinstance(h, HObj) and isinstance(h.cls, str) and ("obj:" + h.cls, "__getitem__") in self.reg.methods:
                return self.reg.methods[("obj:" + h.cls, "__getitem__")](self, obj, [key], {})
        raise Unsupported(f"subscript of {obj!r}")

    def norm_index(self, k, ln):
        if self.pure:
            if self.entails(k >= 0):
                return k
            return z3.If(k < 0, k + ln, k)
        if self.branch(k < 0):
            k = k + ln
        if not self.branch(z3.And(k >= 0, k < ln)):
            self.raise_("IndexError")
        return k

    def as_int(self, v):
        if isinstance(v, VBox):
            v = self.unbox(v, "int")
        if isinstance(v, VInt):
            return v.t
        if isinstance(v, VBool):
            return z3.If(v.t, 1, 0)
        raise Unsupported(f"int expected, got {v!r}")

    def seq_term(self, obj):
        """(term, rebuild) for sliceable values"""
        if isinstance(obj, VBox) and self.pure:
            t = obj.t
            det = [z3.simplify(f(t)) for f in (PV.is_PBytes, PV.is_PStr, PV.is_PList, PV.is_PTuple)]
            if not any(z3.is_true(d) for d in det):
                # specification context, type undetermined: x[a:b] is read as a slice of bytes (clauses guard with is_bytes(x))
                return PV.yval(t), VBytes
        if isinstance(obj, VBox):
            obj = self.unbox(obj)
        if isinstance(obj, VBytes):
            return obj.t, VBytes
        if isinstance(obj, VStr):
            return obj.t, VStr
        if isinstance(obj, VRef):
            h = self.heap[obj.rid]
            if isinstance(h, HBytes):
                return h.t, lambda t: self.alloc(HBytes(t))
            if isinstance(h, HList):
                if h.items is not None:
                    return None, h

                def mk_list(t, h=h):
                    nh = HList(seq=t)
                    if "elem" in h.tag:
                        nh.tag["elem"] = h.tag["elem"]
                    return self.alloc(nh)
                return self.list_seq(h), mk_list
        if isinstance(obj, VTuple):
            return None, obj
        raise Unsupported(f"slice of {obj!r}")

    def slice(self, obj, sl):
        if sl.step is not None:
            st = self.eval(sl.step)
            if not (isinstance(st, VInt) and z3.is_int_value(z3.simplify(st.t)) and z3.simplify(st.t).as_long() == 1):
                raise Unsupported("slice step")
        t, mk = self.seq_term(obj)
        tracked_len = None
        hb = self.deref(obj) if isinstance(obj, VRef) else None
        if isinstance(hb, HBytes) and hb.length is not None:
            tracked_len = hb.length
        lo = self.as_int(self.eval(sl.lower)) if sl.lower is not None else None
        hi = self.as_int(self.eval(sl.upper)) if sl.upper is not None else None
        if t is None:
            items = mk.items
            lo_c = z3.simplify(lo).as_long() if lo is not None and z3.is_int_value(z3.simplify(lo)) else (0 if lo is None else None)
            hi_c = z3.simplify(hi).as_long() if hi is not None and z3.is_int_value(z3.simplify(hi)) else (len(items) if hi is None else None)
            if lo_c is None or hi_c is None:
                if isinstance(mk, HList):
                    t = self.list_seq(mk)
                    mk = lambda tt: self.alloc(HList(seq=tt))  # noqa: E731
                else:
                    raise Unsupported("symbolic slice of tuple")
            else:
                res = items[lo_c:hi_c]
                return VTuple(res) if isinstance(mk, VTuple) else self.alloc(HList(items=res))
        ln = tracked_len if tracked_len is not None else z3.Length(t)

        def clamp(x, default):
            if x is None:
                return default
            if self.entails(z3.And(x >= 0, x <= ln)):
                return x                      # bounds known from the path condition: no clamping needed
            if self.entails(x >= ln):
                return ln
            if self.entails(x >= 0):
                return z3.If(x > ln, ln, x)
            x = z3.If(x < 0, x + ln, x)
            return z3.If(x < 0, 0, z3.If(x > ln, ln, x))
        a = clamp(lo, z3.IntVal(0))
        b = clamp(hi, ln)
        if lo is not None and hi is not None and self.entails(b >= a):
            width = b - a
        elif lo is None:
            width = b
        else:
            width = z3.If(b > a, b - a, 0)
        for kt, kn, kdata in self.ghost.get("known_slices", []):
            if kt.eq(t) and z3.is_int_value(z3.simplify(a)) and z3.simplify(a).as_long() == 0 and z3.simplify(width - kn).eq(z3.IntVal(0)):
                return mk(kdata)            # buf[:n] right after readinto(buf) -> the bytes just read
        res = z3.SubSeq(t, a, width) if not z3.is_string(t) else z3.SubString(t, a, width)
        if not z3.is_string(t):
            # ground instances of slice lemmas (valid facts of the sequence theory that z3 does not find on its own)
            self.assume(z3.Implies(z3.And(a == 0, width >= ln), res == t))
            self.assume(z3.Implies(width <= 0, res == z3.Empty(t.sort())))
            self.assume(z3.Implies(z3.And(a >= 0, width >= 0, a + width <= ln), z3.Length(res) == width))
            ts = z3.simplify(t)
            if z3.is_app(ts) and ts.decl().kind() == z3.Z3_OP_SEQ_CONCAT and ts.num_args() >= 2:
                parts = [ts.arg(k) for k in range(ts.num_args())]

                def cat(ps):
                    if not ps:
                        return z3.Empty(t.sort())
                    return ps[0] if len(ps) == 1 else z3.Concat(*ps)
                acc_len = z3.IntVal(0)
                for j in range(1, len(parts)):
                    acc_len = acc_len + z3.Length(parts[j - 1])
                    pre, suf = cat(parts[:j]), cat(parts[j:])
                    # the slice cuts exactly between part j-1 and part j
                    self.assume(z3.Implies(z3.And(a == 0, width == acc_len), res == pre))
                    self.assume(z3.Implies(z3.And(a == acc_len, width >= z3.Length(suf)), res == suf))
                    self.assume(z3.Implies(z3.And(a == 0, width >= acc_len), res == z3.Concat(pre, z3.SubSeq(suf, 0, width - acc_len))))
                    self.assume(z3.Implies(z3.And(a >= acc_len, hi is None),
                                           res == z3.SubSeq(suf, a - acc_len, z3.Length(suf) - (a - acc_len))))
                first = parts[0]
                self.assume(z3.Implies(z3.And(a == 0, width <= z3.Length(first)), res == z3.SubSeq(first, 0, width)))
        return mk(res)

    def ex_Compare(self, n):
        left = self.eval(n.left)
        result = None
        for op, rnode in zip(n.ops, n.comparators):
            right = self.eval(rnode)
            c = self.compare(op, left, right)
            if len(n.ops) == 1:
                return VBool(c)
            if self.pure:
                result = c if result is None else z3.And(result, c)
            else:
                if not self.branch(c):
                    return VBool(False)
                result = z3.BoolVal(True)
            left = right
        return VBool(result)

    def num_pair(self, a, b):
        if self.pure:
            # total reading in contract expressions: a boxed operand next to a number is read as a number of that kind
            if isinstance(a, VBox) and isinstance(b, (VInt, VBool, VFloat, VBox)):
                a = VFloat(PV.fval(a.t)) if isinstance(b, VFloat) else VInt(PV.ival(a.t))
            if isinstance(b, VBox) and isinstance(a, (VInt, VBool, VFloat)):
                b = VFloat(PV.fval(b.t)) if isinstance(a, VFloat) else VInt(PV.ival(b.t))
        if isinstance(a, VBox):
            a = self.unbox(a)
        if isinstance(b, VBox):
            b = self.unbox(b)
        if isinstance(a, VBool):
            a = VInt(z3.If(a.t, 1, 0))
        if isinstance(b, VBool):
            b = VInt(z3.If(b.t, 1, 0))
        if isinstance(a, VInt) and isinstance(b, VInt):
            return a.t, b.t, "int"
        if isinstance(a, (VInt, VFloat)) and isinstance(b, (VInt, VFloat)):
            at = z3.ToReal(a.t) if isinstance(a, VInt) else a.t
            bt = z3.ToReal(b.t) if isinstance(b, VInt) else b.t
            return at, bt, "float"
        return None

    def compare(self, op, a, b):
        if isinstance(op, (ast.Is, ast.IsNot)):
            r = self.is_same(a, b)
            return r if isinstance(op, ast.Is) else z3.Not(r)
        if isinstance(op, (ast.In, ast.NotIn)):
            r = self.contains(b, a)
            return r if isinstance(op, ast.In) else z3.Not(r)
        if isinstance(op, (ast.Eq, ast.NotEq)):
            r = self.equals(a, b)
            return r if isinstance(op, ast.Eq) else z3.Not(r)
        np = self.num_pair(a, b)
        if np is not None:
            x, y, _ = np
            return {ast.Lt: x < y, ast.LtE: x <= y, ast.Gt: x > y, ast.GtE: x >= y}[type(op)]
        sa, sb = self.unbox(a), self.unbox(b)
        if isinstance(sa, VStr) and isinstance(sb, VStr):
            x, y = sa.t, sb.t
            return {ast.Lt: x < y, ast.LtE: x <= y, ast.Gt: y < x, ast.GtE: y <= x}[type(op)]
        raise Unsupported(f"ordering comparison of {a!r} and {b!r}")

    def is_same(self, a, b):
        if isinstance(b, VNone):
            if isinstance(a, VNone):
                return z3.BoolVal(True)
            if isinstance(a, VBox):
                return PV.is_PNone(a.t)
            return z3.BoolVal(False)
        if isinstance(a, VNone):
            return self.is_same(b, a)
        if isinstance(a, VRef) and isinstance(b, VRef):
            return z3.BoolVal(a.rid == b.rid)
        if isinstance(a, VBool) and isinstance(b, VBool):
            return a.t == b.t
        raise Unsupported("is-comparison")

    def equals(self, a, b):
        if isinstance(a, VNone) or isinstance(b, VNone):
            return self.is_same(a, b) if (isinstance(a, (VNone, VBox)) and isinstance(b, (VNone, VBox))) else z3.BoolVal(
                isinstance(a, VNone) and isinstance(b, VNone))
        np = None
        if isinstance(a, (VInt, VBool, VFloat)) and isinstance(b, (VInt, VBool, VFloat)):
            np = self.num_pair(a, b)
            return np[0] == np[1]
        if isinstance(a, VBox) and isinstance(b, (VInt, VBool)):
            bi = self.as_int(b)
            return z3.If(PV.is_PInt(a.t), PV.ival(a.t) == bi, z3.If(PV.is_PBool(a.t), z3.If(PV.bval(a.t), 1, 0) == bi, False))
        if isinstance(b, VBox) and isinstance(a, (VInt, VBool)):
            return self.equals(b, a)
        if isinstance(a, VStr) and isinstance(b, VStr):
            return a.t == b.t
        if isinstance(a, VBytes) and isinstance(b, VBytes):
            return a.t == b.t
        if isinstance(a, VTuple) and isinstance(b, VTuple):
            if len(a.items) != len(b.items):
                return z3.BoolVal(False)
            return z3.And([self.equals(x, y) for x, y in zip(a.items, b.items)] + [z3.BoolVal(True)])
        if isinstance(a, (VClass, VFunc)) or isinstance(b, (VClass, VFunc)):
            raise Unsupported("equality of functions/classes")
        kinds = {type(a), type(b)}
        if VBox not in kinds and VRef not in kinds and type(a) is not type(b):
            # distinct native types (str vs int, bytes vs str ...) are never equal
            return z3.BoolVal(False)
        ba, bb = self.box_eq(a), self.box_eq(b)
        return ba == bb

    def box_eq(self, v):
        """boxed term for equality: bytearray compares equal to bytes, tuple != list"""
        return self.box(v)

    def contains(self, container, item):
        if isinstance(container, VBox):
            container = self.unbox(container)
        if isinstance(container, VTuple):
            return z3.Or([self.equals(item, x) for x in container.items] + [z3.BoolVal(False)])
        if isinstance(container, VStr):
            it = self.unbox(item)
            if not isinstance(it, VStr):
                raise Unsupported("in str with non-str")
            return z3.Contains(container.t, it.t)
        if isinstance(container, VRef):
            h = self.heap[container.rid]
            if isinstance(h, HDict):
                return self.dict_has(h, item)
            if isinstance(h, HList):
                if h.items is not None:
                    return z3.Or([self.equals(item, x) for x in h.items] + [z3.BoolVal(False)])
                if "listdir_of" in h.tag:
                    # membership in os.listdir(d) is existence of join(d, name) in the ghost file system
                    from .fsmodel import fs_of, kind_at, str_term, ABSENT
                    fs = fs_of(self)
                    child = self.engine.uf("pathjoin", S, S, S)(h.tag["listdir_of"], str_term(self, item))
                    return kind_at(self, fs.kind, child) != ABSENT
                seq = self.list_seq(h)
                u = z3.Unit(self.box(item))
                for out, src in self.ghost.get("sorted_pairs", []):
                    if out.eq(seq):
                        self.assume(z3.Contains(out, u) == z3.Contains(src, u))      # sorted() permutes: same members
                return z3.Contains(seq, u)
            if isinstance(h, HSet):
                return z3.Select(h.has, self.key_term(item))
        raise Unsupported(f"membership in {container!r}")

    def ex_BinOp(self, n):
        return self.binop(n.op, self.eval(n.left), self.eval(n.right))

    def binop(self, op, a, b):
        if isinstance(a, VBox):
            a = self.unbox(a)
        if isinstance(b, VBox):
            b = self.unbox(b)
        if isinstance(op, ast.Div) and isinstance(a, VRef):
            ha = self.heap.get(a.rid)
            if isinstance(ha, HObj) and isinstance(ha.cls, str) and ("obj:" + ha.cls, "__truediv__") in self.reg.methods:
                return self.reg.methods[("obj:" + ha.cls, "__truediv__")](self, a, [b], {})
        # sequences
        if isinstance(op, ast.Add):
            if isinstance(a, VStr) and isinstance(b, VStr):
                return VStr(z3.Concat(a.t, b.t))
            ta = self.bytes_term(a)
            tb = self.bytes_term(b)
            if ta is not None and tb is not None:
                return VBytes(z3.Concat(ta, tb))
            if isinstance(a, VTuple) and isinstance(b, VTuple):
                return VTuple(a.items + b.items)
            la, lb = self.deref(a), self.deref(b)
            if isinstance(la, HList) and isinstance(lb, HList):
                if la.items is not None and lb.items is not None:
                    return self.alloc(HList(items=la.items + lb.items))
                return self.alloc(HList(seq=z3.Concat(self.list_seq(la), self.list_seq(lb))))
        if isinstance(op, ast.Mult):
            if isinstance(a, VStr) and isinstance(b, VInt):
                f = self.engine.uf("str_repeat", S, I, S)
                r = f(a.t, b.t)
                self.assume(z3.Length(r) == z3.If(b.t > 0, b.t, 0) * z3.Length(a.t))
                return VStr(r)
            la = self.deref(a)
            if isinstance(la, HList) and la.items is not None and isinstance(b, VInt) and z3.is_int_value(z3.simplify(b.t)):
                return self.alloc(HList(items=la.items * z3.simplify(b.t).as_long()))
        if isinstance(op, ast.Mod) and isinstance(a, VStr):
            f = self.engine.uf("str_format", S, PV, S)
            return VStr(f(a.t, self.box(b)))
        np = self.num_pair(a, b)
        if np is None:
            raise Unsupported(f"binary {type(op).__name__} on {a!r}, {b!r}")
        x, y, k = np
        if k == "int":
            if isinstance(op, ast.Add):
                return VInt(x + y)
            if isinstance(op, ast.Sub):
                return VInt(x - y)
            if isinstance(op, ast.Mult):
                return VInt(x * y)
            if isinstance(op, ast.FloorDiv):
                if not self.pure and not self.branch(y != 0):
                    self.raise_("ZeroDivisionError")
                return VInt(self.floordiv(x, y))
            if isinstance(op, ast.Mod):
                if not self.pure and not self.branch(y != 0):
                    self.raise_("ZeroDivisionError")
                return VInt(self.pymod(x, y))
            if isinstance(op, ast.Div):
                if not self.pure and not self.branch(y != 0):
                    self.raise_("ZeroDivisionError")
                self.engine.assumption("float-as-exact-rational: int/int true division read as the exact quotient")
                return VFloat(z3.ToReal(x) / z3.ToReal(y))
            if isinstance(op, ast.Pow):
                return self.int_pow(x, y)
            if isinstance(op, ast.LShift):
                return VInt(x * self.pow2(y))
            if isinstance(op, ast.RShift):
                return VInt(self.floordiv(x, self.pow2(y)))
            if isinstance(op, ast.BitAnd):
                return self.bitand(x, y)
            raise Unsupported(f"int op {type(op).__name__}")
        # float
        if isinstance(op, ast.Add):
            return VFloat(x + y)
        if isinstance(op, ast.Sub):
            return VFloat(x - y)
        if isinstance(op, ast.Mult):
            self.engine.assumption("float-as-exact-rational: float product read exactly")
            return VFloat(x * y)
        if isinstance(op, ast.Div):
            if not self.pure and not self.branch(y != 0):
                self.raise_("ZeroDivisionError")
            self.engine.assumption("float-as-exact-rational: float quotient read exactly")
            return VFloat(x / y)
        if isinstance(op, ast.Pow):
            # 2 ** <float>: uninterpreted except on integral exponents
            xs = z3.simplify(x)
            if z3.is_rational_value(xs) and xs.as_fraction() == 2:
                return VFloat(self.engine.pow2_real(self, y))
        raise Unsupported(f"float op {type(op).__name__}")

    def bytes_term(self, v):
        if isinstance(v, VBytes):
            return v.t
        if isinstance(v, VRef) and isinstance(self.heap[v.rid], HBytes):
            return self.heap[v.rid].t
        return None

    @staticmethod
    def floordiv(x, y):
        # z3 integer div is euclidean (0 <= remainder < |y|); python floors.  For y > 0 they coincide;
        # for y < 0:  x // y == (-x) // (-y)  and -y > 0.
        return z3.If(y > 0, x / y, (-x) / (-y))

    @staticmethod
    def pymod(x, y):
        # python: result has the sign of y.  z3 `%` gives 0 <= r < |y|.
        return z3.If(y > 0, x % y, -((-x) % (-y)))

    def pow2(self, e):
        return self.engine.pow2_int(self, e)

    def int_pow(self, x, y):
        xs, ys = z3.simplify(x), z3.simplify(y)
        if z3.is_int_value(xs) and z3.is_int_value(ys) and ys.as_long() >= 0:
            return VInt(xs.as_long() ** ys.as_long())
        if z3.is_int_value(xs) and xs.as_long() == 2:
            if self.branch(y >= 0):
                return VInt(self.pow2(y))
            return VFloat(self.engine.pow2_real(self, z3.ToReal(y)))
        if z3.is_int_value(ys) and 0 <= ys.as_long() <= 4:
            r = z3.IntVal(1)
            for _ in range(ys.as_long()):
                r = r * x
            return VInt(r)
        raise Unsupported("general integer power")

    def bitand(self, x, y):
        # recognised idiom only: v & (v - 1)   (lemma L1: zero iff v is 0 or a power of two)
        d = z3.simplify(x - y)
        if z3.is_int_value(d) and d.as_long() == 1:
            return VInt(self.engine.and_sub1(self, x))
        d = z3.simplify(y - x)
        if z3.is_int_value(d) and d.as_long() == 1:
            return VInt(self.engine.and_sub1(self, y))
        raise Unsupported("bitwise and outside the x & (x-1) idiom")

    def ex_ListComp(self, n):
        return self.comprehension(n, "list")

    def ex_GeneratorExp(self, n):
        return self.comprehension(n, "gen")

    def pairing_source(self, it):
        """zip(*[iter(X)] * 2): consecutive pairs (X[0],X[1]), (X[2],X[3]), ... ; len(X) // 2 of them"""
        if not (isinstance(it, ast.Call) and isinstance(it.func, ast.Name) and it.func.id == "zip" and len(it.args) == 1
                and isinstance(it.args[0], ast.Starred)):
            return None
        v = it.args[0].value
        if not (isinstance(v, ast.BinOp) and isinstance(v.op, ast.Mult) and isinstance(v.right, ast.Constant) and v.right.value == 2
                and isinstance(v.left, ast.List) and len(v.left.elts) == 1):
            return None
        e = v.left.elts[0]
        if not (isinstance(e, ast.Call) and isinstance(e.func, ast.Name) and e.func.id == "iter" and len(e.args) == 1):
            return None
        xs = self.eval(e.args[0])
        h = self.deref(self.unbox(xs) if isinstance(xs, VBox) else xs)
        if not isinstance(h, HList):
            raise Unsupported("pairing idiom over a non-list")
        hh = h.clone()
        n = self.list_len(hh)
        return {"kind": "sym", "len": n / 2, "get": lambda i: VTuple([self.list_get(hh, 2 * i), self.list_get(hh, 2 * i + 1)])}

    def comprehension(self, n, kind):
        if len(n.generators) == 1 and not n.generators[0].ifs:
            g = n.generators[0]
            src = self.pairing_source(g.iter) or self.iter_source(self.eval(g.iter))
            saved = dict(self.env)
            if src["kind"] == "concrete":
                out = []
                for item in src["items"]:
                    self.assign(g.target, item)
                    out.append(self.eval(n.elt))
                self.restore_env(saved)
                return self.alloc(HList(items=out))
            ln = src["len"]

            def rule(i, src=src, g=g, n=n):
                sv = dict(self.env)
                self.code_eval = getattr(self, "code_eval", 0) + 1      # names in element expressions resolve as in the code
                try:
                    self.assign(g.target, src["get"](i))
                    v = self.eval(n.elt)
                finally:
                    self.code_eval -= 1
                    self.restore_env(sv)
                return v
            return self.alloc(HList(rule=(ln, rule)))
        if len(n.generators) == 2 and not n.generators[0].ifs and not n.generators[1].ifs \
                and isinstance(n.generators[0].target, ast.Name) and isinstance(n.generators[1].iter, ast.Name) \
                and n.generators[1].iter.id == n.generators[0].target.id:
            # [f(x) for sub in L for x in sub]  ==  [f(x) for x in flatten(L)]
            outer = self.eval(n.generators[0].iter)
            oh = self.deref(self.unbox(outer) if isinstance(outer, VBox) else outer)
            if isinstance(oh, HList) and oh.items is None:
                flat = self.engine.uf("flatten", PVSEQ, PVSEQ)(self.list_seq(oh))
                g = n.generators[1]
                ln = z3.Length(flat)

                def rule2(i, g=g, n=n, flat=flat):
                    sv = dict(self.env)
                    self.code_eval = getattr(self, "code_eval", 0) + 1
                    try:
                        self.assign(g.target, VBox(flat[i]))
                        v = self.eval(n.elt)
                    finally:
                        self.code_eval -= 1
                        self.restore_env(sv)
                    return v
                return self.alloc(HList(rule=(ln, rule2)))
        if len(n.generators) == 1 and len(n.generators[0].ifs) == 1:
            g = n.generators[0]
            tgt, cond = g.target, g.ifs[0]
            if (isinstance(tgt, ast.Name) and isinstance(cond, ast.Name) and cond.id == tgt.id
                    and isinstance(n.elt, ast.Name) and n.elt.id == tgt.id):
                src = self.iter_source(self.eval(g.iter))
                if src["kind"] != "concrete":
                    # [x for x in X if x]  ==  filter_truthy(X)   (uninterpreted, shared with the spec functions)
                    srcv = self.eval(g.iter)
                    h = self.deref(srcv)
                    f = self.engine.uf("filter_truthy", PVSEQ, PVSEQ)
                    return self.alloc(HList(seq=f(self.list_seq(h))))
        # general case: nested generators / filters over concrete sources
        out = []

        def rec(gi):
            if gi == len(n.generators):
                out.append(self.eval(n.elt))
                return
            g = n.generators[gi]
            src = self.iter_source(self.eval(g.iter))
            if src["kind"] != "concrete":
                raise Unsupported("filtered/nested comprehension over symbolic sequence")
            for item in src["items"]:
                self.assign(g.target, item)
                if all(self.branch(self.truth(self.eval(c))) for c in g.ifs):
                    rec(gi + 1)
        saved = dict(self.env)
        rec(0)
        self.restore_env(saved)
        return self.alloc(HList(items=out))

    def restore_env(self, saved):
        self.env.clear()
        self.env.update(saved)

    def ex_Lambda(self, n):
        raise Unsupported("lambda")

    def ex_Starred(self, n):
        raise Unsupported("starred expression")

    # ======================================================================
    # calls
    # ======================================================================
    def ex_Call(self, n):
        if _is_dropped_call(n):
            return VNone()
        # contract-only helper: old(expr)
        if self.pure and isinstance(n.func, ast.Name) and n.func.id == "old":
            return self.eval_old(n.args[0])
        if self.pure and isinstance(n.func, ast.Name) and n.func.id == "with_lemma" and len(n.args) == 2:
            # with_lemma(L, G): L is a ground instance of a valid fact (a spec function that is true for all arguments).
            # Proving: G may use L.  Assuming (callee postcondition at a call site): both L and G are available.
            lem = self.truth(self.eval(n.args[0]))
            goal = self.truth(self.eval(n.args[1]))
            if getattr(self, "assuming_post", 0):
                return VBool(z3.And(lem, goal))
            return VBool(z3.Implies(lem, goal))
        if self.pure and isinstance(n.func, ast.Name) and n.func.id == "implies" and len(n.args) == 2:
            # the consequent is only evaluated where the antecedent can hold (it may mention names that are unbound otherwise)
            a = self.truth(self.eval(n.args[0]))
            a = z3.simplify(a)
            if z3.is_false(a) or not self.feasible(a):
                return VBool(z3.BoolVal(True))
            return VBool(z3.Implies(a, self.truth(self.eval(n.args[1]))))
        f = self.eval(n.func)
        args = []
        for a in n.args:
            if isinstance(a, ast.Starred):
                src = self.iter_source(self.eval(a.value))
                if src["kind"] != "concrete":
                    raise Unsupported("star-args of symbolic sequence")
                args.extend(src["items"])
            else:
                args.append(self.eval(a))
        kwargs = {}
        for kw in n.keywords:
            if kw.arg is None:
                dv = self.eval(kw.value)
                if isinstance(dv, VBox):
                    dv = self.unbox(dv, "dict")
                d = self.deref(dv)
                if not isinstance(d, HDict):
                    raise Unsupported("** of non-dict")
                if d.sym is not None:
                    kwargs["**"] = dv          # symbolic mapping: only callees that take **kwargs alone accept it
                    continue
                for k, v in d.over.items():
                    if v is not DELETED:
                        kwargs[k] = v
            else:
                kwargs[kw.arg] = self.eval(kw.value)
        return self.call(f, args, kwargs, node=n)

    def call(self, f, args, kwargs, node=None):
        if isinstance(f, VBuiltin):
            name = f.name
            if name.startswith("method:"):
                return self.call_method(f.bound, name[7:], args, kwargs)
            if name.startswith("spec:"):
                return self.reg.spec_funcs[name[5:]](self, *args, **kwargs)
            if name in self.reg.externals:
                return self.reg.externals[name](self, args, kwargs)
            raise Unsupported(f"call of builtin {name}")
        if isinstance(f, VFunc):
            if f.bound is not None:
                args = [f.bound] + args
            return self.call_repo(f.info, args, kwargs)
        if isinstance(f, VClass):
            return self.instantiate(f, args, kwargs)
        if isinstance(f, VBox) and self.ghost.get("opaque_callable"):
            return self.ghost["opaque_callable"](self, args)
        if isinstance(f, VModule):
            if f.name in self.reg.externals:
                return self.reg.externals[f.name](self, args, kwargs)
            raise Unsupported(f"unresolved call {f.name}")
        raise Unsupported(f"call of {f!r}")

    def instantiate(self, cls, args, kwargs):
        name = cls.name
        if cls.info is None:
            if name in self.reg.externals:
                return self.reg.externals[name](self, args, kwargs)
            return VExc(name, args)                 # builtin exception classes
        # repo exception classes
        for c in self.repo.mro(cls.info):
            for b in c.bases:
                if b in BUILTIN_EXCEPTIONS:
                    return VExc(cls.info.qualname, args)
        key = cls.info.qualname
        ctor = self.reg.contracts.get(key + ".__init__")
        init = self.repo.lookup_method(cls.info, "__init__")
        obj = self.alloc(HObj(cls.info))
        if init is not None:
            self.call_repo(init, [obj] + args, kwargs)
        return obj

    def call_method(self, recv, name, args, kwargs):
        if isinstance(recv, VBox):
            recv = self.unbox(recv)
        kind = recv.kind
        if isinstance(recv, VRef):
            kind = type(self.heap[recv.rid]).__name__
            if kind == "HObj" and isinstance(self.heap[recv.rid].cls, str):
                kind = "obj:" + self.heap[recv.rid].cls
        fn = self.reg.methods.get((kind, name))
        if fn is None:
            raise Unsupported(f"method {kind}.{name}")
        return fn(self, recv, args, kwargs)

    def bind_args(self, info, args, kwargs):
        a = info.node.args
        names = [x.arg for x in a.posonlyargs + a.args]
        bound = {}
        if "**" in kwargs:
            star = kwargs.pop("**")
            if a.kwarg is not None and not kwargs and len(args) == len(names):
                for nme, v in zip(names, args):
                    bound[nme] = v
                bound[a.kwarg.arg] = star
                return bound
            # named parameters: take every parameter the mapping is known to contain (keys must be decided by the path condition)
            d = self.heap[star.rid]
            for nme in names[len(args):] + [x.arg for x in a.kwonlyargs]:
                if nme in kwargs:
                    continue
                has = self.dict_has(d, VStr(nme))
                if self.entails(has):
                    kwargs[nme] = self.dict_get(d, VStr(nme))
                elif self.feasible(has):
                    raise Unsupported(f"** of a symbolic dict: presence of key {nme!r} is not determined")
        if len(args) > len(names) and a.vararg is None:
            self.raise_("TypeError")
        for nme, v in zip(names, args):
            bound[nme] = v
        rest = list(args[len(names):])
        extra_kw = {}
        for k, v in kwargs.items():
            if k in names or k in [x.arg for x in a.kwonlyargs]:
                if k in bound:
                    self.raise_("TypeError")
                bound[k] = v
            elif a.kwarg is not None:
                extra_kw[k] = v
            else:
                self.raise_("TypeError")
        defaults = info.defaults()
        for nme in names + [x.arg for x in a.kwonlyargs]:
            if nme not in bound:
                if nme in defaults:
                    bound[nme] = self.eval_default(defaults[nme], info)
                else:
                    self.raise_("TypeError")
        if a.vararg is not None:
            bound[a.vararg.arg] = VTuple(rest)
        if a.kwarg is not None:
            bound[a.kwarg.arg] = self.alloc(HDict(over=extra_kw))
        return bound

    def eval_default(self, node, info):
        if isinstance(node, ast.Constant):
            return self.ex_Constant(node)
        if isinstance(node, (ast.List, ast.Tuple)) and not node.elts:
            return self.alloc(HList(items=[])) if isinstance(node, ast.List) else VTuple([])
        if isinstance(node, ast.Attribute) or isinstance(node, ast.Name):
            self.func_stack.append({"info": info, "contract": None, "loops": []})
            self.frames.append({})
            try:
                return self.eval(node)
            finally:
                self.frames.pop()
                self.func_stack.pop()
        raise Unsupported("default value")

    def call_repo(self, info, args, kwargs):
        c = self.reg.contracts.get(info.qualname)
        bound = self.bind_args(info, args, kwargs)
        if c is not None and not c.inline:
            return self.apply_contract(info, c, bound)
        if c is None and info.qualname not in self.engine.inline_ok:
            # a repository function without a contract (e.g. a helper introduced by a refactoring) is inlined when it is
            # not on the current call stack; recursion without a contract stays an unresolved call
            if any(fr.get("info") is info for fr in self.func_stack):
                raise Unsupported(f"recursive call of {info.qualname} which has no contract (unresolved-call)")
            self.engine.inlined.add(info.qualname)
        return self.inline_call(info, c, bound)

    def inline_call(self, info, c, bound):
        if info.is_generator:
            raise Unsupported(f"inline call of generator {info.qualname}")
        if len(self.func_stack) > 12:
            raise Unsupported("inline depth")
        self.func_stack.append({"info": info, "contract": c, "loops": _loops_of(info.node)})
        self.frames.append(dict(bound))
        try:
            self.exec_block(info.node.body)
            return VNone()
        except CtlReturn as r:
            return r.val
        finally:
            self.frames.pop()
            self.func_stack.pop()

    # -- contract application at a call site (modular verification) -------------------
    def apply_contract(self, info, c, bound):
        caller = self.cur_func
        self.func_stack.append({"info": info, "contract": c, "loops": []})
        self.frames.append(dict(bound))
        try:
            if c.setup and c.extra.get("setup_at_calls"):
                c.setup(self, self.env)
            if c.variants:
                vnames = {k for var in c.variants for k in var if not k.startswith("_")}
                for k, v in list(bound.items()):
                    if isinstance(v, VBox) and k in vnames:
                        bound[k] = self.env[k] = self.unbox(v)
            for j, r in enumerate(c.requires):
                props, lab, expr = self._clause(r, self.func_stack[-1])
                if lab == "env":
                    # a statement about the environment (ghost state created for this call), not about the arguments
                    self.assume(self.eval_contract_expr(expr))
                    continue
                self.oblige(f"call {info.qualname}:{lab or j}", "pre@call", self.eval_contract_expr(expr), props,
                            note=f"line {getattr(self, 'cur_line', '?')}")
            topc = self.func_stack[0]["contract"]
            if topc is not None and len(self.func_stack) == 2:
                for cl in topc.extra.get("call_obligations", {}).get(info.qualname, []):
                    props, lab, expr = self._clause(cl, self.func_stack[0])
                    for k, v in self.frames[-2].items():
                        self.env.setdefault("caller_" + k, v)
                    self.oblige(f"at call {info.name}:{lab}", "call-site", self.eval_contract_expr(expr), props,
                                note=f"line {getattr(self, 'cur_line', '?')}")
            old = self.snapshot()
            vi = c.select_variant(self, bound)
            vreq = c.extra.get("variant_requires")
            for j, r in enumerate(list(vreq[vi]) if vreq else []):
                props, lab, expr = self._clause(r, self.func_stack[-1])
                self.oblige(f"call {info.qualname}:variant{vi}:{lab or j}", "pre@call", self.eval_contract_expr(expr), props,
                            note=f"line {getattr(self, 'cur_line', '?')}")
            # exceptional outcomes
            for exc_name, spec in c.raises.items():
                when = spec.get("when")
                if when is None:
                    cond = self.fresh("raises_" + exc_name.split(".")[-1], B)
                else:
                    cond = self.eval_contract_expr(when)
                if self.branch(cond):
                    saved_old = self.old
                    self.old = old
                    for m in spec.get("modifies", []):
                        self.havoc_target(m)
                    for cl in c.raise_ensures(spec, vi):
                        props, lab, expr = self._clause(cl, self.func_stack[-1])
                        self.assume(self.eval_contract_expr(expr))
                    self.old = saved_old
                    raise PyRaise(VExc(exc_name, []))
            # normal outcome
            for m in c.modifies:
                self.havoc_target(m)
            for fld, ft in c.extra.get("creates", {}).items():
                selfobj = self.deref(bound.get("self"))
                if isinstance(selfobj, HObj):
                    selfobj.fields[fld] = self.make_symbolic(f"{info.name}_{fld}", ft)
            for gname in c.extra.get("ghost_out", {}):
                self.ghost[gname] = self.fresh("ghost_" + gname, BYTES)       # constrained by the ensures clauses below
            for wname, wtype in c.extra.get("exists", {}).items():
                # names of the callee's own locals / ghosts that its postcondition mentions: existential witnesses here
                self.env[wname] = self.make_symbolic(f"{info.name}_{wname}", wtype)
                # ... and ghost locals of the caller (its own postcondition may mention them as its witnesses in turn)
                if len(self.frames) >= 2:
                    exported = self.ghost.setdefault("exported_witnesses", set())
                    if wname not in self.frames[-2] or (id(self.frames[-2]), wname) in exported:
                        self.frames[-2][wname] = self.env[wname]         # a later call's witnesses replace an earlier call's
                        exported.add((id(self.frames[-2]), wname))
            result = self.make_symbolic("result_" + info.name, c.returns) if c.returns else VNone()
            self.env["result"] = result
            saved_old = self.old
            self.old = old
            ghosts = list(c.ghost.items())
            self.assuming_post = getattr(self, "assuming_post", 0) + 1
            for cl in c.all_ensures(vi):
                props, lab, expr = self._clause(cl, self.func_stack[-1])
                used = [g for g, _ in ghosts if re.search(r"\b%s\b" % re.escape(g), expr)]
                if not used:
                    self.assume(self.eval_contract_expr(expr))
                    continue
                if len(used) > 1:
                    raise ContractError("more than one ghost variable in an assumed clause")
                for trig in self.call_triggers(dict(ghosts)[used[0]]):
                    self.env[used[0]] = trig
                    self.assume(self.eval_contract_expr(expr))
            self.assuming_post -= 1
            self.old = old
            self.shapes_assume(c.extra.get("shapes_out", {}), vi, info.name)
            for ex in c.extra.get("post_lemmas", []):
                self.assume(self.eval_contract_expr(ex))
            for gname, gexpr in c.extra.get("ghost_out", {}).items():
                if gexpr.strip() in ("hashed()",):
                    continue
                gv = self.eval_contract_expr(gexpr, want_bool=False)
                self.assume(self.ghost[gname] == self.bytes_term(gv))
            post = c.extra.get("post_hook")
            if post:
                post(self, bound, result)
            self.old = saved_old
            if self.path_check() == z3.unsat:
                # the callee's postcondition contradicts what is known at the call site (typically a missing `modifies`):
                # continuing would make everything after this call vacuously true
                raise ContractError(f"postcondition of {info.qualname} is contradictory at this call site (missing modifies?)")
            return result
        finally:
            self.frames.pop()
            self.func_stack.pop()

    def call_triggers(self, typ):
        """ground terms at which a callee's ghost-quantified clauses are instantiated: every constant of that
        type in the source of the function under verification, plus that function's own ghost constants"""
        top = self.func_stack[0]
        out = []
        seen = set()
        if typ == "str":
            for n in ast.walk(top["info"].node):
                if isinstance(n, ast.Constant) and isinstance(n.value, str) and n.value not in seen and len(n.value) < 24 \
                        and " " not in n.value and "%" not in n.value:
                    seen.add(n.value)
                    out.append(VStr(n.value))
                elif isinstance(n, ast.Attribute) and n.attr not in seen and isinstance(n.value, ast.Name) and n.value.id == "args":
                    seen.add(n.attr)
                    out.append(VStr(n.attr))
            c = top["contract"]
            if c is not None:
                for g, gt in c.ghost.items():
                    if gt == "str" and g in self.frames[0]:
                        out.append(self.frames[0][g])
        elif typ in ("bytes", "int"):
            # instances: the caller's own ghost constants of that type (proving the caller's clause for its arbitrary constant
            # needs the callee's clause at exactly that constant)
            c = top["contract"]
            if c is not None:
                for g, gt in c.ghost.items():
                    if gt == typ and g in self.frames[0]:
                        out.append(self.frames[0][g])
        else:
            raise ContractError(f"ghost type {typ} not supported at call sites")
        return out

    # -- object shapes: "after this call / at this loop head the target is an object of one of these classes" -----------
    def shapes_goal(self, shapes, variant):
        """[(target, Bool term)]: the actual object at each target has one of the declared shapes, with its `when` and wf clauses"""
        out = []
        for target, alts in shapes.items():
            actual = self.eval(ast.parse(target, mode="eval").body)
            disj = []
            for alt in alts:
                if "variants" in alt and variant not in alt["variants"]:
                    continue
                typ = alt.get("type")
                if isinstance(typ, dict) and not self.shape_matches(actual, typ):
                    continue
                conj = []
                if alt.get("when"):
                    conj.append(self.eval_contract_expr(alt["when"]))
                for cl in alt.get("wf", []):
                    conj.append(self.eval_contract_expr(cl))
                disj.append(z3.And(conj) if conj else z3.BoolVal(True))
            out.append((target, z3.Or(disj) if disj else z3.BoolVal(False)))
        return out

    def shapes_assume(self, shapes, variant, label):
        """branch over the declared alternatives of each target, install a typed symbolic object and assume its clauses"""
        for target, alts in shapes.items():
            alts = [a for a in alts if "variants" not in a or variant in a["variants"]]
            chosen = None
            for k, alt in enumerate(alts):
                if alt.get("when"):
                    cond = self.eval_contract_expr(alt["when"])
                elif k == len(alts) - 1:
                    cond = z3.BoolVal(True)
                else:
                    cond = self.fresh(f"shape_{label}_{k}", B)
                if self.branch(cond):
                    chosen = alt
                    break
            if chosen is None:
                raise PathEnd()
            typ = chosen.get("type")
            if typ is not None and typ != "keep":
                node = ast.parse(target, mode="eval").body
                node.ctx = ast.Store()
                self.assign(node, self.make_symbolic(f"{label}_{target.split('.')[-1]}", typ))
            for cl in chosen.get("wf", []):
                self.assume(self.eval_contract_expr(cl))

    def havoc_target(self, m):
        node = ast.parse(m, mode="eval").body
        cur = self.eval(node)
        if isinstance(node, ast.Name):
            if isinstance(cur, VRef):
                self.havoc_heap(cur, m)
            else:
                raise ContractError(f"modifies {m}: not a mutable object")
        else:
            if isinstance(cur, VRef) and isinstance(node, ast.Attribute) and False:
                self.havoc_heap(cur, m)
            else:
                node.ctx = ast.Store()
                self.assign(node, self.havoc_value(cur, m))

    # -- contract expressions ----------------------------------------------------------
    def eval_contract_expr(self, expr, want_bool=True):
        node = self.engine.parse_expr(expr)
        self.pure += 1
        try:
            try:
                v = self.eval(node)
            except PyRaise as pr:
                raise ContractError(f"contract expression raised {pr.exc.cls}: {expr}")
            except Unsupported as u:
                raise ContractError(f"contract expression unsupported ({u}): {expr}")
        finally:
            self.pure -= 1
        if want_bool:
            return self.truth(v)
        return v

    def eval_contract_expr_top(self, expr, want_bool=True):
        """evaluate a clause of the function under verification from inside a nested frame (effects in callees)"""
        saved_frames, saved_stack = self.frames, self.func_stack
        self.frames = [saved_frames[0]]
        self.func_stack = [saved_stack[0]]
        try:
            return self.eval_contract_expr(expr, want_bool)
        finally:
            self.frames, self.func_stack = saved_frames, saved_stack

    def eval_old(self, node):
        """old(expr): evaluate in the entry snapshot.  Heap objects in the result are imported into the current
        heap as detached deep copies, so that later dereferencing cannot see the current state."""
        if self.old is None:
            raise ContractError("old() outside postcondition")
        env0, heap0 = self.old
        saved_env, saved_heap = self.frames[-1], self.heap
        self.frames[-1] = dict(env0)
        self.heap = {k: v.clone() for k, v in heap0.items()}
        try:
            v = self.eval(node)
            oldheap = self.heap
        finally:
            self.frames[-1] = saved_env
            self.heap = saved_heap
        return self.import_value(v, oldheap, {})

    def import_value(self, v, src_heap, memo):
        if isinstance(v, VRef):
            if v.rid in memo:
                return memo[v.rid]
            h = src_heap[v.rid].clone()
            ref = self.alloc(h)
            memo[v.rid] = ref
            if isinstance(h, HObj):
                for k, x in list(h.fields.items()):
                    h.fields[k] = self.import_value(x, src_heap, memo)
            elif isinstance(h, HDict):
                for k, x in list(h.over.items()):
                    if x is not DELETED and not isinstance(x, Cond):
                        h.over[k] = self.import_value(x, src_heap, memo)
            elif isinstance(h, HList) and h.items is not None:
                h.items = [self.import_value(x, src_heap, memo) for x in h.items]
            return ref
        if isinstance(v, VTuple):
            return VTuple([self.import_value(x, src_heap, memo) for x in v.items])
        return v

    # -- creating symbolic inputs ---------------------------------------------------------
    def make_symbolic(self, name, typ):
        return self.engine.make_symbolic(self, name, typ)


class MergeAbort(Exception):
    pass


def _mergeable(stmts):
    """syntactic test: straight-line code (assignments, expression statements, nested ifs) only"""
    for st in stmts:
        if isinstance(st, (ast.Assign, ast.AugAssign, ast.AnnAssign, ast.Expr, ast.Pass)):
            if any(isinstance(n, (ast.Yield, ast.YieldFrom, ast.Await)) for n in ast.walk(st)):
                return False
            continue
        if isinstance(st, ast.If):
            if not (_mergeable(st.body) and _mergeable(st.orelse)):
                return False
            continue
        return False
    return True


def _loops_of(fnode):
    out = []

    def walk(stmts):
        for st in stmts:
            if isinstance(st, (ast.While, ast.For)):
                out.append(st)
            for fld in ("body", "orelse", "finalbody"):
                sub = getattr(st, fld, None)
                if isinstance(sub, list) and sub and isinstance(sub[0], ast.stmt):
                    walk(sub)
            if isinstance(st, ast.Try):
                for h in st.handlers:
                    walk(h.body)
    walk(fnode.body)
    return out


BUILTIN_NAMES = {"len", "int", "str", "bytes", "bytearray", "list", "dict", "tuple", "set", "range", "enumerate", "zip",
                 "min", "max", "sum", "sorted", "isinstance", "open", "print", "next", "iter", "vars", "hasattr",
                 "abs", "any", "all", "bool", "float", "super", "getattr", "repr", "reversed", "map", "type"}
BUILTIN_EXCEPTIONS = {"Exception", "BaseException", "ValueError", "TypeError", "KeyError", "IndexError", "StopIteration",
                      "FileNotFoundError", "FileExistsError", "PermissionError", "OSError", "NotImplementedError",
                      "ZeroDivisionError", "AttributeError", "RuntimeError", "AssertionError", "LookupError",
                      "IsADirectoryError", "NotADirectoryError", "KeyboardInterrupt", "SystemExit", "UnicodeDecodeError"}
BUILTIN_EXC_ALIASES = {}
MODULE_CONSTS = {"os.sep": lambda: VStr("/"), "os.altsep": lambda: VNone(), "logging.INFO": lambda: VInt(20), "logging.DEBUG": lambda: VInt(10)}
