"""Engine: drives path enumeration per function, owns UFs / lemma instantiation, discharges obligations."""
import ast
import os
import subprocess
import tempfile
import time
import traceback
import z3

from .values import *  # noqa: F401,F403
from .engine import (Registry, Contract, Obligation, Unsupported, ContractError, PathEnd, PyRaise, CtlReturn,
                     CtlBreak, CtlContinue, BUILTIN_EXC_BASES)
from .interp import Exec, _loops_of
from .source import Repo


RLIMIT_PER_MS = 6000


from .engine import guarded_check, forked_check  # noqa: E402


class FunctionReport:
    def __init__(self, qualname):
        self.qualname = qualname
        self.obligations = []
        self.paths = 0
        self.status = "ok"          # ok | unsupported | contract-error | missing
        self.reason = None
        self.time = 0.0
        self.digest = None
        self.canaries = 0
        self.canaries_refuted = 0
        self.variants = 0


class Engine:
    def __init__(self, reg, repo=None, timeout_ms=10000, feas_timeout_ms=500, max_paths=4000):
        self.reg = reg
        self.repo = repo or Repo()
        self.timeout_ms = timeout_ms
        self.feas_timeout_ms = feas_timeout_ms
        self.max_paths = max_paths
        self.feas_rlimit = 3000000
        self._ufs = {}
        self._expr_cache = {}
        self.assumptions = []
        self.inline_ok = set()
        self.inlined = set()
        self.lemma_log = {}

    # -- small services used by Path -------------------------------------------------
    def uf(self, name, *sorts):
        if name not in self._ufs:
            self._ufs[name] = z3.Function(name, *sorts)
        return self._ufs[name]

    def assumption(self, text):
        if text not in self.assumptions:
            self.assumptions.append(text)

    def parse_expr(self, expr):
        if expr not in self._expr_cache:
            self._expr_cache[expr] = ast.parse(expr.strip(), mode="eval").body
        return self._expr_cache[expr]

    def exc_base(self, cls):
        if cls in BUILTIN_EXC_BASES:
            return BUILTIN_EXC_BASES[cls]
        ci = self.repo.find_class(cls)
        if ci is not None and ci.bases:
            b = ci.bases[0]
            bc = self.repo.resolve_base(ci, b)
            return bc.qualname if bc is not None else b
        short = cls.split(".")[-1]
        if short in BUILTIN_EXC_BASES:
            return BUILTIN_EXC_BASES[short]
        if cls in ("BaseException", "object"):
            return None
        return "Exception"

    def note_keys_term(self, path, t, op, keys, kt):
        # definitional facts about insertion-ordered key sequences, instantiated at creation
        # membership in a key sequence is the uninterpreted predicate key_in (z3's seq.contains makes the
        # path conditions intractable); the dict well-formedness instance has[k] == key_in(keys, k) links it
        kin = self.uf("key_in", KEYSEQ, KEY, B)
        has_in = kin(keys, kt)
        if op == "add":
            path.assume(t == z3.If(has_in, keys, z3.Concat(keys, z3.Unit(kt))))
            path.assume(kin(t, kt))
        else:
            # removal keeps the relative order of the others; we only state what is needed
            path.assume(z3.Not(kin(t, kt)))
            path.assume(z3.Implies(z3.Not(has_in), t == keys))
            path.assume(z3.Length(t) == z3.If(has_in, z3.Length(keys) - 1, z3.Length(keys)))

    # -- arithmetic helper theories (ground-instantiated) ----------------------------------
    def pow2_int(self, path, e):
        """2**e for an integer term e >= 0."""
        es = z3.simplify(e)
        if z3.is_int_value(es):
            return z3.IntVal(2 ** es.as_long()) if es.as_long() >= 0 else None
        f = self.uf("pow2", I, I)
        t = f(e)
        # ground facts: exact values on the window the code can reach are supplied by range knowledge
        lo, hi = self.int_bounds(path, e, 0, 64)
        if lo is not None and hi is not None and hi - lo <= 64:
            path.assume(z3.Or([z3.And(e == k, t == 2 ** k) for k in range(lo, hi + 1)]))
        else:
            path.assume(z3.Implies(e >= 0, t >= 1))
            path.assume(z3.Implies(e >= 1, z3.And(t == 2 * f(e - 1), t >= 2)))
            path.assume(z3.Implies(e >= 0, f(e + 1) == 2 * t))
            self.assumption("pow2: 2**e for unbounded symbolic e is axiomatised by positivity and the "
                            "successor/predecessor step only")
        return t

    def int_bounds(self, path, e, lo_min, hi_max):
        """tightest constant bounds of e under the path condition within [lo_min, hi_max], or (None, None)"""
        if not path.entails(z3.And(e >= lo_min, e <= hi_max)):
            return None, None
        lo, hi = lo_min, hi_max
        while lo < hi and path.entails(e > lo):
            lo += 1
        while hi > lo and path.entails(e < hi):
            hi -= 1
        return lo, hi

    def pow2_real(self, path, y):
        f = self.uf("pow2r", R, R)
        t = f(y)
        self.assumption("2**<float>: uninterpreted except 2**k == 2^k for integral k in 0..64 and positivity")
        path.assume(t > 0)
        path.assume(z3.And([z3.Implies(y == k, t == 2 ** k) for k in range(0, 65)]))
        return t

    def log2_real(self, path, x):
        """math.log2(int x): uninterpreted except the exact values CPython guarantees on powers of two"""
        f = self.uf("log2r", I, R)
        t = f(x)
        self.assumption("math.log2: uninterpreted except log2(2^k) == k for 0 <= k <= 64 (nothing is assumed "
                        "about other arguments)")
        path.assume(z3.And([z3.Implies(x == 2 ** k, t == k) for k in range(0, 65)]))
        return t

    def and_sub1(self, path, x):
        """x & (x-1): lemma L1 (Lean core Nat.and_sub_one_eq_zero_iff_isPowerOfTwo): for x > 0 the result
        is 0 iff x is a power of two; and 0 <= x & (x-1) < x for x > 0; 0 & -1 == 0."""
        f = self.uf("and_sub1", I, I)
        t = f(x)
        isp = self.is_pow2(path, x)
        path.assume(z3.Implies(x > 0, (t == 0) == isp))
        path.assume(z3.Implies(x > 0, z3.And(t >= 0, t < x)))
        path.assume(z3.Implies(x == 0, t == 0))
        self.assumption("L1: x & (x-1) == 0 iff x is a power of two (x > 0) -- Lean core lemma "
                        "Nat.and_sub_one_eq_zero_iff_isPowerOfTwo; recognised idiom only")
        return t

    def is_pow2(self, path, x):
        """Bool term: x is a power of two.  ilog2 is a skolem function; is_pow2(x) := x == pow2(ilog2(x))
        with ground facts for every constant exponent 0..64 (complete for x < 2^65) and the step lemma."""
        p = self.uf("is_pow2", I, B)
        t = p(x)
        key = ("is_pow2", x.get_id())
        if key not in path.ghost:
            path.ghost[key] = True
            path.assume(z3.Implies(z3.And(x >= 1, x <= 2 ** 64), t == z3.Or([x == 2 ** k for k in range(0, 65)])))
            path.assume(z3.Implies(x <= 0, z3.Not(t)))
            # beyond 2^64: only the halving step (x pow2 and x > 1  =>  x even and x/2 pow2) and doubling
            path.assume(z3.Implies(z3.And(t, x > 1), z3.And(x % 2 == 0, p(x / 2))))
            path.assume(z3.Implies(z3.And(x >= 1, p(x)), p(2 * x)))
            # a power of two that is at least 2^14 is a multiple of 2^14 (2^a | 2^b for a <= b): exact below 2^64 by the
            # enumeration above; stated for all x (Lean core: Nat.pow_dvd_pow)
            path.assume(z3.Implies(z3.And(t, x >= 16384), z3.And(x % 16384 == 0, p(x / 16384))))
            self.assumption("is_pow2: exact on 1..2^64 (enumerated); above 2^64 only the halving/doubling steps "
                            "are available to the solver")
        return t

    # -- creating symbolic values from type strings ---------------------------------------------
    def make_symbolic(self, path, name, typ):
        if isinstance(typ, dict) and typ.get("cls") == "argparse.Namespace":
            # attributes live in a dict that vars(ns) exposes (aliasing between ns.x and vars(ns)['x'] is real)
            d = HDict()
            dref = path.alloc(d)
            for f, ft in typ.get("fields", {}).items():
                d.over[f] = self.make_symbolic(path, f"{name}_{f}", ft)
            obj = HObj("argparse.Namespace")
            obj.ns_dict = dref
            return path.alloc(obj)
        if isinstance(typ, dict):
            cls = typ.get("cls")
            ci = self.repo.find_class(cls) if cls else None
            obj = HObj(ci or cls or "object")
            ref = path.alloc(obj)
            for f, ft in typ.get("fields", {}).items():
                obj.fields[f] = self.make_symbolic(path, f"{name}_{f}", ft)
            return ref
        typ = typ.strip()
        if typ == "int":
            return VInt(path.fresh(name, I))
        if typ == "nat":
            v = VInt(path.fresh(name, I))
            path.assume(v.t >= 0)
            return v
        if typ == "bool":
            return VBool(path.fresh(name, B))
        if typ == "str":
            return VStr(path.fresh(name, S))
        if typ == "bytes":
            v = VBytes(path.fresh(name, BYTES))
            return v
        if typ == "bytearray":
            return path.alloc(HBytes(path.fresh(name, BYTES)))
        if typ == "float":
            return VFloat(path.fresh(name, R))
        if typ == "none":
            return VNone()
        if typ == "any":
            return VBox(path.fresh(name, PV))
        if typ == "list" or typ.startswith("list["):
            ref = path.alloc(HList(seq=path.fresh(name, PVSEQ)))
            if typ.startswith("list["):
                path.heap[ref.rid].tag["elem"] = typ[5:-1].strip()
            return ref
        if typ.startswith("dict{"):
            dom = [x.strip() for x in typ[5:-1].split(",")]
            ref = self.make_symbolic(path, name, "dict")
            path.heap[ref.rid].tag["key_domain"] = dom
            return ref
        if typ == "dict":
            return path.alloc(HDict(sym=(path.fresh(name + "_keys", KEYSEQ), path.fresh(name + "_has", z3.ArraySort(KEY, B)),
                                         path.fresh(name + "_map", z3.ArraySort(KEY, PV)))))
        if typ.startswith("tuple["):
            parts = [x.strip() for x in typ[6:-1].split(",")]
            return VTuple([self.make_symbolic(path, f"{name}_{i}", t) for i, t in enumerate(parts)])
        if typ == "file":
            return path.alloc(HFile(path.fresh(name + "_path", S), path.fresh(name + "_content", BYTES), path.fresh(name + "_pos", I), "rb",
                                    tail=path.fresh(name + "_tail", BYTES)))
        if typ == "set":
            return path.alloc(HSet(path.fresh(name + "_has", z3.ArraySort(KEY, B))))
        if typ.startswith("const:"):
            return path.ex_Constant(ast.Constant(value=ast.literal_eval(typ[6:])))
        hook = self.reg.extra_types.get(typ.split(":")[0]) if hasattr(self.reg, "extra_types") else None
        if hook:
            return hook(path, name, typ)
        raise ContractError(f"unknown type {typ!r} for {name}")

    # -- verification of one function -------------------------------------------------------------
    def verify(self, qualname, only_variants=None):
        rep = FunctionReport(qualname)
        t0 = time.time()
        c = self.reg.contracts.get(qualname)
        info = self.repo.find(qualname)
        if info is None:
            rep.status, rep.reason = "missing", f"{qualname} not found in the working tree"
            return rep
        if c is None:
            rep.status, rep.reason = "contract-error", "no contract"
            return rep
        rep.digest = info.digest()
        # feasibility / entailment questions run in a forked child with a hard kill unless the contract opts out (fork_checks=False)
        self.fork_checks = bool(c.extra.get("fork_checks", True))
        variants = c.variants or [{}]
        try:
            for vi, var in enumerate(variants):
                if only_variants is not None and vi not in only_variants:
                    continue
                rep.variants += 1
                self.verify_variant(info, c, var, vi, rep)
        except Unsupported as u:
            rep.status, rep.reason = "unsupported", str(u)
            if os.environ.get("PYVC_TB"):
                import traceback
                traceback.print_exc()
        except ContractError as u:
            rep.status, rep.reason = "contract-error", str(u)
        except z3.Z3Exception as u:
            rep.status, rep.reason = "unsupported", "z3: " + str(u)
        except RecursionError:
            rep.status, rep.reason = "unsupported", "recursion depth"
        rep.time = time.time() - t0
        return rep

    def verify_variant(self, info, c, var, vi, rep):
        work = [[]]
        seen = 0
        while work:
            dec = work.pop()
            seen += 1
            if seen > self.max_paths:
                raise Unsupported(f"more than {self.max_paths} paths")
            p = Exec(self, dec)
            p.cur_func = info.qualname
            p.cur_contract = c
            p.variant = vi
            try:
                self.run_path(p, info, c, var)
            except PathEnd:
                pass
            work.extend(p.pending)
            rep.paths += 1
            for ob in p.obligations:
                ob.variant = vi
                rep.obligations.append(ob)

    def run_path(self, p, info, c, var):
        params = dict(c.params)
        params.update(var)
        env = {}
        p.frames.append(env)
        p.func_stack.append({"info": info, "contract": c, "loops": _loops_of(info.node)})
        names = info.params()
        a = info.node.args
        allnames = names + [x.arg for x in a.kwonlyargs]
        defaults = info.defaults()
        for nme in allnames:
            if nme in params:
                env[nme] = self.make_symbolic(p, nme, params[nme])
            elif nme in defaults:
                env[nme] = p.eval_default(defaults[nme], info)
            else:
                raise ContractError(f"parameter {nme} of {info.qualname} has no type in the contract")
        for extra in params:
            if extra not in allnames:
                if a.kwarg is None and not extra.startswith("_"):
                    raise ContractError(f"contract names parameter {extra} which {info.qualname} does not have")
        if a.vararg is not None:
            env[a.vararg.arg] = VTuple([])
        if a.kwarg is not None:
            env[a.kwarg.arg] = p.alloc(HDict())
        for g, gt in c.ghost.items():
            env[g] = self.make_symbolic(p, g, gt)
        for flag in c.extra.get("ghost_flags", []):
            p.ghost[flag] = True
        if c.setup:
            c.setup(p, env)
        self.install_fs_hooks(p, c)
        vreq = c.extra.get("variant_requires")
        for r in list(c.requires) + (list(vreq[p.variant]) if vreq else []):
            props, lab, expr = p._clause(r, p.func_stack[-1])
            p.assume(p.eval_contract_expr(expr))
        # vacuity guard: the precondition must be satisfiable
        if p.dpos == 0 and not p.decisions:
            if p.path_check() == z3.unsat:
                ob = p.oblige("requires-satisfiable", "vacuity", z3.BoolVal(False), c.props)
                ob.pc = []
                return
        p.old = p.snapshot()
        outcome, val = "return", VNone()
        try:
            p.exec_block(info.node.body)
        except CtlReturn as r:
            val = r.val
        except PyRaise as pr:
            outcome, val = "raise", pr.exc
        except (CtlBreak, CtlContinue):
            raise Unsupported("break/continue outside loop")
        env = p.frames[0]
        if outcome == "return":
            env["result"] = val
            if info.is_generator:
                pass
            for ex in c.extra.get("post_lemmas", []):
                # ground instances of valid arithmetic / spec-function facts about the final values (listed as assumptions)
                try:
                    p.assume(p.eval_contract_expr(ex))
                except ContractError:
                    pass        # a name the lemma mentions is unbound on this path: no instance here
            for j, cl in enumerate(c.all_ensures(p.variant)):
                props, lab, expr = p._clause(cl, p.func_stack[-1])
                p.oblige(lab or f"ensures{j}", "post", p.eval_contract_expr(expr), props)
            for tgt, goal in p.shapes_goal(c.extra.get("shapes_out", {}), p.variant):
                p.oblige(f"shape of {tgt}", "post", goal, c.props)
            # canary: the path that reaches the postcondition must be feasible
            ob = p.oblige("canary", "canary", z3.BoolVal(False), [])
        else:
            cls = val.cls
            spec = None
            for exc_name, sp in c.raises.items():
                if p.exc_matches(cls, exc_name):
                    spec = sp
                    break
            if spec is None:
                p.oblige(f"raises {cls.split('.')[-1]}", "no-unexpected-raise", z3.BoolVal(False), c.raises_props,
                         note=f"line {getattr(p, 'cur_line', '?')}")
            else:
                env["exc_args"] = VTuple(val.args)
                for j, cl in enumerate(c.raise_ensures(spec, p.variant)):
                    props, lab, expr = p._clause(cl, p.func_stack[-1])
                    p.oblige(f"{cls.split('.')[-1]}:{lab or j}", "post-on-raise", p.eval_contract_expr(expr), props)
                if spec.get("allowed_when") is not None:
                    p.oblige(f"{cls.split('.')[-1]}:allowed", "post-on-raise",
                             p.eval_contract_expr(spec["allowed_when"]), spec.get("props", c.raises_props))

    def install_fs_hooks(self, p, c):
        ex = c.extra
        if ex.get("fs_faults"):
            p.ghost["fs_faults"] = True
        inv = ex.get("crash_invariant")
        frame = c.fs_modifies
        if inv:
            def crash_hook(path, label, inv=inv, c=c):
                for cl in inv:
                    props, lab, expr = path._clause(cl, path.func_stack[0])
                    path.oblige(f"{lab}@{label}#{len(path.events)}", "crash-invariant", path.eval_contract_expr_top(expr), props,
                                note=f"line {getattr(path, 'cur_line', '?')}")
            p.ghost["crash_hook"] = crash_hook
        if inv or frame is not None:
            def effect_hook(path, ev, inv=inv, frame=frame, c=c):
                if frame is not None:
                    saved = path.frames[0].get("_path")
                    path.frames[0]["_path"] = VStr(ev["path"])
                    path.frames[0]["_kind"] = VStr(ev["kind"])
                    goals = [path.eval_contract_expr_top(e) for e in frame]
                    path.oblige(f"{ev['kind']}#{ev['n']}", "fs-frame", z3.Or(goals + [z3.BoolVal(False)]),
                                c.extra.get("fs_props", c.props), note=f"line {ev['line']}")
                    if saved is None:
                        path.frames[0].pop("_path", None)
                    else:
                        path.frames[0]["_path"] = saved
                if inv:
                    p.ghost["crash_hook"](path, f"after-{ev['kind']}")
            p.ghost["effect_hook"] = effect_hook

    # -- discharging ----------------------------------------------------------------------------------
    def discharge(self, ob, use_cvc5=True):
        t0 = time.time()
        budget = 4.0 * self.timeout_ms / 1000.0          # total wall-clock budget for one obligation (all back ends together)

        def spent():
            return time.time() - t0 > budget
        s = z3.Solver()
        seqish = any(k in str(ob.goal) for k in ("Concat", "seq.", "rest(", "Length"))
        t_first = min(self.timeout_ms, 3000) if (seqish or ob.kind == "canary") else self.timeout_ms
        s.set("timeout", t_first)
        s.set("rlimit", t_first * RLIMIT_PER_MS)      # z3's wall-clock timeout is not honoured inside some sequence-solver loops
        if getattr(ob, "z3_seed", 0):
            s.set("random_seed", ob.z3_seed)
        for a in ob.pc:
            s.add(a)
        s.add(z3.Not(ob.goal))
        r = guarded_check(s, t_first)
        ob.backend = "z3"
        if ob.kind == "canary" and r == z3.unknown:
            ob.verdict = "unknown"           # a canary only has to be satisfiable somewhere; no portfolio for it
            ob.time = time.time() - t0
            return ob.verdict
        if r == z3.unsat:
            ob.verdict = "unsat"
        elif r == z3.sat:
            ob.verdict = "sat"
            try:
                ob.model = s.model()
            except z3.Z3Exception:
                ob.model = None
        else:
            ob.verdict = "unknown"
            # Relevance portfolio: any subset of the path condition that already yields unsat is a proof (fewer assumptions).
            # The sequence solvers are easily derailed by irrelevant facts (element-access side conditions, length
            # facts of zero blocks), so a few syntactic filters are tried before the other back ends.
            texts = [str(a) for a in ob.pc]
            cands = []
            for label, drop in (("-nth", ("seq.nth", "nth_i", "nth_u")), ("-zeros", ("zeros(",)), ("-nth-zeros", ("seq.nth", "nth_i", "nth_u", "zeros(")),
                                ("-nth-zeros-kind", ("seq.nth", "nth_i", "nth_u", "zeros(", "fs_kind"))):
                sub = [a for a, t in zip(ob.pc, texts) if not any(d in t for d in drop)]
                if len(sub) != len(ob.pc):
                    cands.append((sub, label))
            # cone-of-influence subsets: assertions reachable from the goal's symbols in k rounds, ignoring symbols that
            # occur almost everywhere (they connect everything with everything)
            cands.extend(self.coi_subsets(ob))
            solvers = []
            # pass 1: the in-process z3 on every subset (cheap); pass 2: the other back ends on the same subsets
            for sub, label in cands:
                if spent():
                    break
                s2 = z3.Solver()
                s2.set("timeout", max(2000, self.timeout_ms // 3))
                s2.set("rlimit", max(2000, self.timeout_ms // 3) * RLIMIT_PER_MS)
                for a in sub:
                    s2.add(a)
                s2.add(z3.Not(ob.goal))
                solvers.append((s2, label))
                if guarded_check(s2, max(2000, self.timeout_ms // 3)) == z3.unsat:
                    ob.verdict, ob.backend = "unsat", "z3" + label
                    break
            if ob.verdict == "unknown" and use_cvc5:
                for s2, label in solvers:
                    if spent():
                        break
                    for name, fn in (("z3-4.8.12", run_z3_old), ("cvc5", run_cvc5)):
                        if fn(s2, max(2000, self.timeout_ms // 3)) == "unsat":
                            ob.verdict, ob.backend = "unsat", name + label
                            break
                    if ob.verdict == "unsat":
                        break
            if ob.verdict == "unknown" and seqish and not spent():
                s.set("timeout", self.timeout_ms)
                s.set("rlimit", self.timeout_ms * RLIMIT_PER_MS)
                r2 = guarded_check(s, self.timeout_ms)
                if r2 == z3.unsat:
                    ob.verdict, ob.backend = "unsat", "z3"
                elif r2 == z3.sat:
                    ob.verdict, ob.backend = "sat", "z3"
                    try:
                        ob.model = s.model()
                    except z3.Z3Exception:
                        ob.model = None
            if use_cvc5 and ob.verdict == "unknown" and not spent():
                # other back ends on the same SMT-LIB text: the Debian z3 4.8.12 and cvc5 decide many sequence
                # obligations on which z3 5.1 gives up (and vice versa)
                for name, fn in (("z3-4.8.12", run_z3_old), ("cvc5", run_cvc5)):
                    v = fn(s, self.timeout_ms)
                    if v == "unsat":          # a refutation (sat) from a fallback is not trusted: no model to replay
                        ob.verdict, ob.backend = v, name
                        break
        ob.time = time.time() - t0
        return ob.verdict


def _symbols(e, acc, seen):
    if e.get_id() in seen:
        return
    seen.add(e.get_id())
    if z3.is_app(e):
        d = e.decl()
        if d.kind() == z3.Z3_OP_UNINTERPRETED:
            acc.add(d.name())
        for c in e.children():
            _symbols(c, acc, seen)


def _coi_subsets(ob):
    syms = []
    for a in ob.pc:
        acc = set()
        _symbols(a, acc, set())
        syms.append(acc)
    goal = set()
    _symbols(ob.goal, goal, set())
    n = len(ob.pc)
    freq = {}
    for acc in syms:
        for x in acc:
            freq[x] = freq.get(x, 0) + 1
    out = []
    for cutoff in (0.34, 0.6):
        common = {x for x, c in freq.items() if c > max(4, cutoff * n)} - goal
        work = set(goal)
        chosen = set()
        for rounds in (1, 2, 3):
            changed = True
            added = set()
            for i, acc in enumerate(syms):
                if i not in chosen and (acc - common) & work:
                    chosen.add(i)
                    added |= acc - common
            work |= added
            sub = [ob.pc[i] for i in sorted(chosen)]
            if 0 < len(sub) < n:
                out.append((sub, f"-coi{rounds}@{cutoff}"))
    return out


Engine.coi_subsets = staticmethod(_coi_subsets)


def run_z3_old(solver, timeout_ms):
    try:
        smt = solver.to_smt2()
    except z3.Z3Exception:
        return "unknown"
    fd, fn = tempfile.mkstemp(suffix=".smt2", prefix="pyvc_")
    try:
        with os.fdopen(fd, "w") as fh:
            fh.write(smt)
        pr = subprocess.run(["/usr/bin/z3", f"-T:{max(1, timeout_ms // 1000)}", fn], capture_output=True, text=True,
                            timeout=timeout_ms / 1000 + 5)
        out = pr.stdout.strip().splitlines()
        if out and out[0] in ("sat", "unsat"):
            return out[0]
        return "unknown"
    except (subprocess.TimeoutExpired, OSError):
        return "unknown"
    finally:
        try:
            os.unlink(fn)
        except OSError:
            pass


def run_cvc5(solver, timeout_ms):
    try:
        smt = "(set-logic ALL)\n" + solver.to_smt2()
    except z3.Z3Exception:
        return "unknown"
    fd, fn = tempfile.mkstemp(suffix=".smt2", prefix="pyvc_")
    try:
        with os.fdopen(fd, "w") as fh:
            fh.write(smt)
        pr = subprocess.run(["/usr/bin/cvc5", "--strings-exp", f"--tlimit={timeout_ms}", fn], capture_output=True,
                            text=True, timeout=timeout_ms / 1000 + 5)
        out = pr.stdout.strip().splitlines()
        if out and out[0] in ("sat", "unsat"):
            return out[0]
        return "unknown"
    except (subprocess.TimeoutExpired, OSError):
        return "unknown"
    finally:
        try:
            os.unlink(fn)
        except OSError:
            pass
