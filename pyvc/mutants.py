"""In-memory seeded mutants (DESIGN.md section 7-2): textual edits applied to the parsed source of the real
functions (nothing is written to disk).  Each must be refuted by some obligation; a mutant that verifies means
the contract is too weak or the engine unsound."""
import ast

from .source import ModuleInfo


def apply(repo, mutate):
    """mutate = (module name, old text, new text[, occurrence])"""
    modname, old, new = mutate[:3]
    m = repo.modules[modname]
    if m.text.count(old) < 1:
        raise ValueError(f"mutant does not apply: {old!r} not in {modname}")
    occ = mutate[3] if len(mutate) > 3 else 0
    idx = -1
    for _ in range(occ + 1):
        idx = m.text.index(old, idx + 1)
    text = m.text[:idx] + new + m.text[idx + len(old):]
    nm = ModuleInfo.__new__(ModuleInfo)
    nm.name, nm.path, nm.text = m.name, m.path, text
    nm.tree = ast.parse(text)
    nm.functions, nm.classes, nm.globals, nm.imports = {}, {}, {}, {}
    nm._scan()
    repo.modules[modname] = nm
