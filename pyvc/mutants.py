"""In-memory seeded mutants (DESIGN.md section 7-2): textual edits applied to the parsed source of the real
functions (nothing is written to disk).  Each must be refuted by some obligation; a mutant that verifies means
the contract is too weak or the engine unsound."""
import ast

from .source import ModuleInfo


def apply(repo, mutate):
    """mutate = (module name, old text, new text[, occurrence[, scope qualname]]): with a scope, the text is searched inside the
    source lines of that function only"""
    modname, old, new = mutate[:3]
    m = repo.modules[modname]
    occ = mutate[3] if len(mutate) > 3 and mutate[3] is not None else 0
    scope = mutate[4] if len(mutate) > 4 else None
    lo, hi = 0, len(m.text)
    if scope:
        fi = repo.find(scope)
        if fi is None:
            raise ValueError(f"mutant scope {scope} not found")
        lines = m.text.splitlines(keepends=True)
        lo = sum(len(x) for x in lines[:fi.node.lineno - 1])
        hi = sum(len(x) for x in lines[:fi.node.end_lineno])
    if m.text.count(old, lo, hi) < 1:
        raise ValueError(f"mutant does not apply: {old!r} not in {scope or modname}")
    idx = lo - 1
    for _ in range(occ + 1):
        idx = m.text.index(old, idx + 1, hi)
    text = m.text[:idx] + new + m.text[idx + len(old):]
    nm = ModuleInfo.__new__(ModuleInfo)
    nm.name, nm.path, nm.text = m.name, m.path, text
    nm.tree = ast.parse(text)
    nm.functions, nm.classes, nm.globals, nm.imports = {}, {}, {}, {}
    nm._scan()
    repo.modules[modname] = nm
