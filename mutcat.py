"""Catalogue of in-memory mutants of functions under contract (thorough tier, informational).

Each entry is a small textual change inside ONE function that breaks a clause of that function's contract.  The thorough tier applies
each to the parsed source in memory (nothing is written anywhere), re-verifies the function and reports whether some obligation is
refuted, left undecided, or whether the mutant *survives* (every obligation still discharged: the contract is too weak there, or the
engine is unsound).  The figures go into coverage.mutation_adequacy; they never change the exit code (a property holds or does not
hold on the tree as it is)."""
H, T, U, R, E = "torrentfile.hasher", "torrentfile.torrent", "torrentfile.utils", "torrentfile.recheck", "torrentfile.edit"
B = "torrentfile.rebuild"

CATALOGUE = [
    # (function, module, old, new, props)
    (f"{U}.next_power_2", U, "start <<= 1", "start <<= 2", ["C02", "C10"]),
    (f"{U}.normalize_piece_length", U, "piece_length & (piece_length - 1)", "piece_length & (piece_length - 2)", ["C12"]),
    (f"{U}.get_piece_length", U, "exp < 24", "exp < 25", ["C12"]),
    (f"{U}.Memo.__call__", U, "result = self.func(path)", "result = self.cache.get(path, self.func(path))", ["C09", "C01", "C15"]),
    (f"{H}.merkle_root", H, "sha256(x + y)", "sha256(y + x)", ["C02", "C10"]),
    (f"{H}.Hasher._handle_partial", H, "if not size:", "if True:", ["C01", "C15"]),
    (f"{H}.HasherV2._calculate_root", H, "for _ in range(remainder):", "for _ in range(remainder + 1):", ["C02", "C10"]),
    (f"{H}.HasherV2._calculate_root", H, "for _ in range(self.num_blocks)]", "for _ in range(1)]", ["C02", "C10"]),
    (f"{H}.HasherV2.process_file", H, "if not self.layer_hashes:", "if self.layer_hashes:", ["C02", "C10"]),
    (f"{H}.HasherV2.process_file", H, "sha256(leaf[:size])", "sha256(leaf)", ["C02", "C10"]),
    (f"{H}.HasherV2.process_file", H, "power2 = next_power_2(len(blocks))", "power2 = self.num_blocks", ["C02", "C10"]),
    (f"{H}.HasherHybrid.process_file", H, "if plength > 0 and self.pad:", "if plength > 0:", ["C03", "C10"]),
    (f"{H}.HasherHybrid.process_file", H, "piece.update(block[:size])", "piece.update(block)", ["C03", "C10"]),
    (f"{H}.HasherHybrid.process_file", H, '"length": plength,', '"length": plength + 1,', ["C03"]),
    (f"{H}.HasherHybrid._pad_remaining", H, "remaining = self.amount - block_count", "remaining = self.amount - block_count - 1", ["C02", "C10"]),
    (f"{H}.FileHasher._pad_remaining", H, "if not self.layer_hashes:", "if not self.pieces:", ["C02", "C10"]),
    (f"{H}.FileHasher.__next__", H, "if plength > 0 and self.pad:", "if plength > 0:", ["C03", "C10"]),
    (f"{H}.FileHasher._calculate_root", H, "remainder = pow2 - len(self.layer_hashes)", "remainder = pow2 - len(self.layer_hashes) + 1", ["C02"]),
    (f"{T}.TorrentFileV2._traverse", T, '"pieces root": fhash.root}}', '"pieces root": fhash.piece_layer}}', ["C02"]),
    (f"{T}.TorrentFileV2._traverse", T, "if size == 0:", "if size < 0:", ["C02"]),
    (f"{T}.TorrentFileHybrid._traverse", T, "if file_hash.padding_file:", "if not file_hash.padding_file:", ["C03"]),
    (f"{T}.TorrentAssembler._traverse", T, "if self.hybrid and hasher.padding_file:", "if hasher.padding_file:", ["C03"]),
    (f"{T}.TorrentAssembler._traverse", T, '"pieces root": hasher.root}}', '"pieces root": layers}}', ["C02"]),
    (f"{T}.TorrentFileV2.assemble", T, 'info["length"] = os.path.getsize(self.path)', 'info["length"] = 0', ["C02", "C10"]),
    (f"{T}.TorrentFileV2.assemble", T, 'self.meta["piece layers"] = self.piece_layers', 'self.meta["piece layers"] = {}', ["C02", "C10"]),
    (f"{T}.TorrentFileHybrid.assemble", T, 'info["pieces"] = b"".join(self.pieces)', 'info["pieces"] = b""', ["C03", "C10"]),
    (f"{T}.TorrentAssembler.assemble", T, "{self.name: self._traverse(self.path)}", '{"x": self._traverse(self.path)}', ["C02", "C10"]),
    (f"{T}.TorrentFileV2._traverse", T, "for name in sorted(os.listdir(path)):", "for name in os.listdir(path):", ["C02", "C06", "C10"]),
    (f"{T}.TorrentFileV2._traverse", T, "os.path.join(path, name))", "os.path.join(path, name, name))", ["C02", "C10"]),
    (f"{T}.TorrentFileHybrid._traverse", T, "for name in sorted(os.listdir(path)):", "for name in sorted(os.listdir(path))[1:]:", ["C02", "C03", "C10"]),
    (f"{T}.TorrentFileV2.assemble", T, 'info["file tree"] = self._traverse(self.path)', 'info["file tree"] = {}', ["C02", "C10"]),
    (f"{U}._filelist_total", U, "total += size", "total = size", ["C01", "C15"]),
    (f"{U}._filelist_total", U, "filelist.extend(paths)", "filelist = paths", ["C01", "C15", "C08"]),
    (f"{U}._filelist_total", U, "if path.is_dir():", "if False:", ["C01", "C15", "C08"]),
    (f"{R}.HashChecker.advance", R, "start = self.count * SHA256", "start = (self.count + 1) * SHA256", ["C04", "C16"]),
    (f"{R}.HashChecker.Padder.__next__", R, "self.length -= self.piece_length", "self.length -= self.piece_length - 1", ["C04", "C16"]),
    (f"{R}.HashChecker.next_file", R, "if self.length > self.piece_length:", "if self.length >= self.piece_length:", ["C04", "C05", "C16"]),
    (f"{R}.HashChecker.process_current", R, "self.hasher = self.Padder(self.length, self.piece_length)", "self.hasher = self.Padder(self.length + 1, self.piece_length)", ["C04", "C16"]),
    (f"{R}.HashChecker.__next__", R, "if not self.next_file():", "if self.next_file():", ["C04", "C16"]),
    (f"{R}.Checker.find_root", R, "if root.name == self.name and not (single and root.is_dir()):", "if root.name == self.name:", ["C05", "C16"]),
    (f"{R}.Checker.iter_hashes", R, "(matched / consumed) * 100 if consumed > 0 else 0", "(matched / consumed) * 100 if consumed > 0 else 100", ["C04", "C16"]),
    (f"{E}.filter_empty", E, 'if val == "":', "if not val:", ["C07"]),
    (f"{B}._checked", B, '".."', '"..."', ["C19"]),
]


def _one(entry):
    from pyvc.run import verify_functions
    func, mod, old, new, props = entry
    try:
        r = verify_functions([func], timeout_ms=10000, procs=1, mutate=(mod, old, new, None, func))[0]
    except Exception as e:      # noqa: BLE001
        return ("n/a", f"{func}: {old!r}: {type(e).__name__}: {e}"[:200])
    if r["status"] == "crash" and "mutant does not apply" in (r["reason"] or ""):
        return ("n/a", f"{func}: {old!r} (text no longer present)")
    bad = [o for o in r["obligations"] if o["kind"] not in ("canary",) and o["verdict"] != "unsat"]
    if any(o["verdict"] == "sat" for o in bad):
        return ("refuted", None)
    if bad or r["status"] != "ok":
        return ("undecided", None)
    return ("survived", f"{func}: {old!r} -> {new!r}")


def run(prop, timeout_ms=10000, workers=6):
    """apply every catalogue entry that serves `prop` (several at a time); returns {"entries": n, "refuted": .., "undecided": ..,
    "survived": [..], "not_applicable": [..]}"""
    from concurrent.futures import ThreadPoolExecutor
    entries = [e for e in CATALOGUE if prop in e[4]]
    out = {"entries": len(entries), "refuted": 0, "undecided": 0, "survived": [], "not_applicable": []}
    with ThreadPoolExecutor(max_workers=workers) as ex:
        for kind, text in ex.map(_one, entries):
            if kind == "refuted":
                out["refuted"] += 1
            elif kind == "undecided":
                out["undecided"] += 1
            elif kind == "survived":
                out["survived"].append(text)
            else:
                out["not_applicable"].append(text)
    return out


if __name__ == "__main__":
    import json
    import sys
    print(json.dumps(run(sys.argv[1]), indent=1))
