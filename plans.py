"""Per-property plans: which functions (beyond those whose contract names the property), lemmas, trusted base."""

TRUSTED_COMMON = [
    "pyvc itself (symbolic executor, builtin models); z3 / cvc5 kernels",
    "CPython semantics of the verified subset as encoded (DESIGN.md 3.3): unbounded ints, truthiness, slicing, // and % on negatives",
    "logger.* calls and progress-bar traffic are dropped by the extraction (assumed effect-free on results)",
    "termination is not proved except where a loop carries a `decreases` obligation",
]

PLAN = {
    "C12": {"functions": [], "harness": True,
            "level_text": "normalize_piece_length and get_piece_length are verified against the property statement for all integers / "
                          "abstract numeral strings, all iterations (loop invariant), from the current source; the CLI / config / "
                          "library routes that carry the argument to the normaliser are exercised by the bounded native harness only",
            "level_note": "float idiom size/2**exp read over exact rationals; is_pow2 exact up to 2^64; str.isnumeric / int() as abstract "
                          "predicates; argparse/configparser trusted; MetaFile.__init__ route bounded",
            "trusted": ["argparse / configparser deliver the piece-length string unchanged to MetaFile (assumed; exercised natively "
                        "by the bounded harness routes cli/config)"]},
}


def run_lemmas(prop, tier):
    return []
