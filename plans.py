"""Per-property plans: which functions (beyond those whose contract names the property), lemmas, trusted base."""

TRUSTED_COMMON = [
    "pyvc itself (symbolic executor, builtin models); z3 / cvc5 kernels",
    "CPython semantics of the verified subset as encoded (DESIGN.md 3.3): unbounded ints, truthiness, slicing, // and % on negatives",
    "logger.* calls and progress-bar traffic are dropped by the extraction (assumed effect-free on results)",
    "termination is not proved except where a loop carries a `decreases` obligation",
]

PLAN = {
    "C12": {"functions": [], "harness": True,
            "level_text": "normalize_piece_length and get_piece_length are verified against the property statement for all integers / "
                          "abstract numeral strings, all iterations (loop invariant), from the current source; the CLI / config / "
                          "library routes that carry the argument to the normaliser are exercised by the bounded native harness only",
            "level_note": "float idiom size/2**exp read over exact rationals; is_pow2 exact up to 2^64; str.isnumeric / int() as abstract "
                          "predicates; argparse/configparser trusted; MetaFile.__init__ route bounded",
            "trusted": ["argparse / configparser deliver the piece-length string unchanged to MetaFile (assumed; exercised natively "
                        "by the bounded harness routes cli/config)"]},
    "C07": {"functions": [], "harness": True,
            "level_text": "filter_empty (loop invariant over an arbitrary args dict, any key order), edit_torrent and commands.edit are "
                          "verified from source: the value handed to pyben.dump equals the loaded value on EVERY key of the top-level and "
                          "info views except the fields the request names, named fields get the written value, cleared fields vanish; "
                          "argparse -> Namespace is assumed and exercised by the bounded harness (library and CLI routes, sequences)",
            "level_note": "pyben load/dump are assumed contracts (bdecode/benc uninterpreted, file order = insertion order); metafiles whose "
                          "top-level and info key sets collide on the six editable names are outside the precondition; histories follow by "
                          "induction over single edits (last-write-wins is exercised natively, sequences of length <= 2)",
            "trusted": ["pyben.load / pyben.dump contracts (DESIGN 5.4)", "argparse: absent option = None, store_true default False"]},
    "C06": {"functions": [], "harness": True,
            "level_text": "sort_meta, MetaFile.write and edit_torrent are verified to hand pyben.dump a dictionary whose top-level, info and "
                          "piece-layers keys are in ascending order with unchanged mappings; nested file-tree order, integer/length "
                          "minimality and the per-version structure are decided by the bounded harness with a strict decoder",
            "level_note": "pyben emits dict items in insertion order with minimal integers (assumed, validated natively by strict decoding of "
                          "every written file in the bounded scope); python str order == UTF-8 byte order",
            "modulo_bounded": ["file tree key order (_traverse x3)", "per-version structure (assemble x4)"],
            "trusted": ["pyben.dump writes insertion order (DESIGN 5.4)"]},
    "C17": {"functions": [], "harness": True,
            "level_text": "crash invariant 'the metafile path holds the complete old or the complete edited file' is an obligation after every "
                          "file-system effect of edit_torrent (incl. partial writes) and on every exceptional exit, with a fault possible at "
                          "every external call; proved for all metafiles and requests",
            "level_note": "effect table of os / tempfile / shutil / pyben is assumed (DESIGN 5.1); os.replace is atomic; mkstemp returns a "
                          "path that did not exist; bounded harness injects the same faults into the real code",
            "trusted": ["os.replace atomicity", "tempfile.mkstemp freshness", "pyben.dump = encode, then write"]},
    "C20": {"functions": [], "harness": True,
            "level_text": "parse_config_file (loop invariant over an arbitrary [config] section, any key order), MetaFile.__init__ and "
                          "commands.create are verified from source: every documented configuration key lands in kwargs[dest of the "
                          "create flag --key] (dest table extracted from cli.py each run) and nothing else changes; MetaFile.__init__ "
                          "puts each keyword into its documented metafile field (exact key sets of info and of the top level); create "
                          "hands the creators vars(args) with the configuration applied and dispatches on the post-config version",
            "level_note": "argparse and configparser are assumed (exercised natively: 5 routes per option set must give identical "
                          "metafiles); path recovery from list-valued flags is bounded only",
            "modulo_bounded": ["cli.execute / argparse", "MetaFile.__init__ path recovery branch"],
            "trusted": ["argparse", "configparser"]},
    "C11": {"functions": [], "harness": True,
            "level_text": "commands.magnet is verified to return exactly 'magnet:?' + xt + '&dn=' + Q(name) + tr + ws with btih / btmh = hex "
                          "SHA-1 / SHA-256 of the encoding of the loaded info dictionary, selected by (v1 content, v2 content, requested "
                          "version) as the statement says, tr = flattened announce-list else announce, ws = url-list, every value through "
                          "quote_plus; get_magnet passes the requested version on",
            "level_note": "hash / quote_plus uninterpreted; benc(bdecode(file)['info']) == info span of the file is the assumed pyben round trip "
                          "(checked natively against the exact span incl. arbitrary key order); that a standard parser recovers dn/tr/ws from "
                          "the string is assumed (quote_plus alphabet) and checked natively with urllib.parse",
            "trusted": ["pyben round trip", "urllib.parse.quote_plus"]},
    "C18": {"functions": [], "harness": True,
            "level_text": "frames: every call site reachable from recheck / info / magnet / the command-line front end is classified from the "
                          "real call graph as effect-free (files are opened with literal read modes only); create reaches the file system "
                          "only through check_path_writable and MetaFile.write, whose effects are verified symbolically against their "
                          "frames (probe leaves no trace and never deletes an existing file; write touches self.outfile only); rename is "
                          "verified for all file-system states: refuses an existing target, moves the same bytes, changes nothing else",
            "level_note": "call-graph frame checker is syntactic (dynamic dispatch by method name, callbacks and progress bars assumed effect-free); "
                          "effect table of os / shutil / pyben assumed; POSIX rename semantics",
            "trusted": ["effect table of externals (DESIGN 5.1)", "observer callbacks effect-free"]},
    "C04": {"functions": [], "harness": True,
            "level_text": "arithmetic core proved for every sequence of (chunk, piece, path, size) tuples a piece checker yields: Checker.iter_hashes "
                          "reports matched/consumed*100, which is < 100 as soon as one tuple with size > 0 mismatches; Padder.__next__ / "
                          "HashChecker.advance (absent data = zero pieces of the right sizes); HashChecker.process_current (one tuple for the next "
                          "piece of the current file: recorded hash slice, path, size min(remaining, piece length)) and next_file (next listed "
                          "file, its length and recorded hashes, the right hasher object) and HashChecker.__next__ (per call the tuple returned is the "
                          "next unreported piece in (file, piece) order; only files with nothing to report are passed over; it stops only after "
                          "the last listed file); Checker.find_root.  For v1 (FeedChecker) that the checker yields exactly one tuple per "
                          "piece of the payload (coverage clause) is decided by the bounded harness (12.5k damage cases quick, 147k thorough) "
                          "against an independent reference recheck",
            "level_note": "coverage clause of FeedChecker / HashChecker bounded, not proved; SHA collision-freeness assumed; float percentage read over exact rationals",
            "modulo_bounded": ["FeedChecker.iter_pieces / extract / _gen_padding (v1)", "induction over the calls of HashChecker.__next__ (hand argument)", "Checker.check_paths / walk_file_tree"],
            "trusted": ["different bytes give different hashes (cryptographic assumption)", "float: 0 <= m < c < 2^52 => fl(fl(m/c)*100) < 100 (hand argument, DESIGN 3.3-2)"]},
    "C05": {"functions": [], "harness": True,
            "level_text": "arithmetic core proved (all pieces matching and consumed > 0 gives exactly 100); Checker.find_root proved (the payload "
                          "root is taken as it is, a parent directory resolves to the entry named like the torrent -- the two content-path "
                          "spellings reach the same root); the v2 piece iteration proved per call (HashChecker.*); check_paths / walk_file_tree "
                          "and the v1 coverage clause are decided by the bounded harness over torrentfile-written and "
                          "reference-encoded metafiles, content path = root and parent",
            "level_note": "as C04; one known finding (directory torrent whose parent directory has the payload's name)",
            "modulo_bounded": ["Checker.check_paths / walk_file_tree", "FeedChecker.*"],
            "trusted": ["pyben.load"]},
    "C16": {"functions": [], "harness": True,
            "level_text": "Checker.iter_hashes proved to report exactly 100 * (sum of sizes of matching tuples) / (sum of sizes); Padder / advance "
                          "sizes proved; that tuple i is exactly piece i of the payload (sizes, independence of verdicts) is decided by the "
                          "bounded harness against the reference piece-by-piece computation",
            "level_note": "as C04; one known finding (padding entries of BEP 47 v1 metafiles weighted as payload)",
            "modulo_bounded": ["FeedChecker.* (v1)", "induction over the calls of HashChecker.__next__"],
            "trusted": ["float percentage read over exact rationals"]},
    "C09": {"functions": [], "harness": True,
            "level_text": "Memo.__call__ (the only cache in the package) is proved to return the wrapped function evaluated now, with an arbitrary "
                          "(havocked) cache; other process-global state (class-level callbacks, Checker._hook, sys.stdout replacement, "
                          "TORRENTFILE_DEBUG) is exercised by the bounded harness: operation sequences in one process compared step by step "
                          "with a fresh interpreter",
            "level_note": "global havoc of the remaining module state is not generated mechanically (DESIGN 5.6 planned it); bounded sequences of length <= 4",
            "modulo_bounded": ["class-level callback slots", "module-level state other than Memo"],
            "trusted": ["observer callbacks have no effect on results"]},
    "C08": {"functions": [], "harness": True,
            "level_text": "MetaFile.__init__ proved: the info dictionary holds exactly name, piece length and the given info-level options (clause "
                          "quantified over every key), name = basename of the resolved path; trackers, seeds, outfile, progress, cwd, clock "
                          "reach top-level keys only.  Independence from enumeration order / spelling / location for files, pieces and file tree "
                          "is decided by the bounded harness (all permutations of listings up to 4 entries, 21 spellings, copies, clocks)",
            "level_note": "os.path.abspath / basename uninterpreted (two spellings of one path resolve equally: assumed, exercised natively); "
                          "sorted() in _filelist_total / _traverse bounded",
            "modulo_bounded": ["_filelist_total", "_traverse x3", "hashers"],
            "trusted": ["os.path semantics"]},
    "C01": {"functions": [], "harness": True,
            "level_text": "v1 hashing proved from source for all file lists, sizes and piece lengths: Hasher.__init__ / next_file / _handle_partial / "
                          "__next__ against a stream specification (each call returns SHA-1 of the next piece_length bytes of the concatenated "
                          "files, fewer only at the very end; StopIteration exactly when nothing is left), and TorrentFile.assemble through the "
                          "iterator protocol: info.pieces == v1_pieces(concatenation of the listed files, recorded piece length), every listed "
                          "file appears once in order with its exact length, single file records its exact length; the directory walk "
                          "utils._filelist_total proved for every finite directory tree (induction over the tree through the contract of its "
                          "recursive call): the list returned is exactly the set of regular files at or below the path, the total is the sum "
                          "of their sizes; Memo.__call__ returns the walk evaluated now",
            "level_note": "order and absence of duplicates in the list (sorted(); every entry once) are bounded; termination of the walk is "
                          "not proved (finite tree without symlink cycles assumed); file reads: readinto short only at EOF; SHA-1 "
                          "uninterpreted; L3 (unique prefix of given length): lemmas/Lemmas.lean L3_unique_prefix, compiled on every run; its application to the relational stream postconditions is a hand step",
            "modulo_bounded": ["order / uniqueness of the listing", "MetaFile.__init__ -> assemble wiring of piece_length (C12 contract)"],
            "trusted": ["io.BufferedReader.readinto on regular files", "no concurrent modification while hashing",
                        "L3: a stream has a unique prefix of a given length -- takes the relational stream postconditions to the slicing form of BEP 3; the application is a hand step"]},
    "C15": {"functions": [], "harness": True,
            "level_text": "proved from source: with alignment the pieces are v1_pieces of the declared stream in which every file is followed by zero "
                          "bytes up to the next piece boundary (Hasher align branch + assemble), each padding entry's length is the gap "
                          "(-size mod piece length), the listed lengths sum to exactly the hashed bytes, a single file is hashed alone",
            "level_note": "gap(n, pl) axiomatised by its defining equation (-n) mod pl and the three lemma instances used; padding entry marking (attr 'p', "
                          "path) bounded by the harness",
            "modulo_bounded": ["order / uniqueness of the listing"],
            "trusted": ["as C01", "L3: a stream has a unique prefix of a given length (hand application, as C01)"]},
    "C02": {"functions": [], "harness": True,
            "level_text": "proved from source, for every finite directory tree, file size and piece length: next_power_2, merkle_root (= BEP 52 "
                          "layer-wise root, pairing idiom); the three v2 hashers (FileHasher.__next__/_pad_remaining/_calculate_root per call; "
                          "HasherV2.process_file and HasherHybrid.process_file over the whole file with nested loop invariants): the piece layer "
                          "is the concatenation of piece_roots(content) -- per piece the merkle root of the SHA-256 leaves of exactly that "
                          "piece's bytes padded with zero hashes per BEP 52 -- and the pieces root is the merkle root over the piece layer padded "
                          "with zero-piece roots to the next power of two; the WHOLE WALK TorrentFileV2._traverse / TorrentFileHybrid._traverse "
                          "(induction over the directory tree through the contract at the recursive call): the value returned is tree_of(path) "
                          "-- leaf {'': {length[, pieces root]}} for a file, no root for an empty file, for a directory the dictionary over its "
                          "ascending listing of the trees of its entries -- and piece layers gets a key exactly for the files larger than one "
                          "piece; the same WHOLE WALK for TorrentAssembler._traverse (the creator behind the command line), whose per-file "
                          "FileHasher iteration is followed piece by piece (layer hashes == piece roots of the bytes consumed so far; at the end "
                          "the root is over the padded piece layer of the whole file); assemble of all three creators for single files and "
                          "directories (file tree, length, meta version, piece layers keys).  The values stored under the layer keys of a "
                          "directory torrent are decided by the bounded harness against an independent BEP 52 reference",
            "level_note": "L2 (layer-wise root of padded piece roots == root over all padded leaves) is lemmas/Lemmas.lean root_decompose, compiled on every run but applied by hand, not by the "
                          "check; piece_roots / leaves / tree_of / layered_under are spec functions defined by ground unfolding instances of "
                          "their recursive definitions; termination of the walk is not proved",
            "modulo_bounded": ["piece-layer values (not keys) of directory torrents"],
            "trusted": ["SHA-256 uninterpreted", "L2 merkle decomposition (Lean, DESIGN appendix A)",
                        "L4: two powers of two in [n, 2n) are equal (uniqueness of the BEP 52 padding count and of the padded piece layer)",
                        "readinto returns fewer bytes than asked only at end of file", "no concurrent modification while hashing",
                        "os.listdir: a name is listed iff join(dir, name) exists; sorted(os.listdir(d)) is a function of d; finite tree"]},
    "C10": {"functions": [], "harness": True,
            "level_text": "the three v2-capable hashers are each proved against the same spec functions (piece_roots, hybrid_pieces, mroot over the "
                          "padded piece layer), so for one file they agree on root, piece layer, v1 pieces and padding entry; same for the leaf "
                          "case of the three _traverse functions; TorrentFileV2, TorrentFileHybrid and TorrentAssembler are each proved to produce "
                          "the same file tree tree_of(path) and the same piece-layer keys for every directory tree.  Agreement of the v1 views "
                          "and of the piece-layer values of directories is decided by the bounded harness (pairwise comparison)",
            "level_note": "agreement follows from equal postconditions per file; whole-torrent agreement bounded",
            "modulo_bounded": ["v1 view of hybrid directories", "TorrentFile (v1) vs hybrid v1 view", "piece-layer values of directory torrents"],
            "trusted": ["as C02"]},
    "C14": {"functions": [], "harness": True,
            "level_text": "frame: every call site reachable from commands.rebuild is classified from the real call graph; the file system is reached "
                          "only through utils.copypath, which is proved for all file-system states: it never touches the source, never touches a "
                          "destination that already has at least the source's length, creates only absent directories, and what it writes at "
                          "dest is a byte-identical copy of the source.  That copies are attempted only after the hash matched, with the recorded "
                          "name / size and at the assigned path, is decided by the bounded harness (decoys, pre-populated destinations, repeats)",
            "level_note": "Path(dest).parts uninterpreted with the listed assumption that proper prefixes differ from dest; call-site clauses in "
                          "_find_matches / _match_v2 bounded",
            "modulo_bounded": ["PieceNode._find_matches", "Metadata._match_v1 / _match_v2", "Assembler.*"],
            "trusted": ["os.mkdir creates only absent directories", "shutil.copy writes its destination only"]},
    "C03": {"functions": [], "harness": True,
            "level_text": "both hybrid hashers proved from source (FileHasher.__next__ per call, HasherHybrid.process_file over the whole file): the "
                          "v1 pieces of a file are SHA-1 of each successive piece of exactly its bytes, the short last piece followed by zero "
                          "bytes up to the piece length only when padding is declared (pad); a padding entry (attr 'p') exists exactly when "
                          "padding is declared and the last piece is short, with length piece_length - size mod piece_length; leaf case of "
                          "TorrentFileHybrid._traverse / TorrentAssembler._traverse: the v1 list gets the file (exact length, relative path) then "
                          "its padding entry, the v1 pieces are appended.  The order across files in the directory walk and assemble are decided "
                          "by the bounded harness against the reference",
            "level_note": "directory branch of _traverse and assemble bounded",
            "modulo_bounded": ["order of the v1 list / pieces across the files of a directory"],
            "trusted": ["SHA-1 / SHA-256 uninterpreted", "readinto short only at EOF"]},
    "C13": {"functions": [], "harness": True,
            "level_text": "utils.copypath proved (what it writes at dest is a byte-identical copy of the source; parents are created; nothing else "
                          "changes); Metadata._map_pieces proved (every file is assigned the piece range of its byte range in the stream); the "
                          "rest of the matching logic (Metadata.extract / _find_matches / _match_v1 / _match_v2, Assembler) is "
                          "decided by the bounded harness: scattered intact copies with decoys, all three versions, batches, verified with the "
                          "reference recheck (770 cases quick, 31.6k thorough)",
            "level_note": "only the copy primitive is proved; completeness of rebuild is bounded.  Known findings: trailing empty files and BEP 47 "
                          "padded v1 metafiles",
            "modulo_bounded": ["PieceNode._find_matches", "Metadata._match_v1/_match_v2", "Assembler.*", "_index_contents"],
            "trusted": ["shutil.copy / os.mkdir effect table"]},
    "C19": {"functions": [], "harness": True,
            "level_text": "frame: rebuild reaches the file system only through utils.copypath (call-graph frame checker), whose effects are proved to "
                          "be confined to dest (a copy) and to newly created directories; that every dest handed to copypath lies below the "
                          "destination: rebuild._checked is proved to return only components without separators, '.', '..', empty elements, "
                          "drives or roots (or to raise); that every recorded name / path element passes through it before being joined is "
                          "decided by the bounded harness with hostile metafiles (783 cases quick) in a sandbox",
            "level_note": "containment of os.path.join(dest, full) given sanitised components is not derived symbolically (component path model of "
                          "DESIGN 5.5-ii not built); bounded",
            "modulo_bounded": ["Metadata.extract / _parse_tree (that they call _checked)", "call sites of copypath"],
            "trusted": ["os.path.join / Path.parts semantics"]},
}


CMD_STOPS = ["torrentfile.commands.create", "torrentfile.commands.edit", "torrentfile.commands.rebuild", "torrentfile.commands.rename",
             "torrentfile.commands.info", "torrentfile.commands.recheck", "torrentfile.commands.get_magnet",
             "torrentfile.interactive.select_action"]
FRAMES = {
    "C18": [
        {"name": "recheck is read-only", "roots": ["torrentfile.commands.recheck"], "stops": []},
        {"name": "info is read-only", "roots": ["torrentfile.commands.info"], "stops": []},
        {"name": "magnet is read-only", "roots": ["torrentfile.commands.get_magnet", "torrentfile.commands.magnet"], "stops": []},
        {"name": "create writes through check_path_writable / MetaFile.write only", "roots": ["torrentfile.commands.create"],
         "stops": ["torrentfile.utils.check_path_writable", "torrentfile.torrent.MetaFile.write"]},
        {"name": "command-line front end (all spellings: -q, -v, aliases) adds no file-system effect before dispatch",
         "roots": ["torrentfile.cli.execute", "torrentfile.cli.main"], "stops": CMD_STOPS},
    ],
    "C14": [
        {"name": "rebuild touches the file system through copypath only", "roots": ["torrentfile.commands.rebuild"],
         "stops": ["torrentfile.utils.copypath"]},
    ],
}
FRAMES["C19"] = FRAMES["C14"]


def run_lemmas(prop, tier):
    """code-independent lemmas and call-graph frame obligations of a property"""
    out = []
    if prop in FRAMES:
        from pyvc.source import Repo
        from pyvc import frames
        repo = Repo()
        for fr in FRAMES[prop]:
            obs, assumptions, visited = frames.check_frame(repo, fr["roots"], fr["stops"])
            for o in obs:
                o["name"] = f"[{fr['name']}] {o['name']}"
                o["assumptions"] = assumptions
                o["functions"] = visited
            out.extend(obs)
    return out
