-- L2: merkle layer-wise reduction decomposes over aligned chunks (core Lean only)
variable {α : Type} (h : α → α → α)

def pairUp : List α → List α
  | a :: b :: t => h a b :: pairUp t
  | _ => []

def reduce : Nat → List α → List α
  | 0, l => l
  | k+1, l => reduce k (pairUp h l)

theorem pairUp_length_even : ∀ (n : Nat) (l : List α), l.length = 2*n → (pairUp h l).length = n
  | 0, [], _ => rfl
  | 0, _ :: _, hl => by simp at hl
  | n+1, [], hl => by simp at hl
  | n+1, [_], hl => by simp at hl; omega
  | n+1, a :: b :: t, hl => by
      simp [pairUp]
      exact pairUp_length_even n t (by simp at hl; omega)

theorem pairUp_append : ∀ (n : Nat) (x y : List α), x.length = 2*n → pairUp h (x ++ y) = pairUp h x ++ pairUp h y
  | 0, [], y, _ => by simp [pairUp]
  | 0, _ :: _, _, hl => by simp at hl
  | n+1, [], _, hl => by simp at hl
  | n+1, [_], _, hl => by simp at hl; omega
  | n+1, a :: b :: t, y, hl => by
      simp [pairUp]
      exact pairUp_append n t y (by simp at hl; omega)

theorem reduce_add (a b : Nat) (l : List α) : reduce h (a+b) l = reduce h b (reduce h a l) := by
  induction a generalizing l with
  | zero => simp [reduce]
  | succ a ih =>
      have : a + 1 + b = (a + b) + 1 := by omega
      rw [this]; simp [reduce]; exact ih _

theorem reduce_length (a : Nat) : ∀ (m : Nat) (l : List α), l.length = 2^a * m → (reduce h a l).length = m := by
  induction a with
  | zero => intro m l hl; simp [reduce] ; simpa using hl
  | succ a ih =>
      intro m l hl
      simp [reduce]
      apply ih
      apply pairUp_length_even
      rw [hl, Nat.pow_succ]; 
      rw [Nat.mul_assoc, Nat.mul_comm (2^a) (2*m), Nat.mul_assoc, Nat.mul_comm m]

theorem reduce_append (a : Nat) : ∀ (m : Nat) (x y : List α), x.length = 2^a * m →
    reduce h a (x ++ y) = reduce h a x ++ reduce h a y := by
  induction a with
  | zero => intro m x y _; simp [reduce]
  | succ a ih =>
      intro m x y hl
      simp [reduce]
      have hx : x.length = 2 * (2^a * m) := by
        rw [hl, Nat.pow_succ, Nat.mul_assoc, Nat.mul_comm (2^a) (2*m), Nat.mul_assoc, Nat.mul_comm m]
      rw [pairUp_append h (2^a*m) x y hx]
      exact ih m _ _ (pairUp_length_even h _ x hx)

theorem reduce_nil (a : Nat) : reduce h a ([] : List α) = [] := by
  induction a with
  | zero => simp [reduce]
  | succ a ih => simp [reduce, pairUp]; exact ih

/-- decomposition: reducing a concatenation of 2^a-sized chunks by a levels gives the list of chunk roots -/
theorem reduce_flatten (a : Nat) : ∀ (cs : List (List α)), (∀ c ∈ cs, c.length = 2^a) →
    reduce h a cs.flatten = (cs.map (fun c => reduce h a c)).flatten
  | [], _ => by
      simp [reduce_nil]
  | c :: cs, hc => by
      simp
      have h1 : c.length = 2^a * 1 := by simpa using hc c (by simp)
      rw [reduce_append h a 1 c _ h1]
      rw [reduce_flatten a cs (fun c' hc' => hc c' (by simp [hc']))]

/-- the root (single element) of a 2^(a+b) list is the root of the list of its 2^a-chunk roots -/
theorem root_decompose (a b : Nat) (cs : List (List α)) (hc : ∀ c ∈ cs, c.length = 2^a) :
    reduce h (a+b) cs.flatten = reduce h b ((cs.map (fun c => reduce h a c)).flatten) := by
  rw [reduce_add, reduce_flatten h a cs hc]
#print axioms root_decompose

-- L3: a stream has a unique prefix of a given length (core: List.append_inj)
theorem L3_unique_prefix {β : Type} (a b c d : List β) (hcat : a ++ b = c ++ d) (hlen : a.length = c.length) :
    a = c ∧ b = d := List.append_inj hcat hlen

-- L4: two powers of two in [n, 2n) are equal
theorem L4_pow2_unique (n a b : Nat) (ha1 : n ≤ 2^a) (ha2 : 2^a < 2*n) (hb1 : n ≤ 2^b) (hb2 : 2^b < 2*n) : a = b := by
  have key : ∀ (x y : Nat), n ≤ 2^x → 2^y < 2*n → ¬ (x < y) := by
    intro x y hx hy hlt
    have h1 : 2^(x+1) ≤ 2^y := Nat.pow_le_pow_right (by decide) hlt
    rw [Nat.pow_succ] at h1
    omega
  have h1 := key a b ha1 hb2
  have h2 := key b a hb1 ha2
  omega

-- mod_witness: quotient–remainder uniqueness (the ground schema `x == q*m + r ∧ 0 ≤ r < m → x % m == r ∧ x // m == q`)
theorem mod_witness (x q m r : Nat) (hx : x = q*m + r) (hr : r < m) : x % m = r ∧ x / m = q := by
  subst hx
  have hm : 0 < m := by omega
  constructor
  · rw [Nat.mul_comm, Nat.mul_add_mod]; exact Nat.mod_eq_of_lt hr
  · rw [Nat.mul_comm, Nat.mul_add_div hm, Nat.div_eq_of_lt hr]; rfl

-- mod_step: (x + m) % m == x % m
theorem mod_step (x m : Nat) : (x + m) % m = x % m := Nat.add_mod_right x m

-- is_pow2 facts: 2^14 | 2^b for b ≥ 14; halving / doubling
theorem pow2_dvd (b : Nat) (hb : 14 ≤ b) : 2^14 ∣ 2^b := Nat.pow_dvd_pow 2 hb
theorem pow2_double (b : Nat) : 2^(b+1) = 2 * 2^b := by rw [Nat.pow_succ, Nat.mul_comm]

-- L1: x & (x-1) == 0 iff x is a power of two (x > 0)
theorem L1_pow2_bit (x : Nat) (hx : x ≠ 0) : x &&& (x - 1) = 0 ↔ x.isPowerOfTwo :=
  Nat.and_sub_one_eq_zero_iff_isPowerOfTwo hx

#print axioms L3_unique_prefix
#print axioms L4_pow2_unique
#print axioms mod_witness
#print axioms L1_pow2_bit
