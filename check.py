#!/usr/bin/env python3-vt
"""check.py <Cxx> [--tier quick|thorough]   |   check.py --replay <file>

Decides one property: (1) generates verification conditions from /repo's *current* source for every function the
property's contracts name and discharges them (z3, cvc5 on unknowns); (2) runs the property's bounded native harness
(level-B stand-in and replay finder); (3) replays counter-models on the real code; (4) writes evidence/<id>.json.

Exit 0 held | 1 violation (VIOLATION property=<id> replay=<path>) | 2 checker fault.  unknown / timeout /
unsupported construct / traceback are never mapped to 1.
"""
import argparse
import json
import os
import subprocess
import sys
import time

VERIF = os.path.dirname(os.path.abspath(__file__))
sys.path.insert(0, VERIF)
NATIVE_PY = "/venv/bin/python"


def load_known():
    p = os.path.join(VERIF, "known_findings.json")
    if not os.path.exists(p):
        return {"findings": [], "fixed": []}
    return json.load(open(p))


def run_native(args, timeout):
    env = dict(os.environ)
    env["PYTHONPATH"] = VERIF
    env.setdefault("TORRENTFILE_DEBUG", "OFF")
    try:
        pr = subprocess.run([NATIVE_PY, os.path.join(VERIF, "native", "runner.py")] + args, capture_output=True, text=True,
                            timeout=timeout, env=env, cwd=VERIF)
    except subprocess.TimeoutExpired:
        return {"ok": False, "error": f"native runner timed out after {timeout}s"}
    try:
        return json.loads(pr.stdout.strip().splitlines()[-1])
    except (ValueError, IndexError):
        return {"ok": False, "error": "native runner produced no JSON", "stdout": pr.stdout[-2000:], "stderr": pr.stderr[-2000:]}


def candidates_from_model(target, model, contract):
    """concrete candidate inputs for a pure function from a solver model: the model value and its neighbourhood"""
    params = dict(contract.params)
    names = [k for k in params if not k.startswith("_")]
    base = {}
    for nme in names:
        if nme in model:
            base[nme] = model[nme]
    if len(base) != len(names):
        return []
    cands = [dict(base)]
    for nme, v in base.items():
        if isinstance(v, int) and not isinstance(v, bool):
            near = set()
            for d in (-2, -1, 1, 2):
                near.add(v + d)
            b = max(v, 1).bit_length()
            for k in (b - 1, b, b + 1):
                if k >= 0:
                    near.update([2 ** k - 1, 2 ** k, 2 ** k + 1])
            near.update(range(0, 70))
            near.update(2 ** k for k in range(0, 70))
            near.update(2 ** k + 1 for k in range(0, 70))
            near.update(1000 * 2 ** k + d for k in range(13, 26) for d in (-1, 0, 1))
            for x in sorted(near):
                c = dict(base)
                c[nme] = x
                cands.append(c)
        elif isinstance(v, str):
            for x in ["½", "²", "١٦٣٨٤", "", "-5", " 16", "hello", "16", "16384", "30", "8192", "16385"]:
                c = dict(base)
                c[nme] = x
                cands.append(c)
    return cands


# ---- Lean: the lemma schemas whose ground instances the engine states are compiled on every run ---------------------
LEAN_LEMMAS = {   # marker found in an assumption line -> theorem(s) of lemmas/Lemmas.lean that state the schema
    "L1": ["L1_pow2_bit"], "L2": ["root_decompose", "reduce_flatten"], "L3": ["L3_unique_prefix"], "L4": ["L4_pow2_unique"],
    "mod_witness": ["mod_witness"], "mod_step": ["mod_step"], "is_pow2": ["pow2_dvd", "pow2_double"],
}


def compile_lean_lemmas():
    """Compile lemmas/Lemmas.lean (core Lean only).  Never changes a verdict: when lean is missing or the file does not
    compile the schemas simply stay unchecked assumptions, and the evidence says so."""
    import re, shutil
    f = os.path.join(VERIF, "lemmas", "Lemmas.lean")
    res = {"file": "lemmas/Lemmas.lean", "ok": False}
    exe = shutil.which("lean")
    if not exe or not os.path.exists(f):
        res["reason"] = "lean or the lemma file not found"
        return res
    t = time.time()
    try:
        pr = subprocess.run([exe, f], capture_output=True, text=True, timeout=300)
    except Exception as e:      # noqa: BLE001
        res["reason"] = f"{type(e).__name__}: {e}"[:200]
        return res
    out = pr.stdout + pr.stderr
    res["wall_s"] = round(time.time() - t, 2)
    src = open(f).read()
    if pr.returncode != 0 or "error" in out or "sorry" in out or "sorry" in src or re.search(r"^\s*axiom\b", src, re.M):
        res["reason"] = "lean did not accept the file: " + out[:300]
        return res
    res["ok"] = True
    res["theorems"] = re.findall(r"^theorem\s+(\w+)", src, re.M)
    res["axioms_reported"] = [l.strip() for l in out.splitlines() if "depends on axioms" in l]
    res["checker"] = "lean 4.33.0, core library only (no Mathlib), no sorry, no axiom declarations"
    return res


def relabel_with_lean(lines, lean):
    out = []
    for l in lines:
        hit = [m for m in LEAN_LEMMAS if (m + ":" in l or m + " " in l or m + ")" in l or l.startswith(m)) and
               all(t in lean.get("theorems", []) for t in LEAN_LEMMAS[m])]
        if lean.get("ok") and hit:
            ths = ", ".join(t for m in hit for t in LEAN_LEMMAS[m])
            l += (f" [schema machine-checked on this run: lemmas/Lemmas.lean theorem {ths}; still assumed: that the ground "
                  "instances the engine states are instances of that schema, and its transfer from Nat / List to the SMT sorts]")
        out.append(l)
    return out



def main():
    ap = argparse.ArgumentParser()
    ap.add_argument("prop", nargs="?")
    ap.add_argument("--tier", default=os.environ.get("VERIF_TIER", "quick"))
    ap.add_argument("--replay")
    ap.add_argument("--no-native", action="store_true")
    ap.add_argument("-v", "--verbose", action="store_true")
    a = ap.parse_args()
    if a.replay:
        return do_replay(a.replay)
    if not a.prop:
        ap.error("property id required")
    try:
        return check_property(a.prop, a.tier, a)
    except SystemExit:
        raise
    except BaseException as e:      # noqa: BLE001
        import traceback
        traceback.print_exc()
        print(f"CHECKER-FAULT property={a.prop} {type(e).__name__}: {e}")
        return 2


def do_replay(path):
    rec = json.load(open(path))
    print(json.dumps({k: rec[k] for k in rec if k not in ("solver_output",)}, indent=1, default=str)[:3000])
    if rec.get("native_case"):
        tmp = path + ".case.tmp"
        json.dump(rec["native_case"], open(tmp, "w"))
        try:
            out = run_native(["replay", "--input", tmp], 600)
        finally:
            os.unlink(tmp)
        print("native replay:", json.dumps(out, indent=1, default=str)[:3000])
        return 1 if out.get("reproduced") else 0
    if rec.get("pure_input") is not None:
        tmp = path + ".case.tmp"
        json.dump({"candidates": [rec["pure_input"]]}, open(tmp, "w"))
        try:
            out = run_native(["replay-pure", "--target", rec["function"], "--input", tmp], 600)
        finally:
            os.unlink(tmp)
        print("native replay:", json.dumps(out, indent=1, default=str)[:3000])
        return 1 if out.get("failures") else 0
    print("no concrete input recorded for this obligation (no-failing-input-found); solver output is in the file")
    return 0


def check_property(prop, tier, a):
    t0 = time.time()
    seed = int(os.environ.get("VERIF_SEED", "0"))
    from pyvc.run import build_registry, verify_functions
    import plans
    reg = build_registry()
    plan = plans.PLAN.get(prop)
    if plan is None:
        print(f"property {prop} has no plan (not claimed)")
        return 2
    funcs = [q for q, c in reg.contracts.items() if prop in c.props and not c.extra.get("spec_only")]
    funcs += [f for f in plan.get("functions", []) if f not in funcs]
    timeout_ms = 10000 if tier == "quick" else 60000
    if tier != "quick":
        os.environ.setdefault("PYVC_JOB_DEADLINE_S", "2400")     # per-function process deadline (quick: 600 s)
        os.environ.setdefault("PYVC_FUNC_BUDGET_S", "900")
    shards = {q: reg.contracts[q].extra.get("shards", 1) for q in funcs if q in reg.contracts}
    results = verify_functions(funcs, timeout_ms=timeout_ms, use_cvc5=True, shards=shards)
    lemma_results = plans.run_lemmas(prop, tier) if hasattr(plans, "run_lemmas") else []

    known = load_known()
    kf = [f for f in known.get("findings", []) if f["property"] == prop]
    kf_classes = {f["class"] for f in kf if f.get("class")}
    kf_prefixes = [f["class_prefix"] for f in kf if f.get("class_prefix")]
    kf_oblig = {o for f in kf for o in f.get("obligations", [])}

    obligations = discharged = 0
    refuted, undecided, vacuous = [], [], []
    fn_levels = {}
    by_backend = {}
    solver_time = 0.0
    assumptions = set()
    canaries = canaries_ok = 0
    samples = []
    for r in results:
        fn = r["func"]
        for s in r["assumptions"]:
            assumptions.add(s)
        if r["status"] != "ok":
            fn_levels[fn] = f"undecided ({r['status']}: {str(r['reason'])[:160]})"
            continue
        lvl = "P"
        fn_canaries = [ob for ob in r["obligations"] if ob["kind"] == "canary"]
        if fn_canaries and not any(ob["verdict"] == "sat" for ob in fn_canaries):
            # no path that reaches a postcondition is satisfiable: the contract is vacuous (checker fault).  A single
            # contradictory path is harmless (feasibility checks are time-limited, so a few infeasible paths are explored).
            vacuous.append((fn, fn_canaries[0]))
        for ob in r["obligations"]:
            solver_time += ob["time"]
            if ob["kind"] == "canary":
                canaries += 1
                if ob["verdict"] == "sat":
                    canaries_ok += 1
                continue
            if ob["kind"] == "vacuity":
                vacuous.append((fn, ob))
                continue
            relevant = (not ob["props"]) or prop in ob["props"]
            if not relevant:
                continue
            obligations += 1
            by_backend[ob["backend"]] = by_backend.get(ob["backend"], 0) + 1
            key = f"{fn}:{ob['kind']}:{ob['name']}"
            if ob["verdict"] == "unsat":
                discharged += 1
                if len(samples) < 4:
                    samples.append({"obligation": key, "path": ob["path"], "goal": ob["goal"], "verdict": "discharged",
                                    "backend": ob["backend"], "time_s": ob["time"]})
            elif ob["verdict"] == "sat":
                refuted.append((fn, ob, key))
                lvl = "refuted"
            else:
                undecided.append((fn, ob, key))
                if lvl == "P":
                    lvl = "undecided (solver unknown)"
        fn_levels[fn] = lvl
    for lr in lemma_results:
        for s_ in lr.get("assumptions", []):
            assumptions.add(s_)
        for f_ in lr.get("functions", []):
            fn_levels.setdefault(f_, "frame-checked (call graph)")
        obligations += 1
        by_backend[lr["backend"]] = by_backend.get(lr["backend"], 0) + 1
        solver_time += lr["time"]
        if lr["verdict"] == "unsat":
            discharged += 1
        elif lr["verdict"] == "sat":
            refuted.append(("lemma", {"name": lr["name"], "kind": "lemma", "model": lr.get("model"), "path": "", "goal": lr["name"],
                                      "note": None, "time": lr["time"], "backend": lr["backend"], "props": [prop]}, f"lemma:{lr['name']}"))
        else:
            undecided.append(("lemma", lr, f"lemma:{lr['name']}"))

    # ---- checker faults -------------------------------------------------------------------------
    crashed = [r for r in results if r["status"] == "crash"]
    if crashed:
        for r in crashed:
            print(f"CHECKER-FAULT property={prop} engine crash in {r['func']}: {r['reason'][:600]}")
        return 2
    if vacuous:
        for fn, ob in vacuous:
            print(f"CHECKER-FAULT property={prop} vacuous path/precondition in {fn} ({ob['name']}, path {ob['path']})")
        return 2

    # ---- native bounded harness --------------------------------------------------------------------
    native = {"cases": 0, "distinct_nontrivial": 0, "failures": [], "rule": "", "bound": "", "samples": []}
    hints = {"ints": [], "strs": []}
    for fn, ob, key in refuted:
        for v in (ob.get("model") or {}).values():
            if isinstance(v, int) and not isinstance(v, bool):
                hints["ints"].append(v)
            elif isinstance(v, str):
                hints["strs"].append(v)
    if not a.no_native and plan.get("harness", True):
        os.makedirs(os.path.join(VERIF, "replays", prop), exist_ok=True)
        hp = os.path.join(VERIF, "replays", prop, "hints.tmp.json")
        json.dump(hints, open(hp, "w"))
        try:
            native = run_native(["bounded", "--prop", prop, "--tier", tier, "--seed", str(seed), "--input", hp],
                                900 if tier == "quick" else 7200)
        finally:
            os.unlink(hp)
        if not native.get("ok", False):
            print(f"CHECKER-FAULT property={prop} native harness failed: {native.get('error')}\n{native.get('traceback', '')}")
            return 2

    # ---- violations ----------------------------------------------------------------------------------
    violations = []
    known_lines = []
    rdir = os.path.join(VERIF, "replays", prop)
    os.makedirs(rdir, exist_ok=True)
    for old in os.listdir(rdir):
        if old.endswith(".json"):
            os.unlink(os.path.join(rdir, old))
    n = 0
    native_fail_classes = {}
    for f in native.get("failures", []):
        native_fail_classes.setdefault(f["class"], []).append(f)
    for cls, fl in sorted(native_fail_classes.items()):
        if cls in kf_classes or any(cls.startswith(px) for px in kf_prefixes):
            known_lines.append(f"KNOWN-FINDING: property={prop} {cls}: {fl[0]['observed'][:160]} ({len(fl)} case(s))")
            continue
        n += 1
        path = os.path.join(rdir, f"native_{n}.json")
        json.dump({"property": prop, "kind": "native-bounded", "class": cls, "native_case": fl[0], "cases_in_class": len(fl),
                   "observed": fl[0]["observed"], "expected": fl[0]["expected"],
                   "rerun": f"python3-vt check.py --replay {path}"}, open(path, "w"), indent=1, default=str)
        violations.append((path, False, f"native harness: {cls}: {fl[0]['observed'][:200]}"))
    seen_keys = set()
    for fn, ob, key in refuted:
        if key in seen_keys:
            continue
        seen_keys.add(key)
        if key in kf_oblig:
            known_lines.append(f"KNOWN-FINDING: property={prop} obligation {key} refuted (listed)")
            continue
        n += 1
        path = os.path.join(rdir, f"obligation_{n}.json")
        rec = {"property": prop, "kind": "refuted-obligation", "obligation": key, "function": fn, "path_decisions": ob["path"],
               "goal": ob["goal"], "note": ob.get("note"), "solver_model": ob.get("model"), "backend": ob.get("backend"),
               "rerun": f"python3-vt check.py --replay {path}"}
        found = False
        c = reg.contracts.get(fn)
        if c is not None and c.extra.get("replay") == "pure" and ob.get("model"):
            cands = candidates_from_model(fn, ob["model"], c)
            if cands:
                tmp = path + ".cands.tmp"
                json.dump({"candidates": cands}, open(tmp, "w"))
                try:
                    out = run_native(["replay-pure", "--target", fn, "--input", tmp], 300)
                finally:
                    os.unlink(tmp)
                fails = out.get("failures") or []
                if fails:
                    found = True
                    rec["pure_input"] = fails[0]["input"]
                    rec["observed"] = fails[0]["failed"]
                    rec["failing_inputs_found"] = len(fails)
        if not found and native.get("failures"):
            # the bounded harness exhibited a failing input for this property on the same tree
            unl = [f for f in native["failures"] if f["class"] not in kf_classes and not any(f["class"].startswith(px) for px in kf_prefixes)]
            if unl:
                found = True
                rec["native_case"] = unl[0]
                rec["observed"] = unl[0]["observed"]
        rec["replayed_on_real_code"] = found
        if not found:
            rec["solver_output"] = f"sat; model: {json.dumps(ob.get('model'), default=str)[:2000]}"
        json.dump(rec, open(path, "w"), indent=1, default=str)
        violations.append((path, not found, f"obligation {key} refuted"))

    # ---- evidence ---------------------------------------------------------------------------------------
    all_discharged = obligations > 0 and discharged == obligations and not undecided
    undecided_fns = [f for f, l in fn_levels.items() if l.startswith("undecided")]
    proved = all_discharged and not undecided_fns
    level = "proof" if proved else "other"
    trusted = sorted(assumptions) + plans.TRUSTED_COMMON + plan.get("trusted", [])
    lean = compile_lean_lemmas()
    trusted = relabel_with_lean(trusted, lean)
    cov = {
        "obligations": obligations, "discharged": discharged,
        "checker_cmd": f"python3-vt check.py {prop} --tier {tier}",
        "trusted_base": trusted,
        "functions_under_contract": fn_levels,
        "lemmas_machine_checked": lean,
        "by_backend": by_backend, "solver_time_s": round(solver_time, 3),
        "canaries": canaries, "canaries_refuted": canaries_ok,
        "undecided_obligations": [k for _, _, k in undecided],
        "refuted_obligations": [k for _, _, k in refuted],
        "bounded": {"harness": f"native/harness.py:{prop}", "label": "bounded (never counted as proved)", "bound": native.get("bound"),
                    "cases": native.get("cases"), "distinct_nontrivial": native.get("distinct_nontrivial"), "rule": native.get("rule"),
                    "failures": len(native.get("failures", []))},
        "evaluations": max(1, native.get("cases", 0) + obligations),
        "distinct_nontrivial": max(2, native.get("distinct_nontrivial", 0)) if native.get("cases", 0) else max(2, obligations),
        "rule": "obligations generated from the current source of the functions under contract; plus bounded native cases: "
                + str(native.get("rule")),
        "samples": samples + native.get("samples", [])[:3],
        "known_findings_reported": known_lines,
        "proved_modulo_bounded": plan.get("modulo_bounded", []),
        "explanation": ("all obligations discharged" if proved else
                        "NOT a proof on this run: " + "; ".join(
                            [f"{f}: {l}" for f, l in fn_levels.items() if l != "P"] + [f"undecided: {k}" for _, _, k in undecided])
                        + " -- the bounded native harness is the only decider for those parts on this run"),
    }
    if tier == "thorough" and not violations:
        # contract adequacy (informational): in-memory mutants of the functions under contract, each must lose an obligation
        try:
            import mutcat
            cov["mutation_adequacy"] = dict(mutcat.run(prop), note="in-memory mutants of functions under contract (mutcat.py); a mutant "
                                            "counts as detected only when an obligation is refuted; never affects the verdict")
        except Exception as e:      # noqa: BLE001
            cov["mutation_adequacy"] = {"error": f"{type(e).__name__}: {e}"[:300]}
    ev = {"property_id": prop, "tier": tier, "seed": seed, "level": level, "coverage": cov,
          "assumptions": trusted, "wall_s": round(time.time() - t0, 2), "violations": len(violations)}
    os.makedirs(os.path.join(VERIF, "evidence"), exist_ok=True)
    json.dump(ev, open(os.path.join(VERIF, "evidence", f"{prop}.json"), "w"), indent=1, default=str)

    # ---- report --------------------------------------------------------------------------------------------
    print(f"property {prop} tier {tier}: {len(funcs)} functions under contract, {obligations} obligations, {discharged} discharged, "
          f"{len(refuted)} refuted, {len(undecided)} undecided; canaries {canaries_ok}/{canaries}; "
          f"bounded native cases {native.get('cases', 0)} ({len(native.get('failures', []))} failing); "
          f"{round(time.time() - t0, 1)}s")
    if a.verbose or undecided_fns:
        for f, l in fn_levels.items():
            print(f"   {f}: {l}")
    for line in known_lines:
        print(line)
    for path, nofail, what in violations:
        print(f"   {what}")
        print(f"VIOLATION property={prop} replay={path}" + (" no-failing-input-found" if nofail else ""))
    return 1 if violations else 0


if __name__ == "__main__":
    if os.environ.get("PYTHONHASHSEED") != "0":
        # pin string hashing: the same tree then puts the same questions to the solver in the same order on every run
        os.environ["PYTHONHASHSEED"] = "0"
        os.execv(sys.executable, [sys.executable] + sys.argv)
    sys.exit(main())
