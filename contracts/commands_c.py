"""Sidecar contracts for torrentfile/commands.py."""

NS_EDIT = {"cls": "argparse.Namespace",
           "fields": {"metafile": "str", "url_list": "any", "httpseeds": "any", "announce": "any",
                      "source": "any", "comment": "any", "private": "bool"}}


def register(reg):
    C = reg.contract
    L = "loaded(args.metafile)"
    flag = {"url-list": "url_list", "httpseeds": "httpseeds", "announce": "announce", "source": "source", "comment": "comment"}
    unnamed = " and ".join(f"implies(caller_args.{attr} is None, not named(args, '{key}'))" for key, attr in flag.items())
    passed = " and ".join(f"implies(not (caller_args.{attr} is None), ('{key}' in args) and args['{key}'] == caller_args.{attr})"
                          for key, attr in flag.items())
    C("torrentfile.commands.edit",
      props=["C07"],
      params={"args": NS_EDIT},
      requires=[
          "fs_isfile(args.metafile)",
          f"is_dict({L}) and ('info' in {L}) and is_dict({L}['info'])",
          f"not ('comment' in {L}) and not ('source' in {L}) and not ('private' in {L})",
          f"not ('announce' in {L}['info']) and not ('url-list' in {L}['info']) and not ('httpseeds' in {L}['info']) "
          f"and not ('announce-list' in {L}['info']) and not ('info' in {L}['info'])",
      ],
      returns="dict",
      call_obligations={"torrentfile.edit.edit_torrent": [
          ("C07", "flag_absent_means_field_unnamed", unnamed + " and implies(not caller_args.private, not named(args, 'private'))"),
          ("C07", "flag_value_passed_on", passed + " and implies(caller_args.private, named(args, 'private') and not cleared(args, 'private'))"),
          ("C07", "same_metafile", "metafile == caller_args.metafile"),
      ]},
      raises={"BaseException": {}},
      notes="argparse is assumed (level A): an option that was not given is None, --private is store_true (False when absent); "
            "the table is cross-checked against cli.py by the bounded harness")
