"""Sidecar contracts for torrentfile/commands.py."""

NS_EDIT = {"cls": "argparse.Namespace",
           "fields": {"metafile": "str", "url_list": "any", "httpseeds": "any", "announce": "any",
                      "source": "any", "comment": "any", "private": "bool"}}


def register(reg):
    register_config(reg)
    C = reg.contract
    L = "loaded(args.metafile)"
    flag = {"url-list": "url_list", "httpseeds": "httpseeds", "announce": "announce", "source": "source", "comment": "comment"}
    unnamed = " and ".join(f"implies(caller_args.{attr} is None, not named(args, '{key}'))" for key, attr in flag.items())
    passed = " and ".join(f"implies(not (caller_args.{attr} is None), ('{key}' in args) and args['{key}'] == caller_args.{attr})"
                          for key, attr in flag.items())
    C("torrentfile.commands.edit",
      props=["C07"],
      params={"args": NS_EDIT},
      requires=[
          "fs_isfile(args.metafile)",
          f"is_dict({L}) and ('info' in {L}) and is_dict({L}['info'])",
          f"not ('comment' in {L}) and not ('source' in {L}) and not ('private' in {L})",
          f"not ('announce' in {L}['info']) and not ('url-list' in {L}['info']) and not ('httpseeds' in {L}['info']) "
          f"and not ('announce-list' in {L}['info']) and not ('info' in {L}['info'])",
      ],
      returns="dict",
      call_obligations={"torrentfile.edit.edit_torrent": [
          ("C07", "flag_absent_means_field_unnamed", unnamed + " and implies(not caller_args.private, not named(args, 'private'))"),
          ("C07", "flag_value_passed_on", passed + " and implies(caller_args.private, named(args, 'private') and not cleared(args, 'private'))"),
          ("C07", "same_metafile", "metafile == caller_args.metafile"),
      ]},
      raises={"BaseException": {}},
      notes="argparse is assumed (level A): an option that was not given is None, --private is store_true (False when absent); "
            "the table is cross-checked against cli.py by the bounded harness")


CONFIG_DOMAIN = "dict{announce,tracker,web-seed,http-seed,private,source,comment,piece-length,meta-version,out,align}"


def _config_setup(p, env):
    """ghost: the [config] section as configparser presents it (lower-cased option names, str values)"""
    sec = p.engine.make_symbolic(p, "cfg", CONFIG_DOMAIN)
    h = p.heap[sec.rid]
    h.tag["lower_keys"] = True
    h.tag["str_values"] = True
    p.ghost["config_section"] = sec
    env["cfg"] = sec


def register_config(reg):
    C = reg.contract
    C("torrentfile.commands.parse_config_file",
      props=["C20"],
      params={"path": "str", "kwargs": "dict"},
      ghost={"k": "str", "t": "str"},
      setup=_config_setup,
      modifies=["kwargs"],
      requires=["not (('announce' in cfg) and ('tracker' in cfg))"],
      ensures=[
          ("C20", "config_key_lands_in_cli_dest",
           "implies(k in cfg, (config_kw(k) in kwargs) and kwargs[config_kw(k)] == config_conv(k, cfg[k]))"),
          ("C20", "nothing_else_changes",
           "implies(not config_target_before(cfg, t, dict_len(cfg)), same_entry(kwargs, old(kwargs), t))"),
      ],
      loops={0: {"index": "_i0", "instantiate": {"k": ["key"]}, "invariant": [
          ("done_keys", "implies((k in cfg) and 0 <= key_index(cfg, k) < _i0, "
                        "(config_kw(k) in kwargs) and kwargs[config_kw(k)] == config_conv(k, cfg[k]))"),
          ("frame", "implies(not config_target_before(cfg, t, _i0), same_entry(kwargs, old(kwargs), t))"),
      ]}},
      notes="the documented keys are announce, tracker, web-seed, http-seed, private, source, comment, piece-length, meta-version, "
            "out, align; config_kw(key) is read from cli.py on every run (dest of the create flag --key); a file giving both "
            "'announce' and 'tracker' is outside the precondition (last one wins, order-dependent)")
