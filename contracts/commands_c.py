"""Sidecar contracts for torrentfile/commands.py."""

NS_EDIT = {"cls": "argparse.Namespace",
           "fields": {"metafile": "str", "url_list": "any", "httpseeds": "any", "announce": "any",
                      "source": "any", "comment": "any", "private": "bool"}}


def register(reg):
    register_config(reg)
    register_create(reg)
    register_magnet(reg)
    register_rename(reg)
    C = reg.contract
    L = "loaded(args.metafile)"
    flag = {"url-list": "url_list", "httpseeds": "httpseeds", "announce": "announce", "source": "source", "comment": "comment"}
    unnamed = " and ".join(f"implies(caller_args.{attr} is None, not named(args, '{key}'))" for key, attr in flag.items())
    passed = " and ".join(f"implies(not (caller_args.{attr} is None), ('{key}' in args) and args['{key}'] == caller_args.{attr})"
                          for key, attr in flag.items())
    C("torrentfile.commands.edit",
      props=["C07"],
      params={"args": NS_EDIT},
      requires=[
          "fs_isfile(args.metafile)",
          f"is_dict({L}) and ('info' in {L}) and is_dict({L}['info'])",
          f"not ('comment' in {L}) and not ('source' in {L}) and not ('private' in {L})",
          f"not ('announce' in {L}['info']) and not ('url-list' in {L}['info']) and not ('httpseeds' in {L}['info']) "
          f"and not ('announce-list' in {L}['info']) and not ('info' in {L}['info'])",
      ],
      returns="dict",
      call_obligations={"torrentfile.edit.edit_torrent": [
          ("C07", "flag_absent_means_field_unnamed", unnamed + " and implies(not caller_args.private, not named(args, 'private'))"),
          ("C07", "flag_value_passed_on", passed + " and implies(caller_args.private, named(args, 'private') and not cleared(args, 'private'))"),
          ("C07", "same_metafile", "metafile == caller_args.metafile"),
      ]},
      raises={"BaseException": {}},
      notes="argparse is assumed (level A): an option that was not given is None, --private is store_true (False when absent); "
            "the table is cross-checked against cli.py by the bounded harness")


CONFIG_DOMAIN = "dict{announce,tracker,web-seed,http-seed,private,source,comment,piece-length,meta-version,out,align}"


def _config_setup(p, env):
    """ghost: the [config] section as configparser presents it (lower-cased option names, str values)"""
    sec = p.engine.make_symbolic(p, "cfg", CONFIG_DOMAIN)
    h = p.heap[sec.rid]
    h.tag["lower_keys"] = True
    h.tag["str_values"] = True
    p.ghost["config_section"] = sec
    env["cfg"] = sec


def register_config(reg):
    C = reg.contract
    C("torrentfile.commands.parse_config_file",
      props=["C20"],
      params={"path": "str", "kwargs": "dict"},
      ghost={"k": "str", "t": "str"},
      setup=_config_setup,
      setup_at_calls=True,
      modifies=["kwargs"],
      requires=[("env", "not (('announce' in cfg) and ('tracker' in cfg))")],
      ensures=[
          ("C20", "config_key_lands_in_cli_dest",
           "implies(k in cfg, (config_kw(k) in kwargs) and kwargs[config_kw(k)] == config_conv(k, cfg[k]))"),
          ("C20", "nothing_else_changes",
           "implies(not config_target_before(cfg, t, dict_len(cfg)), same_entry(kwargs, old(kwargs), t))"),
      ],
      loops={0: {"index": "_i0", "instantiate": {"k": ["key"]}, "invariant": [
          ("done_keys", "implies((k in cfg) and 0 <= key_index(cfg, k) < _i0, "
                        "(config_kw(k) in kwargs) and kwargs[config_kw(k)] == config_conv(k, cfg[k]))"),
          ("frame", "implies(not config_target_before(cfg, t, _i0), same_entry(kwargs, old(kwargs), t))"),
      ]}},
      notes="the documented keys are announce, tracker, web-seed, http-seed, private, source, comment, piece-length, meta-version, "
            "out, align; config_kw(key) is read from cli.py on every run (dest of the create flag --key); a file giving both "
            "'announce' and 'tracker' is outside the precondition (last one wins, order-dependent)")


NS_CREATE = {"cls": "argparse.Namespace",
             "fields": {"config": "bool", "config_path": "any", "outfile": "any", "content": "any", "meta_version": "any",
                        "magnet": "bool", "announce": "any", "private": "any", "source": "any", "comment": "any",
                        "progress": "any", "piece_length": "any", "url_list": "any", "httpseeds": "any", "align": "any"}}
WRITE_PRE = ["('info' in self.meta) and is_dict(self.meta['info'])",
             "implies('piece layers' in self.meta, is_dict(self.meta['piece layers']))",
             "self.outfile is None or is_str(self.outfile)"]


def register_create(reg):
    C = reg.contract
    for cls in ("TorrentFile", "TorrentAssembler"):
        C(f"torrentfile.torrent.{cls}.__init__", props=[], spec_only=True,
          params={"self": {"cls": f"torrentfile.torrent.{cls}", "fields": {}}, "kwargs": "dict"},
          creates={"meta": "dict", "outfile": "any", "name": "str"},
          ensures=WRITE_PRE + ["implies('outfile' in kwargs, self.outfile == kwargs['outfile'])"],
          raises={"BaseException": {}},
          notes="assumed at this call site (constructors are verified through MetaFile.__init__ / assemble under C01-C03, C08, C12, C20); "
                "reads the payload only")
    C("torrentfile.commands.magnet", props=[], spec_only=True, params={"metafile": "any", "version": "int"}, returns="str",
      raises={"BaseException": {}}, notes="read-only (verified separately under C11 / C18)")
    C("torrentfile.commands.find_config_file", props=[], spec_only=True, params={"args": "any"}, returns="str",
      raises={"FileNotFoundError": {}})
    C("torrentfile.utils.check_path_writable", props=["C18"], params={"path": "str"}, returns="bool",
      ghost={},
      fs_modifies=["_path == probe_path(old(path))"],
      ensures=[("C18", "probe_leaves_no_trace_when_it_created_nothing_else",
                "implies(not fs_exists0(probe_path(old(path))), not fs_exists(probe_path(old(path))))"),
               ("C18", "existing_file_survives_the_probe",
                "implies(fs_isfile0(probe_path(old(path))), fs_isfile(probe_path(old(path))) and fs_data(probe_path(old(path))) == fs_data0(probe_path(old(path))))")],
      raises={"PermissionError": {}, "OSError": {}},
      notes="probe path = the argument, or <argument>/.torrent when the argument ends with a separator")
    C("torrentfile.commands.create",
      props=["C20", "C18"],
      params={"args": NS_CREATE},
      requires=["is_none(args.outfile) or is_str(args.outfile)", "is_str(args.meta_version)"],
      call_obligations={
          "torrentfile.commands.parse_config_file": [("C20", "config_values_go_into_the_namespace", "kwargs is vars(caller_args)")],
          "torrentfile.torrent.TorrentFile.__init__": [
              ("C20", "v1_creator_only_for_meta_version_1_after_config", "caller_args.meta_version == '1'"),
              ("C20", "creator_gets_the_namespace_with_config_applied", "kwargs == vars(caller_args)")],
          "torrentfile.torrent.TorrentAssembler.__init__": [
              ("C20", "v2_hybrid_creator_for_other_versions_after_config", "caller_args.meta_version != '1'"),
              ("C20", "creator_gets_the_namespace_with_config_applied", "kwargs == vars(caller_args)")],
      },
      raises={"BaseException": {}},
      notes="C20: the options a creator sees are vars(args) after the configuration file has been applied; version dispatch uses "
            "the post-config value")


def register_magnet(reg):
    C = reg.contract
    L = "loaded(metafile)"
    I = f"{L}['info']"
    V1 = f"(('pieces' in {I}) and (not ('meta version' in {I}) or version == 0 or version == 1 or version == 3))"
    V2 = f"(('meta version' in {I}) and version != 1)"
    TR = (f"(join_map('&tr=', flatten({L}['announce-list'])) if 'announce-list' in {L} else "
          f"(('&tr=' + quote_plus({L}['announce'])) if 'announce' in {L} else ''))")
    WS = f"(join_map('&ws=', {L}['url-list']) if 'url-list' in {L} else '')"
    XT = (f"(('xt=urn:btih:' + sha1hex(benc({I}))) if {V1} else '') + ('&' if {V1} and {V2} else '') + "
          f"(('xt=urn:btmh:1220' + sha256hex(benc({I}))) if {V2} else '')")
    reg.contracts.pop("torrentfile.commands.magnet", None)
    C("torrentfile.commands.magnet",
      props=["C11", "C18"],
      params={"metafile": "str", "version": "int"},
      returns="str",
      requires=[
          "fs_isfile(metafile)", "0 <= version <= 3",
          ("env", f"is_dict({L}) and ('info' in {L}) and is_dict({I}) and ('name' in {I}) and is_str({I}['name'])"),
          ("env", f"('meta version' in {I}) or ('pieces' in {I})"),                      # well-formed: v1 content or v2 content
          ("env", f"not (('meta version' in {I}) and not ('pieces' in {I}) and version == 1)"),   # a request the metafile can satisfy
          ("env", f"implies('announce-list' in {L}, is_list({L}['announce-list']))"),
          ("env", f"implies('announce' in {L}, is_str({L}['announce']))"),
          ("env", f"implies('url-list' in {L}, is_list({L}['url-list']))"),
          # the lone empty URL corner ("&tr=" / "&ws=" alone) is not judged (DESIGN: either reading accepted)
          ("env", f"{TR} != '&tr=' and {WS} != '&ws='"),
      ],
      fs_modifies=[],
      fs_props=["C18"],
      ensures=[
          ("C11", "uri_is_exactly_the_specified_string",
           f"result == 'magnet:?' + {XT} + '&dn=' + quote_plus({I}['name']) + {TR} + {WS}"),
      ],
      raises={"pyben.exceptions.DecodeError": {}, "pyben.exceptions.EncodeError": {}},
      notes="btih / btmh are hex SHA-1 / SHA-256 of benc(loaded info) -- equal to the info span of the file by the assumed pyben "
            "round trip; tr = flattened announce-list if present else announce; ws = url-list; every value through quote_plus")
    C("torrentfile.commands.get_magnet",
      props=["C11"],
      params={"namespace": {"cls": "argparse.Namespace", "fields": {"metafile": "str", "meta_version": "str"}}},
      returns="str",
      call_obligations={"torrentfile.commands.magnet": [
          ("C11", "requested_version_passed_on", "version == int_value(caller_namespace.meta_version) and metafile == caller_namespace.metafile")]},
      requires=["ascii_decimal(namespace.meta_version) and 0 <= int_value(namespace.meta_version) <= 3", "fs_isfile(namespace.metafile)"],
      raises={"BaseException": {}})


def register_rename(reg):
    C = reg.contract
    L = "loaded(args.target)"
    NEW = f"pathjoin(dirname(args.target), as_str({L}['info']['name']) + '.torrent')"
    C("torrentfile.commands.rename",
      props=["C18"],
      params={"args": {"cls": "argparse.Namespace", "fields": {"target": "any"}}},
      ghost={"q": "str"},
      requires=["is_none(args.target) or is_str(args.target)",
                ("env", f"implies(fs_isfile(args.target), is_dict({L}) and ('info' in {L}) and is_dict({L}['info']) and "
                        f"('name' in {L}['info']) and is_str({L}['info']['name']))")],
      returns="str",
      fs_modifies=[f"_path == {NEW}"],
      fs_props=["C18"],
      ensures=[
          ("C18", "new_name_is_parent_slash_name_dot_torrent", f"result == {NEW}"),
          ("C18", "never_replaces_an_existing_file", "not fs_exists0(result)"),
          ("C18", "bytes_unchanged", "fs_isfile(result) and fs_data(result) == fs_data0(args.target)"),
          ("C18", "old_name_is_gone", "not fs_exists(args.target)"),
          ("C18", "nothing_else_changes", "implies(q != as_str(args.target) and q != result, fs_same(q))"),
      ],
      raises={"FileNotFoundError": {"ensures": [("C18", "nothing_changes_on_error", "fs_same(q)")]},
              "FileExistsError": {"ensures": [("C18", "nothing_changes_on_refusal", "fs_same(q)")]},
              "IsADirectoryError": {"ensures": [("C18", "nothing_changes_on_error", "fs_same(q)")]},
              "pyben.exceptions.FilePathError": {"ensures": [("C18", "nothing_changes_on_error", "fs_same(q)")]},
              "pyben.exceptions.DecodeError": {"ensures": [("C18", "nothing_changes_on_error", "fs_same(q)")]}},
      raises_props=["C18"])
