"""Spec functions usable inside contract clauses.

Every function has two readings:
  * symbolic  (installed into the pyvc registry by install(); receives the Path and symbolic values),
  * native    (NATIVE dict; ordinary Python, used by the native runner to judge replays with the very
               clause that failed).
Spec functions say *what* (BEP 3 / BEP 52 / bencode / the property statement), never how the code does it.
"""
import z3

from pyvc.values import *  # noqa: F401,F403
from pyvc.engine import Unsupported, ContractError
from .specs_native import NATIVE  # noqa: F401


# ----------------------------------------------------------------------------- symbolic readings
def install(reg):
    SF = reg.spec_funcs
    install_dict_specs(reg)
    install_config_specs(reg)
    install_value_specs(reg)
    install_magnet_specs(reg)
    install_merkle_specs(reg)
    install_recheck_specs(reg)
    from pyvc import fsmodel
    fsmodel.install(reg)
    fsmodel.install_more(reg)

    def s_implies(p, a, b):
        return VBool(z3.Implies(p.truth(a), p.truth(b)))
    SF["implies"] = s_implies

    def s_mod_step(p, x, n):
        """ground instance of (x mod n == 0  =>  (x + n) mod n == 0) for n > 0  (Lean core: Nat.add_mod_right)"""
        p.engine.assumption('arithmetic lemma instance mod_step: x mod n == 0 => (x + n) mod n == 0 (schema: lemmas/Lemmas.lean, compiled on every run)')
        xt, nt = p.as_int(x), p.as_int(n)
        return VBool(z3.Implies(z3.And(nt > 0, xt % nt == 0), (xt + nt) % nt == 0))
    SF["mod_step"] = s_mod_step

    def s_mod_witness(p, x, n, q):
        """ground instance of: n > 0 and q*n <= x < (q+1)*n  =>  x mod n == x - q*n  (uniqueness of quotient and remainder;
        Lean core: Nat.mod_eq_of_lt after subtracting q*n)"""
        p.engine.assumption('arithmetic lemma instance mod_witness: n > 0 and q*n <= x < (q+1)*n  =>  x mod n == x - q*n (schema: lemmas/Lemmas.lean, compiled on every run)')
        xt, nt, qt = p.as_int(x), p.as_int(n), p.as_int(q)
        return VBool(z3.Implies(z3.And(nt > 0, qt * nt <= xt, xt < (qt + 1) * nt), xt % nt == xt - qt * nt))
    SF["mod_witness"] = s_mod_witness

    def s_is_pair(p, x):
        """x is a 2-tuple"""
        from pyvc.values import VTuple, VBox, PV
        if isinstance(x, VTuple):
            return VBool(z3.BoolVal(len(x.items) == 2))
        if isinstance(x, VBox):
            return VBool(z3.And(PV.is_PTuple(x.t), z3.Length(PV.titems(x.t)) == 2))
        return VBool(z3.BoolVal(False))
    SF["is_pair"] = s_is_pair

    def s_is_pow2(p, x):
        return VBool(p.engine.is_pow2(p, p.as_int(x)))
    SF["is_pow2"] = s_is_pow2

    def s_next_pow2(p, n):
        """smallest power of two >= n (1 for n <= 1): uninterpreted, characterised by the same three facts next_power_2 is proved to satisfy"""
        nt = p.as_int(n)
        f = p.engine.uf("next_pow2", I, I)
        t = f(nt)
        key = ("next_pow2", z3.simplify(nt).sexpr())
        if key not in p.ghost:
            p.ghost[key] = True
            p.assume(z3.Implies(nt >= 0, z3.And(p.engine.is_pow2(p, t), t >= nt, z3.Implies(nt >= 1, t < 2 * nt), z3.Implies(nt == 0, t == 1))))
        return VInt(t)
    SF["next_pow2"] = s_next_pow2

    def s_pow2(p, e):
        et = p.as_int(e)
        return VInt(p.engine.pow2_int(p, et))
    SF["pow2"] = s_pow2

    def s_ascii_decimal(p, s):
        p.engine.str_numeral_facts(p, s.t)
        return VBool(p.engine.uf("ascii_decimal", S, B)(s.t))
    SF["ascii_decimal"] = s_ascii_decimal

    def s_int_parsable(p, s):
        p.engine.str_numeral_facts(p, s.t)
        return VBool(p.engine.uf("int_parsable", S, B)(s.t))
    SF["int_parsable"] = s_int_parsable

    def s_int_value(p, s):
        p.engine.str_numeral_facts(p, s.t)
        return VInt(p.engine.uf("int_value", S, I)(s.t))
    SF["int_value"] = s_int_value

    def s_auto_piece_length(p, size):
        s = p.as_int(size)
        res = z3.IntVal(2 ** 24)
        for e in range(23, 13, -1):
            res = z3.If(s <= 1000 * 2 ** e, z3.IntVal(2 ** e), res)
        return VInt(res)
    SF["auto_piece_length"] = s_auto_piece_length

    def s_valid_pl(p, x):
        xt = p.as_int(x)
        return VBool(z3.Or(z3.And(xt >= 14, xt <= 25), z3.And(xt >= 16384, p.engine.is_pow2(p, xt))))
    SF["valid_piece_length_arg"] = s_valid_pl

    def s_free_pl(p, x):
        xt = p.as_int(x)
        return VBool(z3.And(xt >= 26, xt <= 29))
    SF["free_piece_length_arg"] = s_free_pl


def _dict_parts(p, d):
    """(keys, has, map) terms of a dict-valued Val (heap dict or boxed)"""
    if isinstance(d, VBox):
        return PV.dkeys(d.t), PV.dhas(d.t), PV.dmap(d.t)
    h = p.deref(d)
    if isinstance(h, HDict):
        t = p.dict_term(h)
        return PV.dkeys(t), PV.dhas(t), PV.dmap(t)
    raise Unsupported(f"dict expected, got {d!r}")


def _str_t(p, v):
    if isinstance(v, VStr):
        return v.t
    if isinstance(v, VBox):
        return PV.sval(v.t)
    # total reading: a non-string argument yields an unconstrained string (such reads are guarded by is_str)
    return p.fresh("not_a_str", S)


def install_dict_specs(reg):
    SF = reg.spec_funcs

    def _dom(p, d, kt):
        h = p.deref(d)
        if isinstance(h, HDict):
            p.domain_fact(h, kt)

    def s_named(p, args, f):
        keys, has, mp = _dict_parts(p, args)
        kt = p.key_term(f)
        _dom(p, args, kt)
        return VBool(z3.And(z3.Select(has, kt), z3.Not(PV.is_PNone(z3.Select(mp, kt)))))
    SF["named"] = s_named

    def s_cleared(p, args, f):
        keys, has, mp = _dict_parts(p, args)
        kt = p.key_term(f)
        _dom(p, args, kt)
        return VBool(z3.And(z3.Select(has, kt), z3.Select(mp, kt) == PV.PStr(z3.StringVal(""))))
    SF["cleared"] = s_cleared

    def s_key_index(p, d, k):
        keys, has, mp = _dict_parts(p, d)
        return VInt(p.engine.key_index_facts(p, keys, has, p.key_term(k)))
    SF["key_index"] = s_key_index

    def s_same_entry(p, d1, d2, k):
        k1, h1, m1 = _dict_parts(p, d1)
        k2, h2, m2 = _dict_parts(p, d2)
        kt = p.key_term(k)
        return VBool(z3.And(z3.Select(h1, kt) == z3.Select(h2, kt),
                            z3.Implies(z3.Select(h1, kt), z3.Select(m1, kt) == z3.Select(m2, kt))))
    SF["same_entry"] = s_same_entry

    def s_keys_ascending(p, d):
        keys, has, mp = _dict_parts(p, d)
        return VBool(p.engine.uf("ascending", KEYSEQ, B)(keys))
    SF["keys_ascending"] = s_keys_ascending

    def s_is_dict(p, v):
        if isinstance(v, VBox):
            return VBool(PV.is_PDict(v.t))
        return VBool(isinstance(p.deref(v), HDict))
    SF["is_dict"] = s_is_dict

    def s_is_str(p, v):
        if isinstance(v, VBox):
            return VBool(PV.is_PStr(v.t))
        return VBool(isinstance(v, VStr))
    SF["is_str"] = s_is_str

    def s_is_list(p, v):
        if isinstance(v, VBox):
            return VBool(PV.is_PList(v.t))
        return VBool(isinstance(p.deref(v), HList))
    SF["is_list"] = s_is_list

    def s_split_ws(p, s):
        f = p.engine.uf("str_split", S, S, PVSEQ)
        return VBox(PV.PList(f(_str_t(p, s), z3.StringVal(" \t\n*"))))
    SF["split_ws"] = s_split_ws

    def s_first(p, v):
        if isinstance(v, VBox):
            return VBox(PV.items(v.t)[0])
        h = p.deref(v)
        if isinstance(h, HList):
            return p.list_get(h, z3.IntVal(0))
        raise Unsupported("first()")
    SF["first"] = s_first

    def s_nonempty_list(p, v):
        if isinstance(v, VBox):
            return VBool(z3.And(PV.is_PList(v.t), z3.Length(PV.items(v.t)) > 0))
        h = p.deref(v)
        return VBool(p.list_len(h) > 0)
    SF["nonempty_list"] = s_nonempty_list


def install_config_specs(reg):
    from .specs_native import CONFIG_KEYS, CONFIG_LIST_KEYS, CONFIG_RAW_KEYS
    from pyvc import clitable
    SF = reg.spec_funcs
    cache = {}

    def table(p):
        if "t" not in cache:
            cache["t"] = clitable.extract(p.repo)
        return cache["t"]

    def kw_term(p, kt):
        """String term: dest of --<k> for k among the documented keys (from the real cli.py), '' otherwise"""
        res = z3.StringVal("")
        for c in CONFIG_KEYS:
            e = clitable.flag_dest(table(p), "create_parser", c)
            if e is None:
                raise ContractError(f"cli.py has no create flag --{c} (documented configuration key)")
            res = z3.If(kt == z3.StringVal(c), z3.StringVal(e["dest"]), res)
        return res

    def s_config_kw(p, k):
        return VStr(kw_term(p, _str_t(p, k)))
    SF["config_kw"] = s_config_kw

    def s_config_conv(p, k, v):
        kt, vt = _str_t(p, k), _str_t(p, v)
        lower = p.engine.uf("str_lower", S, S)
        split = p.engine.uf("str_split", S, S, PVSEQ)
        filt = p.engine.uf("filter_truthy", PVSEQ, PVSEQ)
        is_list = z3.Or([kt == z3.StringVal(c) for c in CONFIG_LIST_KEYS])
        is_raw = z3.Or([kt == z3.StringVal(c) for c in CONFIG_RAW_KEYS])
        lst = PV.PList(filt(split(vt, z3.StringVal("\n"))))
        boolish = z3.If(lower(vt) == z3.StringVal("true"), PV.PBool(True),
                        z3.If(lower(vt) == z3.StringVal("false"), PV.PBool(False), PV.PStr(vt)))
        return VBox(z3.If(is_list, lst, z3.If(is_raw, PV.PStr(vt), boolish)))
    SF["config_conv"] = s_config_conv

    def s_config_target_before(p, cfg, t, i):
        """some documented key present in cfg at an index < i maps to keyword t"""
        keys, has, mp = _dict_parts(p, cfg)
        tt = _str_t(p, t)
        it = p.as_int(i)
        alts = []
        for c in CONFIG_KEYS:
            kt = key_of_const(c)
            idx = p.engine.key_index_facts(p, keys, has, kt)
            alts.append(z3.And(z3.Select(has, kt), idx < it, kw_term(p, z3.StringVal(c)) == tt))
        return VBool(z3.Or(alts))
    SF["config_target_before"] = s_config_target_before

    def s_dict_len(p, d):
        keys, has, mp = _dict_parts(p, d)
        return VInt(z3.Length(keys))
    SF["dict_len"] = s_dict_len


def install_value_specs(reg):
    SF = reg.spec_funcs

    def s_truthy(p, v):
        return VBool(p.truth(v))
    SF["truthy"] = s_truthy

    def s_is_int(p, v):
        if isinstance(v, VBox):
            return VBool(PV.is_PInt(v.t))
        return VBool(isinstance(v, VInt))
    SF["is_int"] = s_is_int

    def s_is_bool(p, v):
        if isinstance(v, VBox):
            return VBool(PV.is_PBool(v.t))
        return VBool(isinstance(v, VBool))
    SF["is_bool"] = s_is_bool

    def s_is_none(p, v):
        if isinstance(v, VBox):
            return VBool(PV.is_PNone(v.t))
        return VBool(isinstance(v, VNone))
    SF["is_none"] = s_is_none

    def s_as_int(p, v):
        if isinstance(v, VBox):
            return VInt(PV.ival(v.t))
        return VInt(p.as_int(v))
    SF["as_int"] = s_as_int

    def s_as_str(p, v):
        return VStr(_str_t(p, v))
    SF["as_str"] = s_as_str

    def _seq(p, v):
        if isinstance(v, VBox):
            return PV.items(v.t)
        h = p.deref(v)
        if isinstance(h, HList):
            return p.list_seq(h)
        return p.fresh("not_a_list", PVSEQ)

    def s_last(p, v):
        s = _seq(p, v)
        return VBox(s[z3.Length(s) - 1])
    SF["last"] = s_last

    def s_init(p, v):
        s = _seq(p, v)
        return VBox(PV.PList(z3.SubSeq(s, 0, z3.Length(s) - 1)))
    SF["init"] = s_init

    def s_list_len(p, v):
        return VInt(z3.Length(_seq(p, v)))
    SF["list_len"] = s_list_len

    def s_memo_func_now(p, path):
        return VBox(p.engine.uf("memo_func_now", S, PV)(_str_t(p, path)))
    SF["memo_func_now"] = s_memo_func_now

    def s_basename_abspath(p, path):
        return VStr(p.engine.uf("basename", S, S)(p.engine.uf("abspath", S, S)(_str_t(p, path))))
    SF["basename_abspath"] = s_basename_abspath


def install_magnet_specs(reg):
    SF = reg.spec_funcs

    def _seq(p, v):
        if isinstance(v, VBox):
            return PV.items(v.t)
        h = p.deref(v)
        if isinstance(h, HList):
            return p.list_seq(h)
        return p.fresh("not_a_list", PVSEQ)

    def s_flatten(p, v):
        return VBox(PV.PList(p.engine.uf("flatten", PVSEQ, PVSEQ)(_seq(p, v))))
    SF["flatten"] = s_flatten

    def s_join_map(p, prefix, urls):
        """"".join(prefix + quote_plus(u) for u in urls)"""
        seq = _seq(p, urls)
        Q = p.engine.uf("quote_plus", S, S)
        pre = _str_t(p, prefix)
        h = HList(rule=(z3.Length(seq), lambda i: VStr(z3.Concat(pre, Q(PV.sval(seq[i]))))))
        ref = p.alloc(h)
        join = p.engine.uf("str_join", S, PVSEQ, S)
        return VStr(join(z3.StringVal(""), p.list_seq(h)))
    SF["join_map"] = s_join_map

    def s_quote_plus(p, s):
        return VStr(p.engine.uf("quote_plus", S, S)(_str_t(p, s)))
    SF["quote_plus"] = s_quote_plus

    def s_sha1hex(p, b):
        return VStr(p.engine.uf("sha1hex", BYTES, S)(p.bytes_term(b) if not isinstance(b, VBox) else PV.yval(b.t)))
    SF["sha1hex"] = s_sha1hex

    def s_sha256hex(p, b):
        return VStr(p.engine.uf("sha256hex", BYTES, S)(p.bytes_term(b) if not isinstance(b, VBox) else PV.yval(b.t)))
    SF["sha256hex"] = s_sha256hex


def install_merkle_specs(reg):
    SF = reg.spec_funcs

    def _seq(p, v):
        if isinstance(v, VBox):
            return PV.items(v.t)
        h = p.deref(v)
        if isinstance(h, HList):
            return p.list_seq(h)
        raise Unsupported("list expected")

    def pairhash_seq(p, X):
        """one level of the BEP 52 tree over a PV sequence of digests: sha256(X[2i] ++ X[2i+1])"""
        sha = p.engine.uf("sha256", BYTES, BYTES)
        h = HList(rule=(z3.Length(X) / 2, lambda i: VBytes(sha(z3.Concat(PV.yval(X[2 * i]), PV.yval(X[2 * i + 1]))))))
        p.alloc(h)
        return p.list_seq(h)

    def mroot_term(p, X, unfold=True):
        """BEP 52 merkle root of a power-of-two sequence of digests, layer-wise definition:
        mroot([x]) = x ; mroot(X) = mroot(pairhash(X)).  Ground unfolding instances are added for X."""
        f = p.engine.uf("mroot", PVSEQ, BYTES)
        t = f(X)
        key = ("mroot", X.get_id())
        if unfold and key not in p.ghost:
            p.ghost[key] = True
            p.assume(z3.Implies(z3.Length(X) == 1, t == PV.yval(X[0])))
            ph = pairhash_seq(p, X)
            p.assume(z3.Implies(z3.Length(X) > 1, t == f(ph)))
        return t

    def zero_digests_seq(p, k):
        """k all-zero 32-byte digests (the BEP 52 padding leaf), as the same rule-defined sequence the code's comprehension builds"""
        z32 = const_bytes(bytes(32))
        h = HList(rule=(z3.If(k > 0, k, 0), lambda i: VBytes(z32)))
        p.alloc(h)
        return p.list_seq(h)

    def s_zero_digests(p, k):
        return VBox(PV.PList(zero_digests_seq(p, p.as_int(k))))
    SF["zero_digests"] = s_zero_digests

    def s_repeat_digest(p, d, k):
        """[d, d, ..., d] (k times)"""
        dt = p.bytes_term(d)
        kt = p.as_int(k)
        h = HList(rule=(z3.If(kt > 0, kt, 0), lambda i: VBytes(dt)))
        p.alloc(h)
        return VBox(PV.PList(p.list_seq(h)))
    SF["repeat_digest"] = s_repeat_digest

    def s_repeat_step(p, d, k):
        """ground instance of the definition of a constant sequence: [d]*(k+1) == [d]*k ++ [d]  (k >= 0)"""
        p.engine.assumption('sequence lemma instance repeat_step: [d]*(k+1) == [d]*k ++ [d]')
        dt, kt = p.bytes_term(d), p.as_int(k)
        a = PV.items(s_repeat_digest(p, VBytes(dt), VInt(kt)).t)
        b = PV.items(s_repeat_digest(p, VBytes(dt), VInt(kt + 1)).t)
        return VBool(z3.Implies(kt >= 0, b == z3.Concat(a, z3.Unit(PV.PBytes(dt)))))
    SF["repeat_step"] = s_repeat_step

    def s_cat(p, a, b):
        """list concatenation as PV sequence"""
        return VBox(PV.PList(z3.Concat(_seq(p, a), _seq(p, b))))
    SF["cat"] = s_cat

    def s_bytes_join(p, lst):
        f = p.engine.uf("bytes_join", BYTES, PVSEQ, BYTES)
        return VBytes(f(z3.Empty(BYTES), _seq(p, lst)))
    SF["bytes_join"] = s_bytes_join

    def s_mroot(p, blocks):
        return VBytes(mroot_term(p, _seq(p, blocks)))
    SF["mroot"] = s_mroot

    def s_pairhash(p, blocks):
        return VBox(PV.PList(pairhash_seq(p, _seq(p, blocks))))
    SF["pairhash"] = s_pairhash


def install_recheck_specs(reg):
    SF = reg.spec_funcs

    def _seq(p, v):
        if isinstance(v, VBox):
            return PV.items(v.t)
        h = p.deref(v)
        if isinstance(h, HList):
            return p.list_seq(h)
        raise Unsupported("list expected")

    def _tsize(X, i):
        return PV.ival(PV.titems(X[i])[3])

    def _tmatch(X, i):
        return PV.titems(X[i])[0] == PV.titems(X[i])[1]

    def s_tuple_size(p, sigma, i):
        return VInt(_tsize(_seq(p, sigma), p.as_int(i)))
    SF["tuple_size"] = s_tuple_size

    def s_tuple_matches(p, sigma, i):
        return VBool(_tmatch(_seq(p, sigma), p.as_int(i)))
    SF["tuple_matches"] = s_tuple_matches

    def _sums(p, X, i, which):
        f = p.engine.uf(which, PVSEQ, I, I)
        t = f(X, i)
        key = (which, X.get_id(), z3.simplify(i).sexpr())
        if key not in p.ghost:
            p.ghost[key] = True
            # ground instances of the recursive definition at i (both directions) and the base case
            add = _tsize(X, i) if which == "size_sum" else z3.If(_tmatch(X, i), _tsize(X, i), 0)
            p.assume(f(X, z3.IntVal(0)) == 0)
            p.assume(z3.Implies(z3.And(i >= 0, i < z3.Length(X)), f(X, i + 1) == t + add))
            prev = i - 1
            addp = _tsize(X, prev) if which == "size_sum" else z3.If(_tmatch(X, prev), _tsize(X, prev), 0)
            p.assume(z3.Implies(z3.And(prev >= 0, prev < z3.Length(X)), t == f(X, prev) + addp))
        return t

    def s_size_sum(p, sigma, i):
        return VInt(_sums(p, _seq(p, sigma), p.as_int(i), "size_sum"))
    SF["size_sum"] = s_size_sum

    def s_match_sum(p, sigma, i):
        return VInt(_sums(p, _seq(p, sigma), p.as_int(i), "match_sum"))
    SF["match_sum"] = s_match_sum

    def s_tuples_wellformed(p, sigma, j):
        """every element is a 4-tuple (chunk, piece, path, size) with size >= 0 -- instantiated at the loop index by the
        element rule below and at the ghost index j here"""
        X = _seq(p, sigma)
        jt = p.as_int(j)
        h = p.deref(sigma)
        if isinstance(h, HList):
            h.tag["elem_fact"] = lambda i, X=X: z3.And(PV.is_PTuple(X[i]), z3.Length(PV.titems(X[i])) == 4,
                                                      PV.is_PInt(PV.titems(X[i])[3]), PV.ival(PV.titems(X[i])[3]) >= 0)
        return VBool(z3.Implies(z3.And(jt >= 0, jt < z3.Length(X)), h.tag["elem_fact"](jt)))
    SF["tuples_wellformed"] = s_tuples_wellformed

    def s_hashed(p):
        t = p.ghost.get("hashed_sha1")
        if t is None:
            return VBytes(p.fresh("nothing_hashed", BYTES))
        return VBytes(t)
    SF["hashed"] = s_hashed

    def s_sha1(p, b):
        t = p.bytes_term(b)
        return VBytes(p.engine.uf("sha1", BYTES, BYTES)(t))
    SF["sha1"] = s_sha1

    def s_sha256(p, b):
        t = p.bytes_term(b)
        d = p.engine.uf("sha256", BYTES, BYTES)(t)
        return VBytes(d)
    SF["sha256"] = s_sha256

    def s_zeros(p, n):
        return VBytes(p.engine.zeros(p, p.as_int(n)))
    SF["zeros"] = s_zeros
