"""Spec functions usable inside contract clauses.

Every function has two readings:
  * symbolic  (installed into the pyvc registry by install(); receives the Path and symbolic values),
  * native    (NATIVE dict; ordinary Python, used by the native runner to judge replays with the very
               clause that failed).
Spec functions say *what* (BEP 3 / BEP 52 / bencode / the property statement), never how the code does it.
"""
import z3

from pyvc.values import *  # noqa: F401,F403
from pyvc.engine import Unsupported

NATIVE = {}


def native(fn):
    NATIVE[fn.__name__] = fn
    return fn


# ----------------------------------------------------------------------------- native readings
@native
def implies(a, b):
    return (not a) or bool(b)


@native
def is_pow2(x):
    return isinstance(x, int) and x > 0 and (x & (x - 1)) == 0


@native
def pow2(e):
    return 2 ** e


@native
def ascii_decimal(s):
    return isinstance(s, str) and len(s) > 0 and all(c in "0123456789" for c in s)


@native
def int_parsable(s):
    try:
        int(s)
        return True
    except ValueError:
        return False


@native
def int_value(s):
    return int(s)


@native
def auto_piece_length(size):
    """C12 automatic choice: smallest 2^e, 14 <= e <= 24, with size <= 1000 * 2^e (2^24 if there is none)."""
    for e in range(14, 25):
        if size <= 1000 * 2 ** e:
            return 2 ** e
    return 2 ** 24


@native
def valid_piece_length_arg(x):
    """C12: an integer argument that must be accepted: exponent 14..25, or a power of two >= 16 KiB."""
    return (14 <= x <= 25) or (x >= 16384 and is_pow2(x))


@native
def free_piece_length_arg(x):
    """C12: exponents 26..29 may be rejected or read as 2^n."""
    return 26 <= x <= 29


# ----------------------------------------------------------------------------- symbolic readings
def install(reg):
    SF = reg.spec_funcs

    def s_implies(p, a, b):
        return VBool(z3.Implies(p.truth(a), p.truth(b)))
    SF["implies"] = s_implies

    def s_is_pow2(p, x):
        return VBool(p.engine.is_pow2(p, p.as_int(x)))
    SF["is_pow2"] = s_is_pow2

    def s_pow2(p, e):
        et = p.as_int(e)
        return VInt(p.engine.pow2_int(p, et))
    SF["pow2"] = s_pow2

    def s_ascii_decimal(p, s):
        p.engine.str_numeral_facts(p, s.t)
        return VBool(p.engine.uf("ascii_decimal", S, B)(s.t))
    SF["ascii_decimal"] = s_ascii_decimal

    def s_int_parsable(p, s):
        p.engine.str_numeral_facts(p, s.t)
        return VBool(p.engine.uf("int_parsable", S, B)(s.t))
    SF["int_parsable"] = s_int_parsable

    def s_int_value(p, s):
        p.engine.str_numeral_facts(p, s.t)
        return VInt(p.engine.uf("int_value", S, I)(s.t))
    SF["int_value"] = s_int_value

    def s_auto_piece_length(p, size):
        s = p.as_int(size)
        res = z3.IntVal(2 ** 24)
        for e in range(23, 13, -1):
            res = z3.If(s <= 1000 * 2 ** e, z3.IntVal(2 ** e), res)
        return VInt(res)
    SF["auto_piece_length"] = s_auto_piece_length

    def s_valid_pl(p, x):
        xt = p.as_int(x)
        return VBool(z3.Or(z3.And(xt >= 14, xt <= 25), z3.And(xt >= 16384, p.engine.is_pow2(p, xt))))
    SF["valid_piece_length_arg"] = s_valid_pl

    def s_free_pl(p, x):
        xt = p.as_int(x)
        return VBool(z3.And(xt >= 26, xt <= 29))
    SF["free_piece_length_arg"] = s_free_pl
