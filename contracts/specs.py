"""Spec functions usable inside contract clauses.

Every function has two readings:
  * symbolic  (installed into the pyvc registry by install(); receives the Path and symbolic values),
  * native    (NATIVE dict; ordinary Python, used by the native runner to judge replays with the very
               clause that failed).
Spec functions say *what* (BEP 3 / BEP 52 / bencode / the property statement), never how the code does it.
"""
import z3

from pyvc.values import *  # noqa: F401,F403
from pyvc.engine import Unsupported
from .specs_native import NATIVE  # noqa: F401


# ----------------------------------------------------------------------------- symbolic readings
def install(reg):
    SF = reg.spec_funcs

    def s_implies(p, a, b):
        return VBool(z3.Implies(p.truth(a), p.truth(b)))
    SF["implies"] = s_implies

    def s_is_pow2(p, x):
        return VBool(p.engine.is_pow2(p, p.as_int(x)))
    SF["is_pow2"] = s_is_pow2

    def s_pow2(p, e):
        et = p.as_int(e)
        return VInt(p.engine.pow2_int(p, et))
    SF["pow2"] = s_pow2

    def s_ascii_decimal(p, s):
        p.engine.str_numeral_facts(p, s.t)
        return VBool(p.engine.uf("ascii_decimal", S, B)(s.t))
    SF["ascii_decimal"] = s_ascii_decimal

    def s_int_parsable(p, s):
        p.engine.str_numeral_facts(p, s.t)
        return VBool(p.engine.uf("int_parsable", S, B)(s.t))
    SF["int_parsable"] = s_int_parsable

    def s_int_value(p, s):
        p.engine.str_numeral_facts(p, s.t)
        return VInt(p.engine.uf("int_value", S, I)(s.t))
    SF["int_value"] = s_int_value

    def s_auto_piece_length(p, size):
        s = p.as_int(size)
        res = z3.IntVal(2 ** 24)
        for e in range(23, 13, -1):
            res = z3.If(s <= 1000 * 2 ** e, z3.IntVal(2 ** e), res)
        return VInt(res)
    SF["auto_piece_length"] = s_auto_piece_length

    def s_valid_pl(p, x):
        xt = p.as_int(x)
        return VBool(z3.Or(z3.And(xt >= 14, xt <= 25), z3.And(xt >= 16384, p.engine.is_pow2(p, xt))))
    SF["valid_piece_length_arg"] = s_valid_pl

    def s_free_pl(p, x):
        xt = p.as_int(x)
        return VBool(z3.And(xt >= 26, xt <= 29))
    SF["free_piece_length_arg"] = s_free_pl
