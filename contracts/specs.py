"""Spec functions usable inside contract clauses.

Every function has two readings:
  * symbolic  (installed into the pyvc registry by install(); receives the Path and symbolic values),
  * native    (NATIVE dict; ordinary Python, used by the native runner to judge replays with the very
               clause that failed).
Spec functions say *what* (BEP 3 / BEP 52 / bencode / the property statement), never how the code does it.
"""
import z3

from pyvc.values import *  # noqa: F401,F403
from pyvc.engine import Unsupported
from .specs_native import NATIVE  # noqa: F401


# ----------------------------------------------------------------------------- symbolic readings
def install(reg):
    SF = reg.spec_funcs
    install_dict_specs(reg)
    from pyvc import fsmodel
    fsmodel.install(reg)
    fsmodel.install_more(reg)

    def s_implies(p, a, b):
        return VBool(z3.Implies(p.truth(a), p.truth(b)))
    SF["implies"] = s_implies

    def s_is_pow2(p, x):
        return VBool(p.engine.is_pow2(p, p.as_int(x)))
    SF["is_pow2"] = s_is_pow2

    def s_pow2(p, e):
        et = p.as_int(e)
        return VInt(p.engine.pow2_int(p, et))
    SF["pow2"] = s_pow2

    def s_ascii_decimal(p, s):
        p.engine.str_numeral_facts(p, s.t)
        return VBool(p.engine.uf("ascii_decimal", S, B)(s.t))
    SF["ascii_decimal"] = s_ascii_decimal

    def s_int_parsable(p, s):
        p.engine.str_numeral_facts(p, s.t)
        return VBool(p.engine.uf("int_parsable", S, B)(s.t))
    SF["int_parsable"] = s_int_parsable

    def s_int_value(p, s):
        p.engine.str_numeral_facts(p, s.t)
        return VInt(p.engine.uf("int_value", S, I)(s.t))
    SF["int_value"] = s_int_value

    def s_auto_piece_length(p, size):
        s = p.as_int(size)
        res = z3.IntVal(2 ** 24)
        for e in range(23, 13, -1):
            res = z3.If(s <= 1000 * 2 ** e, z3.IntVal(2 ** e), res)
        return VInt(res)
    SF["auto_piece_length"] = s_auto_piece_length

    def s_valid_pl(p, x):
        xt = p.as_int(x)
        return VBool(z3.Or(z3.And(xt >= 14, xt <= 25), z3.And(xt >= 16384, p.engine.is_pow2(p, xt))))
    SF["valid_piece_length_arg"] = s_valid_pl

    def s_free_pl(p, x):
        xt = p.as_int(x)
        return VBool(z3.And(xt >= 26, xt <= 29))
    SF["free_piece_length_arg"] = s_free_pl


def _dict_parts(p, d):
    """(keys, has, map) terms of a dict-valued Val (heap dict or boxed)"""
    if isinstance(d, VBox):
        return PV.dkeys(d.t), PV.dhas(d.t), PV.dmap(d.t)
    h = p.deref(d)
    if isinstance(h, HDict):
        t = p.dict_term(h)
        return PV.dkeys(t), PV.dhas(t), PV.dmap(t)
    raise Unsupported(f"dict expected, got {d!r}")


def _str_t(p, v):
    if isinstance(v, VStr):
        return v.t
    if isinstance(v, VBox):
        return PV.sval(v.t)
    # total reading: a non-string argument yields an unconstrained string (such reads are guarded by is_str)
    return p.fresh("not_a_str", S)


def install_dict_specs(reg):
    SF = reg.spec_funcs

    def _dom(p, d, kt):
        h = p.deref(d)
        if isinstance(h, HDict):
            p.domain_fact(h, kt)

    def s_named(p, args, f):
        keys, has, mp = _dict_parts(p, args)
        kt = p.key_term(f)
        _dom(p, args, kt)
        return VBool(z3.And(z3.Select(has, kt), z3.Not(PV.is_PNone(z3.Select(mp, kt)))))
    SF["named"] = s_named

    def s_cleared(p, args, f):
        keys, has, mp = _dict_parts(p, args)
        kt = p.key_term(f)
        _dom(p, args, kt)
        return VBool(z3.And(z3.Select(has, kt), z3.Select(mp, kt) == PV.PStr(z3.StringVal(""))))
    SF["cleared"] = s_cleared

    def s_key_index(p, d, k):
        keys, has, mp = _dict_parts(p, d)
        return VInt(p.engine.key_index_facts(p, keys, has, p.key_term(k)))
    SF["key_index"] = s_key_index

    def s_same_entry(p, d1, d2, k):
        k1, h1, m1 = _dict_parts(p, d1)
        k2, h2, m2 = _dict_parts(p, d2)
        kt = p.key_term(k)
        return VBool(z3.And(z3.Select(h1, kt) == z3.Select(h2, kt),
                            z3.Implies(z3.Select(h1, kt), z3.Select(m1, kt) == z3.Select(m2, kt))))
    SF["same_entry"] = s_same_entry

    def s_keys_ascending(p, d):
        keys, has, mp = _dict_parts(p, d)
        return VBool(p.engine.uf("ascending", KEYSEQ, B)(keys))
    SF["keys_ascending"] = s_keys_ascending

    def s_is_dict(p, v):
        if isinstance(v, VBox):
            return VBool(PV.is_PDict(v.t))
        return VBool(isinstance(p.deref(v), HDict))
    SF["is_dict"] = s_is_dict

    def s_is_str(p, v):
        if isinstance(v, VBox):
            return VBool(PV.is_PStr(v.t))
        return VBool(isinstance(v, VStr))
    SF["is_str"] = s_is_str

    def s_is_list(p, v):
        if isinstance(v, VBox):
            return VBool(PV.is_PList(v.t))
        return VBool(isinstance(p.deref(v), HList))
    SF["is_list"] = s_is_list

    def s_split_ws(p, s):
        f = p.engine.uf("str_split", S, S, PVSEQ)
        return VBox(PV.PList(f(_str_t(p, s), z3.StringVal(" \t\n*"))))
    SF["split_ws"] = s_split_ws

    def s_first(p, v):
        if isinstance(v, VBox):
            return VBox(PV.items(v.t)[0])
        h = p.deref(v)
        if isinstance(h, HList):
            return p.list_get(h, z3.IntVal(0))
        raise Unsupported("first()")
    SF["first"] = s_first

    def s_nonempty_list(p, v):
        if isinstance(v, VBox):
            return VBool(z3.And(PV.is_PList(v.t), z3.Length(PV.items(v.t)) > 0))
        h = p.deref(v)
        return VBool(p.list_len(h) > 0)
    SF["nonempty_list"] = s_nonempty_list
