"""Sidecar contracts for torrentfile/rebuild.py."""

MD = {"cls": "torrentfile.rebuild.Metadata",
      "fields": {"pieces": "bytes", "piece_length": "int", "files": "list", "piece_nodes": "list"}}


def register(reg):
    register_checked(reg)
    C = reg.contract
    OFF = "file_offset(self.files, file_index)"
    N = "len(self.files)"
    # position invariant of DESIGN 10.x: where piece i starts relative to the file list
    POS = ("implies(remainder > 0, file_index < {N} and current == self.files[file_index] and remainder <= file_length(self.files, file_index) and "
           "{I} * self.piece_length == {OFF} + file_length(self.files, file_index) - remainder) and "
           "implies(remainder == 0, ({I} * self.piece_length == {OFF} and file_index <= {N}) or "
           "(file_index == {N} and {I} * self.piece_length >= {OFF}))")
    C("torrentfile.rebuild.Metadata._map_pieces",
      props=["C13"],
      params={"self": MD},
      requires=["self.piece_length > 0", "len(self.piece_nodes) == 0", ("env", "files_wellformed(self.files)")],
      ensures=[("C13", "one_piece_node_per_recorded_piece", "len(self.piece_nodes) == len(self.pieces) // 20")],
      loops={
          0: {"index": "_i0", "modifies": ["self.piece_nodes"],
              "invariant": [
                  ("bounds", f"0 <= file_index <= {N} and remainder >= 0 and len(self.piece_nodes) == _i0"),
                  ("piece_i_starts_where_the_previous_one_ended", POS.format(I="_i0", N=N, OFF=OFF)),
              ]},
          1: {"invariant": [
                  ("bounds", f"0 <= file_index <= {N} and remainder >= 0 and target >= 0 and 0 <= i and len(self.piece_nodes) == i"),
                  ("uncovered_rest_of_the_piece_starts_at_the_next_file",
                   f"implies(target > 0, remainder == 0 and ((i + 1) * self.piece_length - target == {OFF} or "
                   f"(file_index == {N} and (i + 1) * self.piece_length - target >= {OFF})))"),
                  ("a_filled_piece_leaves_the_position_of_the_next_one",
                   "implies(target == 0, " + POS.format(I="(i + 1)", N=N, OFF=OFF) + ")"),
              ], "decreases": f"target + ({N} - file_index)"},
      },
      notes="position invariant: piece i starts at stream offset i*piece_length = offset(file_index) + bytes of that file already used; "
            "in particular a file that ends exactly on a piece boundary advances file_index")


def register_checked(reg):
    C = reg.contract
    C("torrentfile.rebuild._checked",
      props=["C19"],
      params={"part": "str"},
      returns="str",
      ensures=[("C19", "returns_the_element_unchanged", "result == part"),
               ("C19", "accepted_elements_cannot_leave_the_directory_they_are_joined_to",
                "part != '..' and not part.startswith('/') and not ('/' in part) and not ('\\\\' in part)")],
      raises={"ValueError": {"ensures": [
          ("C19", "only_unsafe_elements_are_refused", "part == '..' or part.startswith('/') or ('/' in part) or ('\\\\' in part)")]}},
      raises_props=["C19"],
      notes="POSIX: os.path.isabs(p) == p.startswith('/'); '.' and '' are harmless (they stay inside the directory)")
