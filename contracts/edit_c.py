"""Sidecar contracts for torrentfile/edit.py  (C07 frame/semantics, C06 canonical order, C17 crash invariant)."""

SIX = "dict{comment,source,private,announce,url-list,httpseeds}"


def register(reg):
    C = reg.contract

    # ------------------------------------------------------------------ filter_empty
    # For every key k (ghost, universally quantified):
    C("torrentfile.edit.filter_empty",
      props=["C07"],
      params={"args": SIX, "meta": "dict", "info": "dict"},
      ghost={"k": "str"},
      modifies=["args", "meta", "info"],
      ensures=[
          ("C07", "args_keeps_exactly_named_nonempty",
           "(k in args) == ((k in old(args)) and not (old(args)[k] is None) and not (old(args)[k] == ''))"),
          ("C07", "args_values_unchanged", "implies(k in args, args[k] == old(args)[k])"),
          ("C07", "meta_loses_exactly_cleared", "(k in meta) == ((k in old(meta)) and not cleared(old(args), k))"),
          ("C07", "meta_values_unchanged", "implies(k in meta, meta[k] == old(meta)[k])"),
          ("C07", "info_loses_exactly_cleared_not_in_meta",
           "(k in info) == ((k in old(info)) and not (cleared(old(args), k) and not (k in old(meta))))"),
          ("C07", "info_values_unchanged", "implies(k in info, info[k] == old(info)[k])"),
      ],
      loops={0: {"index": "_i0", "instantiate": {"k": ["key"]}, "invariant": [
          ("args_has", "(k in args) == ((k in old(args)) and not (0 <= key_index(old(args), k) < _i0 and "
                       "(old(args)[k] is None or old(args)[k] == '')))"),
          ("args_val", "implies(k in args, args[k] == old(args)[k])"),
          ("meta_has", "(k in meta) == ((k in old(meta)) and not (0 <= key_index(old(args), k) < _i0 and cleared(old(args), k)))"),
          ("meta_val", "implies(k in meta, meta[k] == old(meta)[k])"),
          ("info_has", "(k in info) == ((k in old(info)) and not (0 <= key_index(old(args), k) < _i0 and cleared(old(args), k) "
                       "and not (k in old(meta))))"),
          ("info_val", "implies(k in info, info[k] == old(info)[k])"),
      ]}},
      notes="the three dicts are distinct objects (aliasing assumption 3.3-1); info is NOT meta['info'] here -- the caller "
            "passes both and the alias is modelled at the call site")

    # ------------------------------------------------------------------ edit_torrent
    # L = the decoded metafile as loaded, D = the value handed to pyben.dump (ghost `dumped()`)
    L = "loaded(metafile)"
    D = "dumped()"
    CRASH = [("C17", "metafile_old_or_new",
              "fs_isfile(metafile) and (fs_data(metafile) == fs_data0(metafile) or fs_data(metafile) == benc(dumped()))")]
    C("torrentfile.edit.edit_torrent",
      props=["C07", "C06", "C17"],
      params={"metafile": "str", "args": SIX},
      ghost={"k": "str"},
      merge_ifs=True,
      fs_faults=True,
      shards=12, fork_checks=False,
      requires=[
          "fs_isfile(metafile)",
          # well-formed metafile: a dict with an info dict; the six editable names live on their documented level
          # only (true of every metafile this tool writes)
          f"is_dict({L}) and ('info' in {L}) and is_dict({L}['info'])",
          f"not ('comment' in {L}) and not ('source' in {L}) and not ('private' in {L})",
          f"not ('announce' in {L}['info']) and not ('url-list' in {L}['info']) and not ('httpseeds' in {L}['info']) "
          f"and not ('announce-list' in {L}['info']) and not ('info' in {L}['info'])",
      ],
      returns="dict",
      crash_invariant=CRASH,
      fs_modifies=["_path == metafile", "fs_is_temp(_path)"],
      fs_props=["C17"],
      ensures=[
          # ---- C07: frame over the WHOLE top-level and info views
          ("C07", "top_unnamed_untouched",
           f"implies(k != 'info' and not ((k == 'announce' or k == 'announce-list') and named(old(args), 'announce')) "
           f"and not (k == 'url-list' and named(old(args), 'url-list')) and not (k == 'httpseeds' and named(old(args), 'httpseeds')), "
           f"same_entry({D}, {L}, k))"),
          ("C07", "info_unnamed_untouched",
           f"implies(not (k == 'comment' and named(old(args), 'comment')) and not (k == 'source' and named(old(args), 'source')) "
           f"and not (k == 'private' and named(old(args), 'private')), same_entry({D}['info'], {L}['info'], k))"),
          ("C07", "info_stays_dict", f"('info' in {D}) and is_dict({D}['info'])"),
          # ---- C07: named fields take the written value
          ("C07", "comment_set", f"implies(named(old(args), 'comment') and not cleared(old(args), 'comment'), "
                                 f"('comment' in {D}['info']) and {D}['info']['comment'] == old(args)['comment'])"),
          ("C07", "source_set", f"implies(named(old(args), 'source') and not cleared(old(args), 'source'), "
                                f"('source' in {D}['info']) and {D}['info']['source'] == old(args)['source'])"),
          ("C07", "private_set", f"implies(named(old(args), 'private') and not cleared(old(args), 'private'), "
                                 f"('private' in {D}['info']) and {D}['info']['private'] == 1)"),
          ("C07", "cleared_removed_info",
           f"implies(cleared(old(args), 'comment'), not ('comment' in {D}['info'])) and "
           f"implies(cleared(old(args), 'source'), not ('source' in {D}['info'])) and "
           f"implies(cleared(old(args), 'private'), not ('private' in {D}['info']))"),
          ("C07", "cleared_removed_top",
           f"implies(cleared(old(args), 'announce'), not ('announce' in {D})) and "
           f"implies(cleared(old(args), 'url-list'), not ('url-list' in {D})) and "
           f"implies(cleared(old(args), 'httpseeds'), not ('httpseeds' in {D}))"),
          ("C07", "announce_set_list",
           f"implies(named(old(args), 'announce') and nonempty_list(old(args)['announce']), "
           f"{D}['announce'] == first(old(args)['announce']) and {D}['announce-list'] == [old(args)['announce']])"),
          ("C07", "announce_set_str",
           f"implies(named(old(args), 'announce') and is_str(old(args)['announce']) and old(args)['announce'] != '', "
           f"{D}['announce'] == first(split_ws(old(args)['announce'])) and {D}['announce-list'] == [split_ws(old(args)['announce'])])"),
          ("C07", "urllist_set",
           f"implies(named(old(args), 'url-list') and is_list(old(args)['url-list']), {D}['url-list'] == old(args)['url-list']) and "
           f"implies(named(old(args), 'url-list') and is_str(old(args)['url-list']) and old(args)['url-list'] != '', "
           f"{D}['url-list'] == split_ws(old(args)['url-list']))"),
          ("C07", "httpseeds_set",
           f"implies(named(old(args), 'httpseeds') and is_list(old(args)['httpseeds']), {D}['httpseeds'] == old(args)['httpseeds']) and "
           f"implies(named(old(args), 'httpseeds') and is_str(old(args)['httpseeds']) and old(args)['httpseeds'] != '', "
           f"{D}['httpseeds'] == split_ws(old(args)['httpseeds']))"),
          # ---- C06: what is written has its top-level and info keys in ascending order
          ("C06", "top_keys_sorted", f"keys_ascending({D})"),
          ("C06", "info_keys_sorted", f"keys_ascending({D}['info'])"),
          # ---- C17 / C07: the file now holds exactly the encoding of D
          (["C17", "C07"], "file_is_encoding_of_dumped", f"fs_isfile(metafile) and fs_data(metafile) == benc({D})"),
      ],
      raises={"BaseException": {"ensures": [
          ("C17", "failed_edit_leaves_complete_metafile",
           "fs_isfile(metafile) and (fs_data(metafile) == fs_data0(metafile) or fs_data(metafile) == benc(dumped()))")]}},
      notes="C07 semantics of the six fields per the documented behaviour: str values are split on whitespace for the list "
            "fields, tracker sets announce and announce-list; a blank (whitespace-only) tracker string raises IndexError "
            "before any file-system effect")
