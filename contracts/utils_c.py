"""Sidecar contracts for torrentfile/utils.py (DESIGN.md section 4).  Clauses are Python expressions over the
function's own parameter / local names; (props, label, expr)."""

PLVE = "torrentfile.utils.PieceLengthValueError"


def register(reg):
    C = reg.contract

    # ------------------------------------------------------------------ C12
    norm_post_int = [
        ("C12", "accepted_only_if_valid", "valid_piece_length_arg(old(piece_length)) or free_piece_length_arg(old(piece_length))"),
        ("C12", "records_exact_value",
         "result == (pow2(old(piece_length)) if old(piece_length) <= 29 else old(piece_length))"),
    ]
    norm_post_str = [
        ("C12", "accepted_only_if_numeral", "int_parsable(old(piece_length))"),
        ("C12", "accepted_only_if_valid",
         "valid_piece_length_arg(int_value(old(piece_length))) or free_piece_length_arg(int_value(old(piece_length)))"),
        ("C12", "records_exact_value",
         "result == (pow2(int_value(old(piece_length))) if int_value(old(piece_length)) <= 29 else int_value(old(piece_length)))"),
    ]
    C("torrentfile.utils.normalize_piece_length",
      props=["C12"],
      params={"piece_length": "int"},
      variants=[{"piece_length": "int", "_v": "const:'int'"}, {"piece_length": "str", "_v": "const:'str'"}],
      returns="int",
      ensures=[],       # per variant, below
      variant_ensures=[norm_post_int, norm_post_str],
      raises={PLVE: {"variant_ensures": [
          [("C12", "rejected_only_if_invalid", "not valid_piece_length_arg(old(piece_length))")],
          [("C12", "rejected_only_if_invalid",
            "not (ascii_decimal(old(piece_length)) and valid_piece_length_arg(int_value(old(piece_length))))")],
      ]}},
      raises_props=["C12"],
      replay="pure",
      notes="accept iff valid (strongest reading the repaired code satisfies); exponents 26..29 free; "
            "for non-ASCII numerals only 'no other exception' and 'accepted only if it denotes a valid value' are required")

    C("torrentfile.utils.get_piece_length",
      props=["C12"],
      params={"size": "int"},
      requires=["size >= 0"],
      returns="int",
      ensures=[("C12", "auto_choice", "result == auto_piece_length(size)"),
               ("C12", "range_pow2", "is_pow2(result) and 16384 <= result <= 16777216")],
      loops={0: {"invariant": [("inv_range", "14 <= exp <= 24"),
                               ("inv_prev_failed", "exp == 14 or size > 1000 * pow2(exp - 1)")],
                 "decreases": "24 - exp"}},
      replay="pure",
      notes="float: size / 2**exp > 1000 is read over exact rationals (q > 1000 implies q >= 1000 + 2^-24, "
            "representable, so rounding cannot cross 1000; valid for size < 2^1000)")
