"""Sidecar contracts for torrentfile/utils.py (DESIGN.md section 4).  Clauses are Python expressions over the
function's own parameter / local names; (props, label, expr)."""

PLVE = "torrentfile.utils.PieceLengthValueError"


def register(reg):
    register_more(reg)
    register_pow2(reg)
    register_copypath(reg)
    C = reg.contract

    # ------------------------------------------------------------------ C12
    norm_post_int = [
        ("C12", "accepted_only_if_valid", "valid_piece_length_arg(old(piece_length)) or free_piece_length_arg(old(piece_length))"),
        ("C12", "records_exact_value",
         "result == (pow2(old(piece_length)) if old(piece_length) <= 29 else old(piece_length))"),
    ]
    norm_post_str = [
        ("C12", "accepted_only_if_numeral", "int_parsable(old(piece_length))"),
        ("C12", "accepted_only_if_valid",
         "valid_piece_length_arg(int_value(old(piece_length))) or free_piece_length_arg(int_value(old(piece_length)))"),
        ("C12", "records_exact_value",
         "result == (pow2(int_value(old(piece_length))) if int_value(old(piece_length)) <= 29 else int_value(old(piece_length)))"),
    ]
    C("torrentfile.utils.normalize_piece_length",
      props=["C12"],
      params={"piece_length": "int"},
      variants=[{"piece_length": "int", "_v": "const:'int'"}, {"piece_length": "str", "_v": "const:'str'"}],
      returns="int",
      ensures=[],       # per variant, below
      variant_ensures=[norm_post_int, norm_post_str],
      raises={PLVE: {"variant_ensures": [
          [("C12", "rejected_only_if_invalid", "not valid_piece_length_arg(old(piece_length))")],
          [("C12", "rejected_only_if_invalid",
            "not (ascii_decimal(old(piece_length)) and valid_piece_length_arg(int_value(old(piece_length))))")],
      ]}},
      raises_props=["C12"],
      replay="pure",
      notes="accept iff valid (strongest reading the repaired code satisfies); exponents 26..29 free; "
            "for non-ASCII numerals only 'no other exception' and 'accepted only if it denotes a valid value' are required")

    C("torrentfile.utils.get_piece_length",
      props=["C12"],
      params={"size": "int"},
      requires=["size >= 0"],
      returns="int",
      ensures=[("C12", "auto_choice", "result == auto_piece_length(size)"),
               ("C12", "range_pow2", "is_pow2(result) and 16384 <= result <= 16777216")],
      loops={0: {"invariant": [("inv_range", "14 <= exp <= 24"),
                               ("inv_prev_failed", "exp == 14 or size > 1000 * pow2(exp - 1)")],
                 "decreases": "24 - exp"}},
      replay="pure",
      notes="float: size / 2**exp > 1000 is read over exact rationals (q > 1000 implies q >= 1000 + 2^-24, "
            "representable, so rounding cannot cross 1000; valid for size < 2^1000)")


def register_more(reg):
    C = reg.contract
    # Memo.__call__ (C09): the result is the function evaluated NOW -- nothing cached may be returned
    C("torrentfile.utils.Memo.__call__",
      props=["C09", "C01", "C15", "C08"],
      params={"self": {"cls": "torrentfile.utils.Memo", "fields": {"func": "any", "counter": "int", "cache": "dict"}}, "path": "str"},
      returns="any",
      setup=_memo_setup,
      ensures=[(["C09", "C01", "C15", "C08"], "result_is_function_evaluated_now", "result == memo_func_now(path)")],
      raises={"BaseException": {}},
      notes="self.func is an opaque callable with the ghost value memo_func_now(path) = func(path) in the current file-system "
            "state; self.cache is arbitrary (havocked history)")

    C("torrentfile.utils.path_size", props=["C12"], params={"path": "any"}, returns="int",
      ensures=[("C12", "nonneg", "result >= 0")], raises={"torrentfile.utils.MissingPathError": {}},
      notes="filelist_total's first component is a sum of file sizes (assumed >= 0 through its contract)")
    C("torrentfile.utils.path_piece_length", props=["C12"], params={"path": "any"}, returns="int",
      ensures=[("C12", "auto_choice_range", "is_pow2(result) and 16384 <= result <= 16777216")],
      raises={"torrentfile.utils.MissingPathError": {}})
    def _ft_post(p, bound, result):
        # ghost: remember what the listing returned so that callers' clauses can refer to it (listed_files(), listed_total())
        p.ghost["listed_total"], p.ghost["listed_files"] = result.items[0], result.items[1]
        # every listed path is a regular file (no concurrent modification while creating): instantiated on element access
        import z3
        from pyvc.values import PV
        from pyvc import fsmodel
        fs = fsmodel.fs_of(p)
        h = p.heap[result.items[1].rid]
        X = h.seq
        h.tag["elem_fact"] = lambda i, X=X, kind=fs.kind: z3.And(PV.is_PStr(X[i]), z3.Select(kind, PV.sval(X[i])) == 1)

    WALK_ENS = [
        (["C01", "C15"], "lists_exactly_the_regular_files_at_or_below_the_path",
         "with_lemma(under_unfold(path_str({P}), f), (f in result[1]) == file_under(path_str({P}), f))"),
        (["C01", "C15"], "every_listed_path_is_a_regular_file", "implies(f in result[1], fs_isfile(f))"),
        (["C01", "C15"], "total_is_the_sum_of_their_sizes",
         "with_lemma(size_unfold(path_str({P})), result[0] == size_under(path_str({P})))"),
    ]

    def walk_ens(P):
        return [(p_, l_, e_.replace("{P}", P)) for p_, l_, e_ in WALK_ENS]

    C("torrentfile.utils.filelist_total", props=[], params={"pathstring": "any"}, returns="tuple[nat,list[str]]",
      spec_only=True,
      post_hook=_ft_post,
      ghost={"f": "str"},
      ensures=["implies(fs_isfile(pathstring), len(result[1]) == 1 and result[1][0] == as_str(pathstring) "
               "and result[0] == len(fs_data(pathstring)))"] + walk_ens("pathstring"),
      raises={"torrentfile.utils.MissingPathError": {}},
      notes="filelist_total = Memo(_filelist_total): Memo.__call__ is proved to return the wrapped function evaluated now, and "
            "_filelist_total is proved below against the same clauses (its recursive calls use this contract: induction over the "
            "directory tree); what stays assumed here is only that the two compose")

    C("torrentfile.utils._filelist_total",
      props=["C01", "C15", "C08"],
      params={"path": {"cls": "Path", "fields": {"pathstr": "str"}}},
      returns="tuple[int,list[str]]",
      ghost={"f": "str"},
      fs_modifies=[],
      ensures=walk_ens("path"),
      raises={"torrentfile.utils.MissingPathError": {}},
      loops={0: {"index": "_i0",
                 "lemmas_after_body": ["under_step(entries(path), _i0 - 1, f)", "size_step(entries(path), _i0 - 1)",
                                       "under_step(entries(path), _i0, f)", "size_step(entries(path), _i0)"],
                 "invariant": [
                     ("total_so_far", "total == size_under_first(entries(path), _i0)"),
                     ("listed_so_far", "(f in filelist) == file_under_any(entries(path), _i0, f)"),
                     ("only_regular_files", "implies(f in filelist, fs_isfile(f))"),
                 ]}},
      notes="the recursive directory walk behind every v1 creation, for every finite directory tree: the list returned is exactly the "
            "set of regular files at or below the path (file_under, defined by the same recursion over directory entries) and the total "
            "is the sum of their sizes.  Termination, order and absence of duplicates are not part of this contract (sortedness comes "
            "from sorted(); bounded harness)")


def _memo_setup(p, env):
    import z3
    from pyvc.values import VBox, PV, S
    f = p.engine.uf("memo_func_now", S, PV)
    p.ghost["opaque_callable"] = lambda path, args: VBox(f(args[0].t))


def register_pow2(reg):
    C = reg.contract
    C("torrentfile.utils.next_power_2",
      props=["C02", "C10"],
      params={"value": "int"},
      requires=["0 <= value"],
      returns="int",
      replay="pure",
      ensures=[("C02", "is_power_of_two", "is_pow2(result)"),
               ("C02", "not_below_value", "result >= value"),
               ("C02", "is_the_next_one", "implies(value >= 1, result < 2 * value)"),
               ("C02", "zero_gives_one", "implies(value == 0, result == 1)")],
      loops={0: {"invariant": [("start_pow2", "is_pow2(start)"), ("start_bound", "start >= 1 and (start == 1 or start < 2 * value)")],
                 "decreases": "value - start"}},
      notes="x & (x-1) handled by lemma L1; the smallest power of two >= value (1 for 0)")


def register_copypath(reg):
    C = reg.contract
    C("torrentfile.utils.copypath",
      props=["C14", "C19", "C13"],
      params={"source": "str", "dest": "str"},
      ghost={"q": "str"},
      requires=["source != dest", ("env", "not fs_isdir(dest)"),
                # Path(dest).parts: every proper prefix of the component sequence names an ancestor directory, never dest itself
                ("env", "first_part(dest) != dest")],
      fs_modifies=["_path == dest and _kind == 'copy'", "_kind == 'mkdir'"],
      fs_props=["C14", "C19"],
      ensures=[
          ("C14", "source_untouched", "fs_same(source)"),
          ("C14", "full_length_destination_untouched",
           "implies(fs_exists0(dest) and fs_exists0(source) and fs_size0(source) <= fs_size0(dest), fs_same(dest) and fs_same(q))"),
          ("C14", "only_new_directories_and_dest_change",
           "implies(q != dest, fs_same(q) or (not fs_exists0(q) and fs_isdir(q)))"),
          (["C14", "C13"], "dest_is_a_byte_identical_copy_when_copied",
           "fs_same(dest) or (fs_isfile(dest) and fs_data(dest) == fs_data0(source))"),
      ],
      loops={0: {"invariant": [("only_dirs_created", "implies(q != dest, fs_same(q) or (not fs_exists0(q) and fs_isdir(q)))"),
                               ("source_untouched_so_far", "fs_same(source)"),
                               ("dest_not_turned_into_a_directory", "not fs_isdir(dest)")],
                 "assume_in_body": ["pathjoin(root, part) != dest"],
                 "modifies": []}},
      raises={"FileExistsError": {}, "FileNotFoundError": {}, "OSError": {}},
      notes="os.mkdir only ever creates an absent directory (never alters an existing entry); shutil.copy writes dest only")
