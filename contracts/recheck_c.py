"""Sidecar contracts for torrentfile/recheck.py."""

PADDER = {"cls": "torrentfile.recheck.HashChecker.Padder", "fields": {"length": "int", "piece_length": "int", "pad": "bytes"}}


def register(reg):
    C = reg.contract

    # ------------------------------------------------------------------ Padder.__next__  (C04 / C16: absent data = zeros)
    C("torrentfile.recheck.HashChecker.Padder.__next__",
      props=["C04", "C16"],
      params={"self": PADDER},
      requires=["self.length >= 0", "self.piece_length > 0", "self.pad == sha256(zeros(self.piece_length))"],
      returns="bytes",
      ensures=[
          (["C16"], "hash_of_zero_piece_of_the_remaining_size",
           "result == sha256(zeros(min(old(self.length), self.piece_length)))"),
          (["C16"], "length_decreases_by_one_piece", "self.length == old(self.length) - min(old(self.length), self.piece_length)"),
          (["C16"], "only_while_bytes_remain", "old(self.length) > 0"),
      ],
      raises={"StopIteration": {"ensures": [(["C16"], "stops_exactly_when_exhausted", "self.length == 0 and old(self.length) == 0")]}},
      raises_props=["C16"])

    # ------------------------------------------------------------------ HashChecker.advance
    HC = {"cls": "torrentfile.recheck.HashChecker", "fields": {"count": "int", "length": "int", "piece_length": "int", "pieces": "bytes"}}
    C("torrentfile.recheck.HashChecker.advance",
      props=["C04", "C16"],
      params={"self": HC},
      requires=["self.count >= 0", "self.length >= 0", "self.piece_length > 0"],
      returns="tuple[bytes,int]",
      ensures=[
          (["C16"], "recorded_hash_of_this_piece", "result[0] == old(self.pieces)[32 * old(self.count):32 * old(self.count) + 32]"),
          (["C16"], "size_is_the_pieces_share_of_the_file", "result[1] == min(old(self.length), self.piece_length)"),
          (["C16"], "state_advances_by_one_piece",
           "self.count == old(self.count) + 1 and self.length == old(self.length) - result[1] and self.pieces == old(self.pieces)"),
      ])

    # ------------------------------------------------------------------ Checker.iter_hashes  (C04 / C16 arithmetic core)
    CK = {"cls": "torrentfile.recheck.Checker", "fields": {"total": "int", "meta_version": "int", "last_log": "any", "_result": "any"}}
    C("torrentfile.recheck.Checker.iter_hashes",
      props=["C04", "C16", "C05"],
      params={"self": CK},
      ghost={"j": "int", "sigma": "list"},
      requires=["self.total > 0", ("env", "tuples_wellformed(sigma, j)")],
      loops={0: {"over": "sigma", "index": "_i0",
                 "invariant": [
                     ("sums", "matched == match_sum(sigma, _i0) and consumed == size_sum(sigma, _i0)"),
                     ("bounds", "0 <= matched <= consumed"),
                     ("a_failed_piece_keeps_matched_below_consumed",
                      "implies(0 <= j < _i0 and tuple_size(sigma, j) > 0 and not tuple_matches(sigma, j), matched < consumed)"),
                 ]}},
      ensures=[
          (["C16"], "result_is_share_of_bytes_in_matching_pieces",
           "implies(size_sum(sigma, len(sigma)) > 0, self._result == match_sum(sigma, len(sigma)) / size_sum(sigma, len(sigma)) * 100)"),
          (["C04"], "any_failed_nonempty_piece_gives_less_than_100",
           "implies(0 <= j < len(sigma) and tuple_size(sigma, j) > 0 and not tuple_matches(sigma, j), self._result < 100)"),
          (["C05"], "all_pieces_matching_gives_exactly_100",
           "implies(size_sum(sigma, len(sigma)) > 0 and match_sum(sigma, len(sigma)) == size_sum(sigma, len(sigma)), self._result == 100)"),
          (["C04"], "nothing_consumed_is_not_100", "implies(size_sum(sigma, len(sigma)) == 0, self._result == 0)"),
      ],
      raises={"ZeroDivisionError": {}},
      notes="a leading run of zero-size tuples makes the progress log divide by zero (an exception, not a report of 100%); "
            "sigma is the ghost sequence of (chunk, piece, path, size) tuples the piece checker yields (the coverage clause, decided "
            "by the HashChecker / FeedChecker contracts and the bounded harness, says what sigma is); matched / consumed * 100 is read "
            "over exact rationals (float side lemma: DESIGN 3.3-2, hand argument)")
