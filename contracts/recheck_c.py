"""Sidecar contracts for torrentfile/recheck.py."""

PADDER = {"cls": "torrentfile.recheck.HashChecker.Padder", "fields": {"length": "int", "piece_length": "int", "pad": "bytes"}}


def register(reg):
    register_hashchecker(reg)
    register_hashchecker_next(reg)
    register_hashchecker_iter(reg)
    register_find_root(reg)
    C = reg.contract

    # ------------------------------------------------------------------ Padder.__next__  (C04 / C16: absent data = zeros)
    C("torrentfile.recheck.HashChecker.Padder.__next__",
      props=["C04", "C16"],
      params={"self": PADDER},
      requires=["self.length >= 0", "self.piece_length > 0", "self.pad == sha256(zeros(self.piece_length))"],
      returns="bytes",
      modifies=["self.length"],
      ensures=[
          (["C16"], "hash_of_zero_piece_of_the_remaining_size",
           "result == sha256(zeros(min(old(self.length), self.piece_length)))"),
          (["C16"], "length_decreases_by_one_piece", "self.length == old(self.length) - min(old(self.length), self.piece_length)"),
          (["C16"], "only_while_bytes_remain", "old(self.length) > 0"),
      ],
      raises={"StopIteration": {"ensures": [(["C16"], "stops_exactly_when_exhausted", "self.length == 0 and old(self.length) == 0")]}},
      raises_props=["C16"])

    # ------------------------------------------------------------------ HashChecker.advance
    HC = {"cls": "torrentfile.recheck.HashChecker", "fields": {"count": "int", "length": "int", "piece_length": "int", "pieces": "bytes"}}
    C("torrentfile.recheck.HashChecker.advance",
      props=["C04", "C16"],
      params={"self": HC},
      requires=["self.count >= 0", "self.length >= 0", "self.piece_length > 0"],
      returns="tuple[bytes,int]",
      modifies=["self.count", "self.length"],
      ensures=[
          (["C16"], "recorded_hash_of_this_piece", "result[0] == old(self.pieces)[32 * old(self.count):32 * old(self.count) + 32]"),
          (["C16"], "size_is_the_pieces_share_of_the_file", "result[1] == min(old(self.length), self.piece_length)"),
          (["C16"], "state_advances_by_one_piece",
           "self.count == old(self.count) + 1 and self.length == old(self.length) - result[1] and self.pieces == old(self.pieces)"),
      ])

    # ------------------------------------------------------------------ Checker.iter_hashes  (C04 / C16 arithmetic core)
    CK = {"cls": "torrentfile.recheck.Checker", "fields": {"total": "int", "meta_version": "int", "last_log": "any", "_result": "any"}}
    C("torrentfile.recheck.Checker.iter_hashes",
      props=["C04", "C16", "C05"],
      params={"self": CK},
      ghost={"j": "int", "sigma": "list"},
      requires=["self.total > 0", ("env", "tuples_wellformed(sigma, j)")],
      loops={0: {"over": "sigma", "index": "_i0",
                 "invariant": [
                     ("sums", "matched == match_sum(sigma, _i0) and consumed == size_sum(sigma, _i0)"),
                     ("bounds", "0 <= matched <= consumed"),
                     ("a_failed_piece_keeps_matched_below_consumed",
                      "implies(0 <= j < _i0 and tuple_size(sigma, j) > 0 and not tuple_matches(sigma, j), matched < consumed)"),
                 ]}},
      ensures=[
          (["C16"], "result_is_share_of_bytes_in_matching_pieces",
           "implies(size_sum(sigma, len(sigma)) > 0, self._result == match_sum(sigma, len(sigma)) / size_sum(sigma, len(sigma)) * 100)"),
          (["C04"], "any_failed_nonempty_piece_gives_less_than_100",
           "implies(0 <= j < len(sigma) and tuple_size(sigma, j) > 0 and not tuple_matches(sigma, j), self._result < 100)"),
          (["C05"], "all_pieces_matching_gives_exactly_100",
           "implies(size_sum(sigma, len(sigma)) > 0 and match_sum(sigma, len(sigma)) == size_sum(sigma, len(sigma)), self._result == 100)"),
          (["C04"], "nothing_consumed_is_not_100", "implies(size_sum(sigma, len(sigma)) == 0, self._result == 0)"),
      ],
      raises={"ZeroDivisionError": {}},
      notes="a leading run of zero-size tuples makes the progress log divide by zero (an exception, not a report of 100%); "
            "sigma is the ghost sequence of (chunk, piece, path, size) tuples the piece checker yields (the coverage clause, decided "
            "by the HashChecker / FeedChecker contracts and the bounded harness, says what sigma is); matched / consumed * 100 is read "
            "over exact rationals (float side lemma: DESIGN 3.3-2, hand argument)")


from contracts.hasher_c import FH        # noqa: E402  (FileHasher object shape)

HC_FIELDS = {"count": "int", "length": "int", "piece_length": "int", "pieces": "bytes", "current": "str", "index": "int",
             "paths": "list[str]", "fileinfo": "dict", "piece_layers": "dict", "root_hash": "any"}


FH_WF = ["self.hasher.piece_length == self.piece_length", "self.hasher.amount * 16384 == self.piece_length",
         "self.hasher.amount >= 1 and is_pow2(self.hasher.amount)", "file_open(self.hasher.current) or self.hasher.end",
         "not self.hasher.hybrid"]
PAD_WF = ["self.hasher.piece_length == self.piece_length", "self.hasher.length == self.length",
          "self.hasher.pad == sha256(zeros(self.piece_length))"]


def register_hashchecker(reg):
    C = reg.contract
    hc_file = {"cls": "torrentfile.recheck.HashChecker", "fields": dict(HC_FIELDS, hasher=FH)}
    hc_pad = {"cls": "torrentfile.recheck.HashChecker", "fields": dict(HC_FIELDS, hasher=PADDER)}
    C("torrentfile.recheck.HashChecker.process_current",
      props=["C04", "C05", "C16"],
      params={"self": hc_file},
      variants=[{"self": hc_file, "_v": "const:'file on disk'"}, {"self": hc_pad, "_v": "const:'file absent'"}],
      requires=["self.piece_length >= 16384 and is_pow2(self.piece_length)", "self.count >= 0 and self.length >= 0"],
      variant_requires=[FH_WF, PAD_WF],
      modifies=["self.count", "self.length", "self.hasher"],
      shapes_out={"self.hasher": [{"variants": [0], "type": FH, "wf": FH_WF},
                                  {"variants": [0], "type": PADDER, "wf": PAD_WF},
                                  {"variants": [1], "type": PADDER, "wf": PAD_WF}]},
      returns="tuple[any,bytes,str,int]",
      ensures=[
          (["C16", "C04"], "one_tuple_for_the_next_piece_of_the_current_file",
           "result[1] == old(self.pieces)[32 * old(self.count):32 * old(self.count) + 32] and result[2] == self.current and "
           "result[3] == min(old(self.length), self.piece_length) and self.count == old(self.count) + 1 and "
           "self.length == old(self.length) - result[3]"),
      ],
      variant_ensures=[
          [(["C16"], "absent_tail_of_a_present_file_is_hashed_as_zeros_of_the_piece_size",
            "True")],
          [(["C16", "C04"], "absent_file_is_hashed_as_zeros_of_the_piece_size",
            "result[0] == sha256(zeros(min(old(self.length), self.piece_length))) and self.hasher.length == self.length")],
      ],
      raises={"StopIteration": {"ensures": [
          (["C04", "C16"], "stops_only_when_every_recorded_piece_of_the_file_was_reported",
           "old(self.length) == 0 or old(self.count) * 32 >= len(old(self.pieces))")]}},
      raises_props=["C04"],
      notes="the two variants are the two hasher kinds next_file installs (FileHasher on an existing path, Padder otherwise)")


def register_hashchecker_next(reg):
    C = reg.contract
    HCX = {"cls": "torrentfile.recheck.HashChecker",
           "fields": dict(HC_FIELDS, current="any", hasher="any", length="any", count="any", pieces="any", root_hash="any")}
    C("torrentfile.recheck.HashChecker.next_file",
      props=["C04", "C05", "C16"],
      params={"self": HCX},
      requires=["self.index >= -1", "self.piece_length >= 16384 and is_pow2(self.piece_length)",
                "implies(is_none(self.current), self.index == -1)",
                ("env", "fileinfo_wellformed(self.fileinfo, self.index + 1, self.piece_layers, self.piece_length)"),
                ("env", "path_is_str(self.paths, self.index + 1)")],
      returns="bool",
      modifies=["self.index", "self.current", "self.length", "self.root_hash", "self.pieces", "self.count", "self.hasher"],
      shapes_out={"self.hasher": [{"when": "result and fs_exists(self.paths[self.index])", "type": FH, "wf": FH_WF},
                                  {"when": "result and not fs_exists(self.paths[self.index])", "type": PADDER, "wf": PAD_WF},
                                  {"when": "not result", "type": None}]},
      ensures=[
          (["C04", "C16"], "moves_to_the_next_listed_file", "self.index == old(self.index) + 1"),
          (["C04", "C16"], "true_iff_there_is_one",
           "result == (is_none(old(self.current)) or old(self.index) + 1 < len(self.paths))"),
          (["C04", "C16"], "recorded_hashes_in_spec_form",
           "implies(result, self.pieces == recorded_hashes(self.fileinfo, self.piece_layers, self.index, self.piece_length))"),
          (["C04", "C16"], "the_file_moved_to_is_a_listed_one",
           "implies(result, 0 <= self.index < len(self.paths) and (self.index in self.fileinfo) and "
           "self.length == recorded_length(self.fileinfo, self.index))"),
          (["C16", "C05"], "takes_length_and_recorded_hashes_of_that_file",
           "implies(result, self.current == self.paths[self.index] and self.length == self.fileinfo[self.index]['length'] and "
           "self.count == 0 and self.pieces == (self.piece_layers[self.fileinfo[self.index]['pieces root']] "
           "if self.length > self.piece_length else self.fileinfo[self.index]['pieces root']))"),
      ],
      raises={"IndexError": {"ensures": [("C04", "only_when_called_on_an_empty_path_list", "len(self.paths) == 0")]},
              "KeyError": {}, "IsADirectoryError": {}},
      notes="the hasher installed is FileHasher(path) when the path exists and Padder(length) otherwise (exercised natively; "
            "object construction is not part of this contract)")


RECORDED = "recorded_hashes(self.fileinfo, self.piece_layers, self.index, self.piece_length)"


def register_hashchecker_iter(reg):
    C = reg.contract
    base = dict(HC_FIELDS, current="any", pieces="any", root_hash="any")
    hc_fresh = {"cls": "torrentfile.recheck.HashChecker", "fields": dict(base, hasher="any")}
    hc_file = {"cls": "torrentfile.recheck.HashChecker", "fields": dict(base, hasher=FH)}
    hc_pad = {"cls": "torrentfile.recheck.HashChecker", "fields": dict(base, hasher=PADDER)}
    MID = ["0 <= self.index < len(self.paths)", "self.current == self.paths[self.index]", "self.count >= 0 and self.length >= 0",
           f"self.pieces == {RECORDED}"]
    NOTHING_LEFT = "(recorded_length(self.fileinfo, i) == 0 or len(recorded_hashes(self.fileinfo, self.piece_layers, i, self.piece_length)) == 0)"
    ENTRY_DONE = "(old(self.length) == 0 or old(self.count) * 32 >= len(old(self.pieces)))"
    C("torrentfile.recheck.HashChecker.__next__",
      props=["C04", "C05", "C16"],
      params={"self": hc_fresh},
      variants=[{"self": hc_fresh, "_v": "const:'first call'"}, {"self": hc_file, "_v": "const:'file on disk'"},
                {"self": hc_pad, "_v": "const:'file absent'"}],
      shards=3, shard_by="variant", fork_checks=True,
      ghost={"i": "int"},
      requires=["self.piece_length >= 16384 and is_pow2(self.piece_length)"],
      variant_requires=[["is_none(self.current)", "self.index == -1"], MID + FH_WF, MID + PAD_WF],
      modifies=["self.index", "self.current", "self.length", "self.root_hash", "self.pieces", "self.count", "self.hasher"],
      returns="tuple[any,bytes,str,int]",
      ensures=[
          (["C04", "C16"], "reports_a_piece_of_a_listed_file_not_before_the_current_one",
           "max(old(self.index), 0) <= self.index < len(self.paths) and result[2] == self.paths[self.index]"),
          (["C04", "C16"], "the_piece_reported_is_the_next_unreported_piece_of_that_file",
           f"self.count >= 1 and result[1] == {RECORDED}[32 * (self.count - 1):32 * self.count] and "
           "result[3] == min(self.length + result[3], self.piece_length) and self.length >= 0"),
          (["C04", "C16"], "same_file_continues_with_its_next_piece",
           "implies(self.index == old(self.index), self.count == old(self.count) + 1 and self.length == old(self.length) - result[3])"),
          (["C04", "C16"], "a_new_file_starts_with_its_first_piece",
           "implies(self.index != old(self.index), self.count == 1 and self.length == recorded_length(self.fileinfo, self.index) - result[3])"),
          (["C04", "C16"], "the_file_left_behind_had_nothing_left_to_report",
           f"implies(self.index != old(self.index) and old(self.index) >= 0, {ENTRY_DONE})"),
          (["C04", "C16"], "files_passed_over_had_nothing_to_report",
           f"implies(old(self.index) < i < self.index, {NOTHING_LEFT})"),
      ],
      raises={"StopIteration": {"ensures": [
          (["C04", "C16"], "stops_only_when_every_listed_file_was_gone_through",
           f"self.index >= len(self.paths) and implies(old(self.index) >= 0, {ENTRY_DONE}) and "
           f"implies(old(self.index) < i < len(self.paths), {NOTHING_LEFT})")]},
          "IndexError": {"ensures": [("C04", "only_for_an_empty_path_list", "len(self.paths) == 0")]},
          "KeyError": {}, "IsADirectoryError": {}},
      raises_props=["C04"],
      loops={0: {"capture": {"idx0": "self.index"},
                 "modifies": ["self.index", "self.current", "self.length", "self.root_hash", "self.pieces", "self.count", "self.hasher"],
                 "shapes": {"self.hasher": [{"type": FH, "wf": FH_WF}, {"type": PADDER, "wf": PAD_WF}]},
                 "invariant": [(f"mid{j}", m) for j, m in enumerate(MID)] + [
                     ("not_before_the_entry_file", "self.index >= max(old(self.index), 0)"),
                     ("entry_file_untouched_or_done",
                      f"(self.index == old(self.index) and self.count == old(self.count) and self.length == old(self.length)) or "
                      f"(self.index > old(self.index) and self.count == 0 and self.length == recorded_length(self.fileinfo, self.index) and "
                      f"implies(old(self.index) >= 0, {ENTRY_DONE}))"),
                     ("files_passed_over_had_nothing_to_report", f"implies(old(self.index) < i < self.index, {NOTHING_LEFT})"),
                 ],
                 "decreases": "len(self.paths) - self.index"}},
      notes="per call: the tuple returned is the next unreported piece in (file, piece) order -- nothing is skipped except files with "
            "nothing to report, and iteration stops only after the last listed file; coverage of the whole payload follows by "
            "induction over the calls (hand argument).  Composition of the next_file / process_current contracts; the hasher object "
            "is FileHasher or Padder (shape clauses)")


def register_find_root(reg):
    C = reg.contract
    CK = {"cls": "torrentfile.recheck.Checker", "fields": {"info": "dict", "name": "str"}}
    SINGLE = "('length' in self.info)"
    ROOT = f"(basename(path) == self.name and ((not {SINGLE} and fs_isdir(path)) or fs_isfile(path)))"
    C("torrentfile.recheck.Checker.find_root",
      props=["C05", "C16", "C04"],
      params={"self": CK, "path": "str"},
      returns="any",
      fs_modifies=[],
      ensures=[
          (["C05", "C16"], "the_payload_root_itself_is_taken_as_it_is",
           f"implies({ROOT}, path_str(result) == path)"),
          (["C05", "C16"], "a_parent_directory_resolves_to_the_entry_named_like_the_torrent",
           f"implies(fs_isdir(path) and not {ROOT}, path_str(result) == pathjoin(path, self.name) and fs_exists(pathjoin(path, self.name)))"),
          (["C05", "C16"], "what_is_returned_exists", "fs_exists(path_str(result))"),
      ],
      raises={"FileNotFoundError": {"ensures": [
          (["C05"], "only_when_the_content_is_in_neither_place",
           f"not fs_exists(path) or (not {ROOT} and not (fs_isdir(path) and fs_exists(pathjoin(path, self.name))))")]},
          "NotADirectoryError": {"ensures": [(["C05"], "only_for_a_file_that_is_not_the_payload", f"fs_isfile(path) and not {ROOT}")]}},
      raises_props=["C05"],
      notes="content path = payload root or its parent: the root is recognised by its name (a directory for multi-file torrents, a file "
            "for single-file ones, incl. BEP 52 single files without info.length); otherwise the entry named like the torrent inside the "
            "given directory is taken.  A multi-file payload inside a parent that carries the payload's own name is indistinguishable from "
            "the root by name (known finding C05:content-path:parent-named-like-payload:dir)")
