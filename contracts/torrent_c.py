"""Sidecar contracts for torrentfile/torrent.py."""


def register(reg):
    C = reg.contract

    # ------------------------------------------------------------------ C06: sort_meta
    C("torrentfile.torrent.MetaFile.sort_meta",
      props=["C06"],
      params={"self": {"cls": "torrentfile.torrent.MetaFile", "fields": {"meta": "dict"}}},
      ghost={"k": "str"},
      requires=["('info' in self.meta) and is_dict(self.meta['info'])",
                "implies('piece layers' in self.meta, is_dict(self.meta['piece layers']))"],
      returns="dict",
      merge_ifs=True,
      ensures=[
          ("C06", "top_keys_sorted", "keys_ascending(result)"),
          ("C06", "info_keys_sorted", "('info' in result) and keys_ascending(result['info'])"),
          ("C06", "piece_layers_keys_sorted", "implies('piece layers' in result, keys_ascending(result['piece layers']))"),
          ("C06", "same_top_level_mapping",
           "implies(k != 'info' and k != 'piece layers', same_entry(result, old(self.meta), k))"),
          ("C06", "same_info_mapping", "same_entry(result['info'], old(self.meta)['info'], k)"),
          ("C06", "same_piece_layers_mapping",
           "('piece layers' in result) == ('piece layers' in old(self.meta)) and "
           "implies('piece layers' in result, same_entry(result['piece layers'], old(self.meta)['piece layers'], k))"),
      ])

    # ------------------------------------------------------------------ C06 / C18: write
    C("torrentfile.torrent.MetaFile.write",
      props=["C06", "C18"],
      params={"self": {"cls": "torrentfile.torrent.MetaFile", "fields": {"meta": "dict", "outfile": "any", "name": "str"}},
              "outfile": "any"},
      variants=[{"outfile": "none"}, {"outfile": "str"}],
      requires=["('info' in self.meta) and is_dict(self.meta['info'])",
                "implies('piece layers' in self.meta, is_dict(self.meta['piece layers']))",
                "self.outfile is None or is_str(self.outfile)"],
      fs_modifies=["_path == self.outfile"],
      fs_props=["C18"],
      ensures=[
          ("C06", "dumped_top_keys_sorted", "keys_ascending(dumped())"),
          ("C06", "dumped_info_keys_sorted", "keys_ascending(dumped()['info'])"),
          ("C06", "dumped_piece_layers_sorted", "implies('piece layers' in dumped(), keys_ascending(dumped()['piece layers']))"),
          (["C06", "C18"], "file_is_encoding_of_dumped", "fs_data(self.outfile) == benc(dumped())"),
      ],
      raises={"BaseException": {}},
      notes="write() hands pyben.dump exactly the dictionary sort_meta returned; the only path written is self.outfile")
