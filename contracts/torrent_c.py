"""Sidecar contracts for torrentfile/torrent.py."""


from contracts.hasher_c import FH, HV2, HHY      # noqa: E402  (hasher object shapes)


def register(reg):
    register_init(reg)
    register_assemble(reg)
    register_traverse(reg)
    register_traverse_v2(reg)
    register_assemble_v2(reg)
    C = reg.contract

    # ------------------------------------------------------------------ C06: sort_meta
    C("torrentfile.torrent.MetaFile.sort_meta",
      props=["C06"],
      params={"self": {"cls": "torrentfile.torrent.MetaFile", "fields": {"meta": "dict"}}},
      ghost={"k": "str"},
      requires=["('info' in self.meta) and is_dict(self.meta['info'])",
                "implies('piece layers' in self.meta, is_dict(self.meta['piece layers']))"],
      returns="dict",
      merge_ifs=True,
      ensures=[
          ("C06", "top_keys_sorted", "keys_ascending(result)"),
          ("C06", "info_keys_sorted", "('info' in result) and keys_ascending(result['info'])"),
          ("C06", "piece_layers_keys_sorted", "implies('piece layers' in result, keys_ascending(result['piece layers']))"),
          ("C06", "same_top_level_mapping",
           "implies(k != 'info' and k != 'piece layers', same_entry(result, old(self.meta), k))"),
          ("C06", "same_info_mapping", "same_entry(result['info'], old(self.meta)['info'], k)"),
          ("C06", "same_piece_layers_mapping",
           "('piece layers' in result) == ('piece layers' in old(self.meta)) and "
           "implies('piece layers' in result, same_entry(result['piece layers'], old(self.meta)['piece layers'], k))"),
      ])

    # ------------------------------------------------------------------ C06 / C18: write
    C("torrentfile.torrent.MetaFile.write",
      props=["C06", "C18"],
      params={"self": {"cls": "torrentfile.torrent.MetaFile", "fields": {"meta": "dict", "outfile": "any", "name": "str"}},
              "outfile": "any"},
      variants=[{"outfile": "none"}, {"outfile": "str"}],
      requires=["('info' in self.meta) and is_dict(self.meta['info'])",
                "implies('piece layers' in self.meta, is_dict(self.meta['piece layers']))",
                "self.outfile is None or is_str(self.outfile)"],
      fs_modifies=["_path == self.outfile"],
      fs_props=["C18"],
      returns="tuple[str,dict]",
      ensures=[
          ("C06", "dumped_top_keys_sorted", "keys_ascending(dumped())"),
          ("C06", "dumped_info_keys_sorted", "keys_ascending(dumped()['info'])"),
          ("C06", "dumped_piece_layers_sorted", "implies('piece layers' in dumped(), keys_ascending(dumped()['piece layers']))"),
          (["C06", "C18"], "file_is_encoding_of_dumped", "fs_isfile(self.outfile) and fs_data(self.outfile) == benc(dumped())"),
          (["C18"], "returns_the_path_written", "result[0] == self.outfile"),
      ],
      raises={"BaseException": {}},
      notes="write() hands pyben.dump exactly the dictionary sort_meta returned; the only path written is self.outfile")


def register_init(reg):
    C = reg.contract
    M = "self.meta"
    INFO = "self.meta['info']"
    # effective values after the documented path recovery (C20: a list-valued flag placed before the positional content
    # path swallows it; MetaFile takes it back from the end of the list)
    PLVE = "torrentfile.utils.PieceLengthValueError"
    C("torrentfile.torrent.MetaFile.__init__",
      props=["C20", "C08", "C12"],
      params={"self": {"cls": "torrentfile.torrent.MetaFile", "fields": {}},
              "path": "any", "announce": "any", "comment": "any", "align": "any", "piece_length": "any", "private": "any",
              "outfile": "any", "source": "any", "progress": "any", "cwd": "any", "httpseeds": "any", "url_list": "any",
              "content": "any", "meta_version": "any"},
      ghost={"k": "str"},
      merge_ifs=True,
      requires=[
          "is_none(path) or is_str(path)", "is_none(content) or is_str(content)",
          "is_none(announce) or is_str(announce) or is_list(announce)",
          "implies(is_list(announce) and truthy(announce), is_str(first(announce)))",
          "is_none(url_list) or is_list(url_list)", "is_none(httpseeds) or is_list(httpseeds)",
          "is_none(comment) or is_str(comment)", "is_none(source) or is_str(source)",
          "is_bool(private) or is_none(private)",
          "is_none(piece_length) or is_int(piece_length) or is_str(piece_length)",
          "is_int(progress)",
          "truthy(path) or truthy(content)",      # path recovery from list options is exercised by the bounded harness
      ],
      ensures=[
          # ---- C08 / C20: the info dictionary holds exactly name, piece length and the info-level options that were given
          (["C08", "C20"], "info_key_set",
           f"(k in {INFO}) == (k == 'name' or k == 'piece length' or (k == 'comment' and truthy(comment)) "
           f"or (k == 'private' and truthy(private)) or (k == 'source' and truthy(source)))"),
          (["C20"], "info_option_values",
           f"implies(truthy(comment), {INFO}['comment'] == comment) and implies(truthy(source), {INFO}['source'] == source) "
           f"and implies(truthy(private), {INFO}['private'] == 1)"),
          (["C08", "C20"], "name_is_basename_of_resolved_path",
           f"{INFO}['name'] == basename_abspath(content if truthy(content) else path)"),
          # ---- C20: top-level fields
          (["C20", "C08"], "top_level_key_set",
           f"(k in {M}) == (k == 'created by' or k == 'creation date' or k == 'info' "
           f"or ((k == 'announce' or k == 'announce-list') and truthy(announce) and not (is_list(announce) and as_str(first(announce)) == '')) "
           f"or (k == 'url-list' and truthy(url_list)) or (k == 'httpseeds' and truthy(httpseeds)))"),
          (["C20"], "seed_values", f"implies(truthy(url_list), {M}['url-list'] == url_list) and "
                                   f"implies(truthy(httpseeds), {M}['httpseeds'] == httpseeds)"),
          (["C20"], "announce_values",
           f"implies(truthy(announce) and is_str(announce), {M}['announce'] == announce and {M}['announce-list'] == [[announce]]) and "
           f"implies(truthy(announce) and is_list(announce) and as_str(first(announce)) != '', "
           f"{M}['announce'] == first(announce) and {M}['announce-list'] == [announce])"),
          # ---- C12: the recorded piece length
          (["C12"], "explicit_piece_length_recorded_exactly",
           f"implies(is_int(piece_length), {INFO}['piece length'] == (pow2(as_int(piece_length)) if as_int(piece_length) <= 29 "
           f"else as_int(piece_length)) and (valid_piece_length_arg(as_int(piece_length)) or free_piece_length_arg(as_int(piece_length))))"),
          (["C12"], "explicit_numeral_recorded_exactly",
           f"implies(is_str(piece_length) and as_str(piece_length) != '', int_parsable(as_str(piece_length)) and "
           f"{INFO}['piece length'] == (pow2(int_value(as_str(piece_length))) if int_value(as_str(piece_length)) <= 29 "
           f"else int_value(as_str(piece_length))))"),
          (["C12"], "automatic_piece_length_in_range",
           f"implies(is_none(piece_length) or (is_str(piece_length) and as_str(piece_length) == ''), "
           f"is_pow2({INFO}['piece length']) and 16384 <= {INFO}['piece length'] <= 16777216)"),
          (["C12"], "object_piece_length_is_recorded_one", f"self.piece_length == {INFO}['piece length']"),
          (["C20"], "other_options_kept", "self.align == align and self.outfile == outfile and self.meta_version == meta_version "
                                          "and self.path == (content if truthy(content) else path)"),
      ],
      raises={PLVE: {"ensures": [
          (["C12"], "rejected_only_if_invalid",
           "not is_none(piece_length) and not (is_int(piece_length) and valid_piece_length_arg(as_int(piece_length))) and "
           "not (is_str(piece_length) and ascii_decimal(as_str(piece_length)) and valid_piece_length_arg(int_value(as_str(piece_length))))")]},
          "torrentfile.utils.MissingPathError": {}, "ValueError": {}, "IndexError": {}, "TypeError": {}},
      raises_props=["C12"],
      notes="clock, progress, cwd, outfile, announce / seed lists flow only to top-level keys or to object attributes, never into "
            "info (clause info_key_set quantifies over every key)")


def register_assemble(reg):
    C = reg.contract
    REM = "(file_tail(feeder.current) + rest(feeder.paths, feeder.index + 1))"
    REM_A = "(file_tail(feeder.current) + zeros(gap(len(file_tail(feeder.current)), feeder.piece_length)) + rest_aligned(feeder.paths, feeder.index + 1, feeder.piece_length))"
    C("torrentfile.torrent.TorrentFile.assemble",
      props=["C01", "C15"],
      params={"self": {"cls": "torrentfile.torrent.TorrentFile",
                       "fields": {"meta": "dict", "path": "str", "progress": "int", "align": "bool", "piece_length": "int"}}},
      ghost={"j": "int"},
      ghost_flags=["gap_use_mod"],
      requires=["('info' in self.meta) and is_dict(self.meta['info'])", "self.piece_length > 0",
                "not ('files' in self.meta['info']) and not ('length' in self.meta['info'])",
                "('piece length' in self.meta['info']) and is_int(self.meta['info']['piece length']) and "
                "self.meta['info']['piece length'] == self.piece_length"],
      ensures=[
          ("C01", "pieces_are_the_bep3_hashing_of_the_listed_files_cut_with_the_recorded_piece_length",
           "implies(not self.align or fs_isfile(self.path), self.meta['info']['pieces'] == "
           "v1_pieces(rest(listed_files(), 0), as_int(self.meta['info']['piece length'])))"),
          ("C15", "aligned_pieces_hash_the_stream_with_padding_as_zero_bytes",
           "implies(self.align and not fs_isfile(self.path), self.meta['info']['pieces'] == "
           "v1_pieces(rest_aligned(listed_files(), 0, self.piece_length), self.piece_length))"),
          ("C15", "listed_lengths_account_exactly_for_the_hashed_bytes",
           "implies(self.align and not fs_isfile(self.path), sum_lengths(self.meta['info']['files']) == "
           "declared_len(listed_files(), len(listed_files()), self.piece_length))"),
          ("C15", "single_file_is_hashed_as_the_file_alone",
           "implies(fs_isfile(self.path), self.meta['info']['pieces'] == v1_pieces(rest(listed_files(), 0), self.piece_length))"),
          ("C01", "every_listed_file_appears_once_in_order_with_its_exact_length",
           "implies(not fs_isfile(self.path) and not self.align, len(self.meta['info']['files']) == len(listed_files()) and "
           "implies(0 <= j < len(listed_files()), self.meta['info']['files'][j]['length'] == len(data_at(listed_files(), j)) and "
           "self.meta['info']['files'][j]['path'] == relpath_components(listed_files()[j], self.path)))"),
          ("C01", "recorded_piece_length_untouched", "self.meta['info']['piece length'] == old(self.meta['info']['piece length'])"),
          ("C01", "single_file_records_its_exact_length",
           "implies(fs_isfile(self.path), self.meta['info']['length'] == listed_total() and not ('files' in self.meta['info']))"),
      ],
      raises={"torrentfile.utils.MissingPathError": {}, "IndexError": {}},
      loops={0: {"index": "_i0", "invariant": [
                     ("listed_lengths_account_for_the_declared_bytes",
                      "sum_lengths(info['files']) == declared_len(filelist, _i0, self.piece_length)"),
                 ], "modifies": []},
             1: {"protocol": True, "modifies": ["feeder", "pieces"],
                        "let": {"S_head": REM, "A_head": REM_A},
                        "assume_in_body": [f"v1_unfold(S_head, hashed(), {REM}, feeder.piece_length)",
                                           f"v1_unfold(A_head, hashed(), {REM_A}, feeder.piece_length)"],
                        "invariant": [
                            ("pieces_so_far_plus_rest_is_the_whole",
                             f"implies(not feeder.align, pieces + v1_pieces({REM}, feeder.piece_length) == v1_pieces(rest(filelist, 0), self.piece_length))"),
                            ("aligned_pieces_so_far_plus_rest_is_the_whole_declared_stream",
                             f"implies(feeder.align, pieces + v1_pieces({REM_A}, feeder.piece_length) == "
                             "v1_pieces(rest_aligned(filelist, 0, self.piece_length), self.piece_length))"),
                            ("feeder_wf", "feeder.paths == filelist and feeder.piece_length == self.piece_length and feeder.piece_length > 0 "
                                          "and feeder.align == (self.align and not fs_isfile(self.path)) and 0 <= feeder.index and "
                                          "file_open(feeder.current) and implies(feeder.index >= len(feeder.paths), file_at_eof(feeder.current))"),
                        ]}},
      notes="filelist is what utils.filelist_total returns (its contract, C01/C08/C09: every regular file below the path exactly once, "
            "sorted); the hashing loop is verified through the iterator protocol of Hasher")


def _assembler_setup(p, env):
    """self.kws is the keyword dict TorrentAssembler.__init__ builds: exactly these four keys"""
    from pyvc.values import HDict, VInt, VNone
    obj = p.heap[env["self"].rid]
    kws = HDict(over={"progress": VInt(0), "progress_bar": VNone(), "hybrid": obj.fields["hybrid"], "pad": obj.fields["pad_flag"]})
    obj.fields["kws"] = p.alloc(kws)


def register_traverse(reg):
    C = reg.contract
    TA = {"cls": "torrentfile.torrent.TorrentAssembler",
          "fields": {"hybrid": "bool", "pad_flag": "bool", "files": "list", "pieces": "bytearray", "piece_layers": "dict",
                     "piece_length": "int", "path": "str"}}
    LEAF = "result['']"
    ISF = "fs_isfile(path)"
    AM = "(self.piece_length // 16384)"
    NONEMPTY = f"{ISF} and len(fs_data(path)) > 0"
    PRP = "piece_roots(P, hasher.amount)"
    PADDED = ("(hasher.root == mroot(hasher.layer_hashes) and is_pow2(len(hasher.layer_hashes)) and "
              f"len({PRP}) <= len(hasher.layer_hashes) and (len(hasher.layer_hashes) < 2 * len({PRP}) or len(hasher.layer_hashes) == 1) and "
              f"hasher.layer_hashes == cat({PRP}, repeat_digest(mroot(zero_digests(hasher.amount)), len(hasher.layer_hashes) - len({PRP}))))")
    leaf = [
        ("C02", "leaf_records_the_exact_length", f"('' in result) and {LEAF}['length'] == len(fs_data(path))"),
        ("C02", "empty_file_carries_no_root", f"implies(len(fs_data(path)) == 0, not ('pieces root' in {LEAF}))"),
        ("C02", "non_empty_file_carries_the_hashers_root",
         f"implies(len(fs_data(path)) > 0, ('pieces root' in {LEAF}) and {LEAF}['pieces root'] == hasher.root)"),
        ("C02", "the_hasher_works_with_the_blocks_per_piece_of_this_torrent", f"implies(len(fs_data(path)) > 0, hasher.amount == {AM})"),
        # the root of a non-empty file, in four small steps (each later one takes the earlier conclusions as hypotheses; callers
        # get all of them): the iteration consumed the whole file; the hasher's final list is the piece layer of what was consumed,
        # padded; the definition of file_root applies to it; hence the leaf's root is the BEP 52 root of the content
        ("C02", "the_iteration_consumed_the_whole_file", "implies(len(fs_data(path)) > 0, P == fs_data(path))"),
        ("C02", "final_layer_hashes_are_the_padded_piece_layer_of_what_was_consumed",
         "implies(len(fs_data(path)) > 0, " + PADDED + ")"),
        ("C02", "definition_of_file_root_applies",
         "implies(len(fs_data(path)) > 0, implies(" + PADDED + ", with_lemma(file_root_def(P, hasher.amount, hasher.layer_hashes), "
         "hasher.root == file_root(P, hasher.amount))))"),
        ("C02", "pieces_root_is_the_bep52_root_of_the_content",
         "implies(len(fs_data(path)) > 0, implies(P == fs_data(path) and hasher.root == file_root(P, hasher.amount), "
         f"{LEAF}['pieces root'] == file_root(fs_data(path), hasher.amount)))"),
        ("C02", "piece_layers_entry_exactly_for_files_larger_than_a_piece",
         "implies(len(fs_data(path)) > 0, (k in self.piece_layers) == ((k in old(self.piece_layers)) or "
         "(len(fs_data(path)) > self.piece_length and k == hasher.root))) and "
         "implies(len(fs_data(path)) == 0, (k in self.piece_layers) == (k in old(self.piece_layers)))"),
        ("C02", "the_entry_holds_the_collected_layer_hashes",
         "implies(len(fs_data(path)) > self.piece_length, self.piece_layers[hasher.root] == layers)"),
        ("C03", "hybrid_lists_the_file_then_its_padding_entry",
         "implies(self.hybrid, len(self.files) >= len(old(self.files)) + 1 and "
         "self.files[len(old(self.files))]['length'] == len(fs_data(path)) and "
         "self.files[len(old(self.files))]['path'] == relpath_components(path, self.path))"),
        ("C03", "v2_only_leaves_the_v1_list_alone", "implies(not self.hybrid, self.files == old(self.files))"),
    ]
    # the two leaf clauses below take "the leaf's root is the BEP 52 root of the content" as their hypothesis: that is the
    # conclusion of pieces_root_is_the_bep52_root_of_the_content above, so callers (who get every clause) have both
    ROOT_OK = f"result['']['pieces root'] == file_root(fs_data(path), {AM})"
    walk = [
        ("C02", "file_tree_mirrors_the_directory",
         f"implies(not ({NONEMPTY}), with_lemma(tree_unfold(path, {AM}), result == tree_of(path, {AM})))"),
        ("C02", "file_tree_leaf_of_a_non_empty_file",
         f"implies({NONEMPTY} and {ROOT_OK}, with_lemma(tree_unfold(path, {AM}), result == tree_of(path, {AM})))"),
        ("C02", "piece_layers_keys_are_exactly_the_roots_of_the_files_larger_than_a_piece",
         f"implies(not ({NONEMPTY}), with_lemma(layered_unfold(path, k, self.piece_length), "
         "(k in self.piece_layers) == ((k in old(self.piece_layers)) or layered_under(path, k, self.piece_length))))"),
        ("C02", "piece_layers_key_of_a_file_larger_than_a_piece",
         f"implies({NONEMPTY} and {ROOT_OK}, with_lemma(layered_unfold(path, k, self.piece_length), "
         "(k in self.piece_layers) == ((k in old(self.piece_layers)) or layered_under(path, k, self.piece_length))))"),
    ]
    C("torrentfile.torrent.TorrentAssembler._traverse",
      props=["C02", "C03", "C10"],
      params={"self": TA, "path": "str"},
      setup=_assembler_setup,
      modifies=["self.piece_layers", "self.files", "self.pieces"],
      exists={"hasher": FH, "layers": "bytearray", "P": "bytes"},
      ghost={"k": "bytes"},
      fork_checks=True, shards=8,
      requires=["self.piece_length >= 16384 and is_pow2(self.piece_length)"],
      returns="dict",
      ensures=[(p_, l_, f"implies({ISF}, {e_})") for p_, l_, e_ in leaf] + walk,
      raises={"BaseException": {}},
      loops={0: {"protocol": True, "modifies": ["hasher", "layers", "self.pieces"],
                 "capture": {"files_before": "self.files", "layers_before_loop": "self.piece_layers"},
                 "ghost_init": {"P": "b''", "np": "0"},
                 "ghost_step": {"P": "P + D", "np": "np + 1"},
                 "lemmas_after_body": ["proots_step(P, D, len(blocks) - len(leaves(D)), hasher.amount, np)",
                                       "file_root_def(fs_data(path), hasher.amount, hasher.layer_hashes)"],
                 "invariant": [
                     ("hasher_frame", "hasher.piece_length == self.piece_length and hasher.amount * 16384 == hasher.piece_length and "
                                      "hasher.amount >= 1 and is_pow2(hasher.amount) and hasher.hybrid == self.hybrid"),
                     ("nothing_else_touched", "self.files == files_before and self.piece_layers == layers_before_loop"),
                     ("stream", "P + file_tail(hasher.current) == fs_data(path)"),
                     ("before_the_end_the_layer_hashes_are_the_piece_roots",
                      "implies(not hasher.end, hasher.layer_hashes == piece_roots(P, hasher.amount) and np >= 0 and "
                      "(len(P) == np * self.piece_length or file_at_eof(hasher.current)))"),
                     ("after_the_end_the_root_is_over_the_padded_piece_layer_of_the_whole_file",
                      "implies(hasher.end, P == fs_data(path) and hasher.root == file_root(fs_data(path), hasher.amount) and "
                      "hasher.root == mroot(hasher.layer_hashes) and "
                      "is_pow2(len(hasher.layer_hashes)) and len(piece_roots(P, hasher.amount)) <= len(hasher.layer_hashes) and "
                      "(len(hasher.layer_hashes) < 2 * len(piece_roots(P, hasher.amount)) or len(hasher.layer_hashes) == 1) and "
                      "hasher.layer_hashes == cat(piece_roots(P, hasher.amount), repeat_digest(mroot(zero_digests(hasher.amount)), "
                      "len(hasher.layer_hashes) - len(piece_roots(P, hasher.amount)))))"),
                 ]},
             1: {"index": "_i1", "modifies": ["self.piece_layers", "self.files", "self.pieces"],
                 "lemmas_after_body": [f"tree_step(sorted_names(path), _i1 - 1, path, {AM})",
                                       "layered_step(sorted_names(path), _i1 - 1, path, k, self.piece_length)"],
                 "invariant": [
                     ("tree_so_far", f"tree == tree_first(sorted_names(path), _i1, path, {AM})"),
                     ("layers_so_far", "(k in self.piece_layers) == ((k in old(self.piece_layers)) or "
                                       "layered_under_first(sorted_names(path), _i1, path, k, self.piece_length))"),
                     ("frame", "self.piece_length == old(self.piece_length) and self.hybrid == old(self.hybrid)"),
                 ]}},
      notes="the creator behind the command line, the whole walk: per file the FileHasher iteration is followed piece by piece (the layer "
            "hashes are the piece roots of the bytes consumed so far; at the end the root is the merkle root over the padded piece layer of "
            "the whole file), so the leaf carries the BEP 52 root of the content; for a directory the value returned is tree_of(path) "
            "(induction over the tree through this contract at the recursive call) and piece layers gains a key exactly for the files "
            "larger than one piece")


def _v2_setup(p, env):
    """self.kws as TorrentFileV2.__init__ builds it; progress mode 0 (the progress display is not modelled)"""
    from pyvc.values import HDict, VInt, VNone
    obj = p.heap[env["self"].rid]
    obj.fields["kws"] = p.alloc(HDict(over={"progress": VInt(0), "progress_bar": VNone()}))


def _hybrid_setup(p, env):
    from pyvc.values import HDict, VInt, VNone
    obj = p.heap[env["self"].rid]
    obj.fields["kws"] = p.alloc(HDict(over={"progress": VInt(0), "progress_bar": VNone(), "pad": obj.fields["pad_flag"]}))


def _leaf_ensures(h, amount, LEAF="result['']", CONTENT="fs_data(path)", NODE="result", LAYERS="self.piece_layers"):
    """postconditions of the leaf case shared by TorrentFileV2._traverse and TorrentFileHybrid._traverse; h names the local
    hasher object (an existential witness at call sites).  With other LEAF / CONTENT / NODE / LAYERS texts the same clauses state
    the single-file case of assemble"""
    PR = f"piece_roots({CONTENT}, {amount})"
    return [
        ("C02", "leaf_records_the_exact_length", f"('' in {NODE}) and {LEAF}['length'] == len({CONTENT})"),
        ("C02", "empty_file_carries_no_root", f"implies(len({CONTENT}) == 0, not ('pieces root' in {LEAF}))"),
        ("C02", "pieces_root_is_the_merkle_root_over_the_padded_piece_layer",
         f"implies(len({CONTENT}) > 0, ('pieces root' in {LEAF}) and {LEAF}['pieces root'] == mroot({h}.layer_hashes))"),
        ("C02", "padded_piece_layer_is_the_piece_layer_of_the_content_then_zero_piece_roots",
         f"implies(len({CONTENT}) > 0, "
         f"{h}.layer_hashes == cat({PR}, repeat_digest(mroot(zero_digests({amount})), len({h}.layer_hashes) - len({PR}))))"),
        ("C02", "padded_to_the_next_power_of_two",
         f"implies(len({CONTENT}) > 0, is_pow2(len({h}.layer_hashes)) and "
         f"len({PR}) <= len({h}.layer_hashes) and (len({h}.layer_hashes) < 2 * len({PR}) or len({h}.layer_hashes) == 1))"),
        ("C02", "piece_layers_entry_exactly_for_files_larger_than_a_piece",
         f"implies(len({CONTENT}) > 0, (k in {LAYERS}) == ((k in old(self.piece_layers)) or "
         f"(len({CONTENT}) > self.piece_length and k == {LEAF}['pieces root']))) and "
         f"implies(len({CONTENT}) == 0, (k in {LAYERS}) == (k in old(self.piece_layers)))"),
        ("C02", "the_entry_is_the_piece_layer_of_the_content",
         f"implies(len({CONTENT}) > self.piece_length, {LAYERS}[{LEAF}['pieces root']] == bytes_join({PR}))"),
    ]


def register_traverse_v2(reg):
    C = reg.contract
    AM = "(self.piece_length // 16384)"
    ISF = "fs_isfile(path)"

    def walk_clauses(h):
        return [
            ("C02", "pieces_root_is_the_bep52_root_of_the_content",
             f"implies({ISF} and len(fs_data(path)) > 0, with_lemma(file_root_def(fs_data(path), {AM}, {h}.layer_hashes), "
             f"result['']['pieces root'] == file_root(fs_data(path), {AM})))"),
            ("C02", "file_tree_mirrors_the_directory",
             f"implies(not ({ISF} and len(fs_data(path)) > 0), with_lemma(tree_unfold(path, {AM}), result == tree_of(path, {AM})))"),
            ("C02", "file_tree_leaf_of_a_non_empty_file",
             f"implies({ISF} and len(fs_data(path)) > 0, with_lemma(tree_unfold(path, {AM}) and "
             f"file_root_def(fs_data(path), {AM}, {h}.layer_hashes), result == tree_of(path, {AM})))"),
            ("C02", "piece_layers_keys_are_exactly_the_roots_of_the_files_larger_than_a_piece",
             f"implies(not ({ISF} and len(fs_data(path)) > 0), with_lemma(layered_unfold(path, k, self.piece_length), "
             "(k in self.piece_layers) == ((k in old(self.piece_layers)) or layered_under(path, k, self.piece_length))))"),
            ("C02", "piece_layers_key_of_a_file_larger_than_a_piece",
             f"implies({ISF} and len(fs_data(path)) > 0, with_lemma(layered_unfold(path, k, self.piece_length) and "
             f"file_root_def(fs_data(path), {AM}, {h}.layer_hashes), "
             "(k in self.piece_layers) == ((k in old(self.piece_layers)) or layered_under(path, k, self.piece_length))))"),
        ]

    def walk_loop(treevar, modifies):
        return {0: {"index": "_i0", "modifies": modifies,
                    "lemmas_after_body": [f"tree_step(sorted_names(path), _i0 - 1, path, {AM})",
                                          "layered_step(sorted_names(path), _i0 - 1, path, k, self.piece_length)"],
                    "invariant": [
                        ("tree_so_far", f"{treevar} == tree_first(sorted_names(path), _i0, path, {AM})"),
                        ("layers_so_far", "(k in self.piece_layers) == ((k in old(self.piece_layers)) or "
                                          "layered_under_first(sorted_names(path), _i0, path, k, self.piece_length))"),
                        ("frame", "self.piece_length == old(self.piece_length)"),
                    ]}}
    WALK_NOTE = ("the whole walk, for every finite directory tree, file size and piece length: the value returned is tree_of(path) -- a "
                 "leaf {'': {length[, pieces root]}} for a file (root = BEP 52 root of its content, none for an empty file), for a "
                 "directory the dictionary over its ascending listing of the trees of its entries (induction over the tree through this "
                 "contract at the recursive call), {} otherwise -- and piece layers gains a key exactly for the files larger than one piece")
    leaf = [(p_, l_, f"implies({ISF}, {e_})") for p_, l_, e_ in _leaf_ensures("fhash", AM)]
    C("torrentfile.torrent.TorrentFileV2._traverse",
      props=["C02", "C10"],
      params={"self": {"cls": "torrentfile.torrent.TorrentFileV2",
                       "fields": {"piece_layers": "dict", "piece_length": "int", "path": "str"}}, "path": "str"},
      setup=_v2_setup,
      fork_checks=True,
      modifies=["self.piece_layers"],
      exists={"fhash": HV2},
      ghost={"k": "bytes"},
      requires=["self.piece_length >= 16384 and is_pow2(self.piece_length)"],
      returns="dict",
      ensures=leaf + walk_clauses("fhash"),
      raises={"BaseException": {}},
      loops=walk_loop("file_tree", ["self.piece_layers"]),
      notes=WALK_NOTE)
    C("torrentfile.torrent.TorrentFileHybrid._traverse",
      props=["C02", "C03", "C10"],
      params={"self": {"cls": "torrentfile.torrent.TorrentFileHybrid",
                       "fields": {"piece_layers": "dict", "piece_length": "int", "path": "str", "files": "list", "pieces": "list[bytes]",
                                  "hashes": "list", "pad_flag": "bool"}}, "path": "str"},
      setup=_hybrid_setup,
      fork_checks=True,
      modifies=["self.piece_layers", "self.files", "self.pieces", "self.hashes"],
      exists={"file_hash": HHY},
      ghost={"k": "bytes"},
      requires=["self.piece_length >= 16384 and is_pow2(self.piece_length)"],
      returns="dict",
      loops=walk_loop("tree", ["self.piece_layers", "self.files", "self.pieces", "self.hashes"]),
      ensures=[(p_, l_, f"implies({ISF}, {e_})") for p_, l_, e_ in _leaf_ensures("file_hash", AM)] + walk_clauses("file_hash") + [(p_, l_, f"implies({ISF}, {e_})") for p_, l_, e_ in [
          ("C03", "v1_list_gets_the_file_then_its_padding_entry",
           "len(self.files) >= len(old(self.files)) + 1 and "
           "self.files[len(old(self.files))]['length'] == len(fs_data(path)) and "
           "self.files[len(old(self.files))]['path'] == relpath_components(path, self.path)"),
          ("C03", "v1_pieces_of_the_file_are_appended",
           "implies(len(fs_data(path)) > 0, self.pieces == cat(old(self.pieces), hybrid_pieces(fs_data(path), self.piece_length, self.pad_flag)))"),
          ("C03", "padding_entry_exactly_when_padding_is_declared_and_the_last_piece_is_short",
           "implies(len(fs_data(path)) > 0 and self.pad_flag and len(fs_data(path)) % self.piece_length != 0, "
           "len(self.files) == len(old(self.files)) + 2 and self.files[len(old(self.files)) + 1]['attr'] == 'p' and "
           "self.files[len(old(self.files)) + 1]['length'] == self.piece_length - len(fs_data(path)) % self.piece_length) and "
           "implies(len(fs_data(path)) == 0 or not self.pad_flag or len(fs_data(path)) % self.piece_length == 0, "
           "len(self.files) == len(old(self.files)) + 1)"),
      ]],
      raises={"BaseException": {}},
      notes="v2 view: " + WALK_NOTE + "; v1 view (file list, padding entries, pieces) per file (leaf clauses); their order across the "
            "files of a directory is decided by the bounded harness")


def register_assemble_v2(reg):
    """single-file case of the three v2-capable assemble methods, on top of the leaf contracts of _traverse: from the bytes on disk
    to the info dictionary"""
    C = reg.contract
    AM = "(self.piece_length // 16384)"
    INFO = "self.meta['info']"
    NODE = f"{INFO}['file tree'][self.name]"
    common_req = ["self.piece_length >= 16384 and is_pow2(self.piece_length)",
                  f"('info' in self.meta) and is_dict({INFO}) and ('name' in {INFO}) and {INFO}['name'] == self.name"]

    SINGLE = "fs_isfile(self.path)"

    def ens(h, walk=True):
        single = _leaf_ensures(h, AM, LEAF=f"{NODE}['']", CONTENT="fs_data(self.path)", NODE=NODE, LAYERS="self.meta['piece layers']") + [
            ("C02", "single_file_torrent_records_name_length_and_version",
             f"(self.name in {INFO}['file tree']) and {INFO}['length'] == len(fs_data(self.path)) and {INFO}['meta version'] == 2"),
        ]
        out = [(p_, l_, f"implies({SINGLE}, {e_})") for p_, l_, e_ in single]
        if walk:
            out += [
                ("C02", "directory_torrent_records_the_tree_of_the_content_root",
                 f"implies(not {SINGLE}, {INFO}['file tree'] == tree_of(self.path, {AM}) and {INFO}['meta version'] == 2 and "
                 f"not ('length' in {INFO} and not ('length' in old({INFO}))))"),
                ("C02", "directory_torrent_has_a_layer_for_exactly_the_files_larger_than_a_piece",
                 f"implies(not {SINGLE}, (k in self.meta['piece layers']) == ((k in old(self.piece_layers)) or "
                 "layered_under(self.path, k, self.piece_length)))"),
            ]
        return out
    C("torrentfile.torrent.TorrentFileV2.assemble",
      props=["C02", "C10"],
      params={"self": {"cls": "torrentfile.torrent.TorrentFileV2",
                       "fields": {"meta": "dict", "name": "str", "piece_layers": "dict", "piece_length": "int", "path": "str"}}},
      setup=_v2_setup,
      fork_checks=True,
      ghost={"k": "bytes"},
      requires=common_req,
      ensures=ens("fhash"),
      raises={"BaseException": {}},
      notes="from the bytes on disk to the info dictionary, single file and directory alike (the directory through the whole-walk "
            "contract of _traverse)")
    C("torrentfile.torrent.TorrentFileHybrid.assemble",
      props=["C02", "C03", "C10"],
      params={"self": {"cls": "torrentfile.torrent.TorrentFileHybrid",
                       "fields": {"meta": "dict", "name": "str", "piece_layers": "dict", "piece_length": "int", "path": "str", "files": "list",
                                  "pieces": "list[bytes]", "hashes": "list", "pad_flag": "bool"}}},
      setup=_hybrid_setup,
      fork_checks=True,
      ghost={"k": "bytes"},
      requires=common_req + ["len(self.pieces) == 0", f"self.pad_flag == (not {SINGLE})"],
      ensures=ens("file_hash") + [
          ("C03", "v1_pieces_are_those_of_the_file_alone",
           f"implies({SINGLE} and len(fs_data(self.path)) > 0, "
           f"{INFO}['pieces'] == bytes_join(hybrid_pieces(fs_data(self.path), self.piece_length, False)))"),
          ("C03", "single_file_hybrid_has_no_file_list", f"implies({SINGLE}, not ('files' in {INFO}) or ('files' in old({INFO})))"),
      ],
      raises={"BaseException": {}},
      notes="v2 view for single file and directory; v1 view (pieces = the file alone, no file list) for the single-file payload; the "
            "v1 list / pieces of a directory are decided by the bounded harness")
    C("torrentfile.torrent.TorrentAssembler.assemble",
      props=["C02", "C03", "C10"],
      params={"self": {"cls": "torrentfile.torrent.TorrentAssembler",
                       "fields": {"meta": "dict", "name": "str", "hybrid": "bool", "pad_flag": "bool", "files": "list", "pieces": "bytearray",
                                  "piece_layers": "dict", "piece_length": "int", "path": "str"}}},
      setup=_assembler_setup,
      ghost={"k": "bytes"},
      requires=common_req + [f"self.pad_flag == (not {SINGLE})"],
      fork_checks=True,
      ensures=[cl for cl in ens("hasher", walk=True) if cl[1] not in ("pieces_root_is_the_merkle_root_over_the_padded_piece_layer",
                                                           "padded_piece_layer_is_the_piece_layer_of_the_content_then_zero_piece_roots",
                                                           "padded_to_the_next_power_of_two", "the_entry_is_the_piece_layer_of_the_content")] + [
          ("C02", "root_and_layer_come_from_the_file_hasher",
           f"implies({SINGLE} and len(fs_data(self.path)) > 0, {NODE}['']['pieces root'] == file_root(fs_data(self.path), {AM})) and "
           f"implies({SINGLE} and len(fs_data(self.path)) > self.piece_length, self.meta['piece layers'][hasher.root] == layers)"),
          ("C03", "single_file_hybrid_has_no_file_list", f"implies({SINGLE}, not ('files' in {INFO}) or ('files' in old({INFO})))"),
      ],
      raises={"BaseException": {}},
      notes="the creator behind the command line, single file and directory: the file tree is tree_of(path) / {name: leaf with the "
            "BEP 52 root of the content}, piece layers has a key exactly for the files larger than a piece")
