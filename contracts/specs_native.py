"""Native (plain Python, stdlib only) readings of the spec functions used in contract clauses.
Imported by the native runner (/venv/bin/python) and by specs.py (python3-vt)."""

NATIVE = {}


def native(fn):
    NATIVE[fn.__name__] = fn
    return fn


# ----------------------------------------------------------------------------- native readings
@native
def implies(a, b):
    return (not a) or bool(b)


@native
def is_pow2(x):
    return isinstance(x, int) and x > 0 and (x & (x - 1)) == 0


@native
def pow2(e):
    return 2 ** e


@native
def ascii_decimal(s):
    return isinstance(s, str) and len(s) > 0 and all(c in "0123456789" for c in s)


@native
def int_parsable(s):
    try:
        int(s)
        return True
    except ValueError:
        return False


@native
def int_value(s):
    return int(s)


@native
def auto_piece_length(size):
    """C12 automatic choice: smallest 2^e, 14 <= e <= 24, with size <= 1000 * 2^e (2^24 if there is none)."""
    for e in range(14, 25):
        if size <= 1000 * 2 ** e:
            return 2 ** e
    return 2 ** 24


@native
def valid_piece_length_arg(x):
    """C12: an integer argument that must be accepted: exponent 14..25, or a power of two >= 16 KiB."""
    return (14 <= x <= 25) or (x >= 16384 and is_pow2(x))


@native
def free_piece_length_arg(x):
    """C12: exponents 26..29 may be rejected or read as 2^n."""
    return 26 <= x <= 29




# ----------------------------------------------------------------------------- dict / edit specs (C07, C06, C17)
EDIT_TOP = ("announce", "url-list", "httpseeds")
EDIT_INFO = ("comment", "source", "private")


@native
def named(args, f):
    """the caller named field f: present and not None"""
    return f in args and args[f] is not None


@native
def cleared(args, f):
    return f in args and args[f] == ""


@native
def key_index(d, k):
    ks = list(d.keys())
    return ks.index(k) if k in d else -1


@native
def same_entry(d1, d2, k):
    return (k in d1) == (k in d2) and (k not in d1 or d1[k] == d2[k])


@native
def keys_ascending(d):
    ks = [x.encode() if isinstance(x, str) else bytes(x) for x in d.keys()]
    return all(a < b for a, b in zip(ks, ks[1:]))


@native
def is_dict(v):
    return isinstance(v, dict)


@native
def is_str(v):
    return isinstance(v, str)


@native
def is_list(v):
    return isinstance(v, list)


@native
def split_ws(s):
    return s.split()


@native
def first(v):
    return v[0]


@native
def nonempty_list(v):
    return isinstance(v, list) and len(v) > 0


# ----------------------------------------------------------------------------- C20: configuration keys
CONFIG_KEYS = ["announce", "tracker", "web-seed", "http-seed", "private", "source", "comment", "piece-length",
               "meta-version", "out", "align"]
CONFIG_LIST_KEYS = ("announce", "tracker", "web-seed", "http-seed")
CONFIG_RAW_KEYS = ("piece-length", "meta-version", "out")
_CLI = {}


def cli_table():
    if "t" not in _CLI:
        from pyvc.source import Repo
        from pyvc import clitable
        _CLI["t"] = clitable.extract(Repo())
    return _CLI["t"]


@native
def config_kw(k):
    """the keyword a configuration key must land in: the dest of the create flag --<key> in cli.py"""
    from pyvc import clitable
    e = clitable.flag_dest(cli_table(), "create_parser", k)
    return e["dest"] if e else None


@native
def config_conv(k, v):
    if k in CONFIG_LIST_KEYS:
        return [i for i in v.split("\n") if i]
    if k in CONFIG_RAW_KEYS:
        return v
    if v.lower() == "true":
        return True
    if v.lower() == "false":
        return False
    return v


@native
def config_target_before(cfg, t, i):
    ks = list(cfg.keys())
    return any(c in cfg and ks.index(c) < i and config_kw(c) == t for c in CONFIG_KEYS)


@native
def dict_len(d):
    return len(d)


@native
def truthy(v):
    return bool(v)


@native
def is_int(v):
    return isinstance(v, int) and not isinstance(v, bool)


@native
def is_none(v):
    return v is None


@native
def as_int(v):
    return v


@native
def as_str(v):
    return v


@native
def last(v):
    return v[-1]


@native
def init(v):
    return v[:-1]


@native
def list_len(v):
    return len(v)


@native
def basename_abspath(p):
    import os
    return os.path.basename(os.path.abspath(p))


@native
def is_bool(v):
    return isinstance(v, bool)


@native
def flatten(v):
    return [x for sub in v for x in sub]


@native
def join_map(prefix, urls):
    from urllib.parse import quote_plus as q
    return "".join(prefix + q(u) for u in urls)


@native
def quote_plus(s):
    from urllib.parse import quote_plus as q
    return q(s)


@native
def sha1hex(b):
    import hashlib
    return hashlib.sha1(bytes(b)).hexdigest()


@native
def sha256hex(b):
    import hashlib
    return hashlib.sha256(bytes(b)).hexdigest()


@native
def pathjoin(a, b):
    import os
    return os.path.join(a, b)


@native
def dirname(a):
    import os
    return os.path.dirname(a)


@native
def pairhash(blocks):
    import hashlib
    return [hashlib.sha256(bytes(blocks[i]) + bytes(blocks[i + 1])).digest() for i in range(0, len(blocks) - 1, 2)]


@native
def mroot(blocks):
    blocks = list(blocks)
    while len(blocks) > 1:
        blocks = pairhash(blocks)
    return bytes(blocks[0])


@native
def first_part(p):
    from pathlib import Path
    return Path(p).parts[0]


@native
def tuple_size(sigma, i):
    return sigma[i][3]


@native
def tuple_matches(sigma, i):
    return sigma[i][0] == sigma[i][1]


@native
def size_sum(sigma, i):
    return sum(t[3] for t in sigma[:i])


@native
def match_sum(sigma, i):
    return sum(t[3] for t in sigma[:i] if t[0] == t[1])


@native
def tuples_wellformed(sigma, j):
    return all(len(t) == 4 and t[3] >= 0 for t in sigma)


@native
def sha256(b):
    import hashlib
    return hashlib.sha256(bytes(b)).digest()


@native
def zeros(n):
    return bytes(n)


@native
def sha1(b):
    import hashlib
    return hashlib.sha1(bytes(b)).digest()


@native
def hint(*args):
    return True


@native
def hashed():
    raise NotImplementedError("ghost value (input of the last digest) has no native reading")


@native
def v1_pieces(stream, pl):
    import hashlib
    stream = bytes(stream)
    return b"".join(hashlib.sha1(stream[i:i + pl]).digest() for i in range(0, len(stream), pl))


@native
def relpath_components(path, root):
    import os
    return os.path.relpath(path, root).split(os.sep)


@native
def gap(n, pl):
    return (-n) % pl


@native
def sum_lengths(files):
    return sum(f["length"] for f in files)


@native
def data_at(paths, i):
    with open(paths[i], "rb") as fh:
        return fh.read()


@native
def zero_digests(k):
    return [bytes(32) for _ in range(k)]


@native
def repeat_digest(d, k):
    return [bytes(d) for _ in range(k)]


@native
def cat(a, b):
    return list(a) + list(b)


@native
def bytes_join(lst):
    return b"".join(bytes(x) for x in lst)


@native
def next_pow2(n):
    p = 1
    while p < n:
        p *= 2
    return p


@native
def leaves(data):
    import hashlib
    data = bytes(data)
    return [hashlib.sha256(data[i:i + 16384]).digest() for i in range(0, len(data), 16384)]


@native
def file_length(files, i):
    return files[i]["length"]


@native
def file_offset(files, i):
    return sum(f["length"] for f in files[:i])


@native
def files_wellformed(files):
    return all(isinstance(f, dict) and f.get("length", -1) >= 0 for f in files)


@native
def path_is_str(paths, i):
    return not (0 <= i < len(paths)) or isinstance(paths[i], str)


@native
def fileinfo_wellformed(fileinfo, i, layers, pl):
    return True
