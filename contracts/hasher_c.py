"""Sidecar contracts for torrentfile/hasher.py."""


def register(reg):
    C = reg.contract

    C("torrentfile.hasher.merkle_root",
      props=["C02", "C10"],
      params={"blocks": "list[digest]"},
      requires=["len(blocks) >= 1", "is_pow2(len(blocks))"],
      returns="bytes",
      ensures=[("C02", "layerwise_merkle_root", "result == mroot(old(blocks))")],
      loops={0: {"invariant": [("same_root", "mroot(blocks) == mroot(old(blocks))"),
                               ("pow2_len", "len(blocks) >= 1 and is_pow2(len(blocks))")],
                 "decreases": "len(blocks)"}},
      notes="mroot is the BEP 52 layer-wise definition (pair up, hash, repeat); the comprehension over zip(*[iter(blocks)]*2) is the "
            "pairing idiom; SHA-256 uninterpreted.  Called only with a non-empty power-of-two number of digests on the create path "
            "(the empty-list case of the real function returns its argument and is exercised natively)")
