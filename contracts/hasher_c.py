"""Sidecar contracts for torrentfile/hasher.py."""


def register(reg):
    register_hasher(reg)
    register_hasher_next(reg)
    register_hasher_init(reg)
    register_filehasher(reg)
    register_filehasher_next(reg)
    register_hasher_v2(reg)
    register_hasher_hybrid(reg)
    C = reg.contract

    C("torrentfile.hasher.merkle_root",
      props=["C02", "C10"],
      params={"blocks": "list[digest]"},
      requires=["len(blocks) == 0 or is_pow2(len(blocks))"],
      returns="any",
      ensures=[("C02", "layerwise_merkle_root", "implies(len(old(blocks)) >= 1, result == mroot(old(blocks)))"),
               ("C02", "empty_list_is_returned_unchanged", "implies(len(old(blocks)) == 0, is_list(result) and len(result) == 0)")],
      loops={0: {"invariant": [("same_root", "mroot(blocks) == mroot(old(blocks))"),
                               ("pow2_len", "len(blocks) >= 1 and is_pow2(len(blocks))")],
                 "decreases": "len(blocks)"}},
      notes="mroot is the BEP 52 layer-wise definition (pair up, hash, repeat); the comprehension over zip(*[iter(blocks)]*2) is the "
            "pairing idiom; SHA-256 uninterpreted.  Called only with a non-empty power-of-two number of digests on the create path "
            "(the empty-list case of the real function returns its argument and is exercised natively)")


HASHER = {"cls": "torrentfile.hasher.Hasher",
          "fields": {"piece_length": "int", "paths": "list[str]", "align": "bool", "total": "int", "index": "int", "current": "file",
                     "progress": "int"}}
WF = ("self.piece_length > 0 and 0 <= self.index and file_wf(self.current, self.paths[self.index]) "
      "if self.index < len(self.paths) else self.piece_length > 0 and 0 <= self.index")
REMAINING = "(file_tail(self.current) + rest(self.paths, self.index + 1))"
# declared stream of a piece-aligned torrent: the unread part of the current file, zero bytes up to the next piece boundary,
# then every later file with its padding
REM_A = ("(file_tail(self.current) + zeros(gap(len(file_tail(self.current)), self.piece_length)) + "
         "rest_aligned(self.paths, self.index + 1, self.piece_length))")


def register_hasher(reg):
    C = reg.contract

    # ------------------------------------------------------------------ next_file
    C("torrentfile.hasher.Hasher.next_file",
      props=["C01", "C15"],
      params={"self": HASHER},
      requires=["self.piece_length > 0", "0 <= self.index", "file_open(self.current)",
                ("env", "path_is_file(self.paths, self.index + 1)")],
      returns="bool",
      modifies=["self.index", "self.current"],
      ensures=[
          ("C01", "index_advances", "self.index == old(self.index) + 1"),
          ("C01", "true_iff_there_is_a_next_file", "result == (old(self.index) + 1 < len(self.paths))"),
          ("C01", "next_file_opened_at_start",
           "file_open(self.current) and implies(result, file_tail(self.current) == data_at(self.paths, self.index))"),
          ("C01", "no_next_file_leaves_the_handle_alone", "implies(not result, file_same(self.current, old(self.current)))"),
          ("C01", "paths_unchanged", "self.paths == old(self.paths) and self.piece_length == old(self.piece_length) and self.align == old(self.align)"),
      ])

    # ------------------------------------------------------------------ _handle_partial
    C("torrentfile.hasher.Hasher._handle_partial",
      props=["C01", "C15"],
      params={"self": HASHER, "arr": "bytearray"},
      requires=["self.piece_length > 0", "0 <= self.index", "file_open(self.current)",
                "file_at_eof(self.current)", "0 < len(arr) < self.piece_length"],
      returns="bytes",
      modifies=["self.index", "self.current", "arr"],
      ghost_out={"hashed_sha1": "(old(arr) + zeros(self.piece_length - len(old(arr)))) if self.align else arr"},
      ensures=[
          # relational form of "the hash input is the next piece_length bytes of the stream (fewer only at its end)":
          # input ++ remaining == old input ++ old remaining, and the input is full or the stream is exhausted.
          # (L3: P ++ R == K and len P == min(pl, len K)  ==>  P == K[:pl]  -- unique prefix, lemmas/L3_stream.lean)
          ("C01", "result_is_sha1_of_the_collected_bytes", "implies(not self.align, result == sha1(arr))"),
          ("C01", "stream_is_conserved",
           f"implies(not self.align, arr + {REMAINING} == old(arr) + rest(old(self.paths), old(self.index) + 1))"),
          ("C01", "piece_is_full_unless_the_stream_ended",
           f"implies(not self.align, len(arr) <= self.piece_length and (len(arr) == self.piece_length or len({REMAINING}) == 0))"),
          ("C15", "aligned_piece_is_zero_padded",
           "implies(self.align, result == sha1(old(arr) + zeros(self.piece_length - len(old(arr)))) and self.index == old(self.index) "
           "and file_same(self.current, old(self.current)))"),
          ("C01", "state_stays_wellformed",
           "self.paths == old(self.paths) and self.piece_length == old(self.piece_length) and self.align == old(self.align) and "
           "old(self.index) <= self.index and file_open(self.current) and "
           "implies(self.index >= len(self.paths), file_at_eof(self.current))"),
      ],
      loops={0: {"invariant": [
          ("stream_conserved", f"arr + {REMAINING} == old(arr) + rest(old(self.paths), old(self.index) + 1)"),
          ("arr_bounds", "len(old(arr)) <= len(arr) <= self.piece_length"),
          ("wf", "self.paths == old(self.paths) and self.piece_length == old(self.piece_length) and self.align == old(self.align) "
                 "and old(self.index) <= self.index and file_open(self.current) and file_at_eof(self.current)"),
      ], "modifies": ["self.index", "self.current", "arr"]}},
      notes="requires every listed path to be a regular file while hashing (no concurrent modification, DESIGN 3.3-6)")


def register_hasher_next(reg):
    C = reg.contract
    C("torrentfile.hasher.Hasher.__next__",
      props=["C01", "C15"],
      params={"self": HASHER},
      requires=["self.piece_length > 0", "0 <= self.index", "file_open(self.current)",
                "implies(self.index >= len(self.paths), file_at_eof(self.current))"],
      returns="bytes",
      shards=4,
      modifies=["self.index", "self.current"],
      ghost_out={"hashed_sha1": "hashed()"},
      ensures=[
          ("C01", "result_is_sha1_of_the_next_piece", "result == sha1(hashed())"),
          ("C01", "the_piece_is_the_head_of_the_remaining_stream",
           f"implies(not self.align, hashed() + {REMAINING} == old({REMAINING}))"),
          ("C01", "only_the_final_piece_may_be_short",
           f"implies(not self.align, 0 < len(hashed()) <= self.piece_length and (len(hashed()) == self.piece_length or len({REMAINING}) == 0))"),
          ("C15", "aligned_pieces_never_straddle_files",
           "implies(self.align, len(hashed()) == self.piece_length)"),
          ("C15", "aligned_piece_is_the_head_of_the_declared_stream_with_zero_padding",
           f"implies(self.align, hashed() + {REM_A} == old({REM_A}))"),
          ("C01", "state_stays_wellformed",
           "self.paths == old(self.paths) and self.piece_length == old(self.piece_length) and self.align == old(self.align) and "
           "old(self.index) <= self.index and file_open(self.current) and "
           "implies(self.index >= len(self.paths), file_at_eof(self.current))"),
      ],
      raises={"StopIteration": {"ensures": [
          ("C01", "stops_only_when_the_stream_is_exhausted", f"len(old({REMAINING})) == 0"),
          ("C01", "index_past_the_last_file", "self.index >= len(self.paths)")]}},
      raises_props=["C01"],
      loops={0: {"invariant": [
          ("stream_unchanged_while_skipping_exhausted_files", f"{REMAINING} == old({REMAINING})"),
          ("declared_stream_unchanged_while_skipping_exhausted_files", f"implies(self.align, {REM_A} == old({REM_A}))"),
          ("wf", "self.paths == old(self.paths) and self.piece_length == old(self.piece_length) and self.align == old(self.align) "
                 "and old(self.index) <= self.index and file_open(self.current) and "
                 "implies(self.index >= len(self.paths), file_at_eof(self.current))"),
      ], "modifies": ["self.index", "self.current"]}},
      notes="the k-th call returns SHA-1 of the next piece_length bytes of the concatenated files (fewer only at the very end) and "
            "raises StopIteration exactly when nothing is left; by induction (L3) the results are v1_pieces(stream)")


def register_hasher_init(reg):
    C = reg.contract
    C("torrentfile.hasher.Hasher.__init__",
      props=["C01", "C15"],
      params={"self": {"cls": "torrentfile.hasher.Hasher", "fields": {}}, "paths": "list[str]", "piece_length": "int", "align": "bool",
              "progress": "int", "progress_bar": "any"},
      requires=["piece_length > 0", ("env", "path_is_file(paths, 0)")],
      raises={"IndexError": {"when": "len(paths) == 0"}},
      ensures=[
          ("C01", "starts_at_the_beginning_of_the_first_file",
           "self.index == 0 and file_open(self.current) and file_tail(self.current) == data_at(self.paths, 0)"),
          ("C01", "keeps_its_arguments", "self.paths == paths and self.piece_length == piece_length and self.align == align"),
      ],
      creates={"piece_length": "int", "paths": "list[str]", "align": "bool", "total": "int", "index": "int", "current": "file",
               "progress": "int"})


FH = {"cls": "torrentfile.hasher.FileHasher",
      "fields": {"path": "str", "pad": "bool", "piece_length": "int", "pieces": "list[bytes]", "layer_hashes": "list[digest]",
                 "piece_layer": "any", "root": "any", "padding_piece": "any", "padding_file": "any", "amount": "int", "end": "bool",
                 "progress": "int", "current": "file", "hybrid": "bool"}}


def register_filehasher(reg):
    C = reg.contract
    C("torrentfile.hasher.FileHasher._pad_remaining",
      props=["C02", "C10"],
      params={"self": FH, "block_count": "int"},
      requires=["1 <= block_count < self.amount"],
      returns="list[digest]",
      ensures=[("C02", "padding_is_zero_hashes", "result == zero_digests(len(result))"),
               ("C02", "one_piece_file_is_padded_to_the_next_power_of_two",
                "implies(len(self.layer_hashes) == 0, is_pow2(block_count + len(result)) and block_count + len(result) < 2 * block_count)"),
               ("C02", "later_short_piece_is_padded_to_a_full_piece",
                "implies(len(self.layer_hashes) > 0, block_count + len(result) == self.amount)")],
      notes="BEP 52: a short last piece is padded with zero hashes up to a full piece; a file of at most one piece is padded only "
            "up to the next power of two of its block count")

    C("torrentfile.hasher.FileHasher._calculate_root",
      props=["C02", "C10"],
      params={"self": FH},
      requires=["self.amount >= 1 and is_pow2(self.amount)", "file_open(self.current)"],
      modifies=["self.piece_layer", "self.layer_hashes", "self.root"],
      ensures=[
          ("C02", "piece_layer_is_the_concatenation_of_the_layer_hashes_without_padding",
           "self.piece_layer == bytes_join(old(self.layer_hashes))"),
          ("C02", "root_over_the_piece_hashes_padded_with_zero_piece_roots",
           "implies(len(old(self.layer_hashes)) >= 1, self.root == mroot(self.layer_hashes) and "
           "self.layer_hashes == cat(old(self.layer_hashes), repeat_digest(mroot(zero_digests(self.amount)), "
           "len(self.layer_hashes) - len(old(self.layer_hashes)))))"),
          ("C02", "padded_to_the_next_power_of_two",
           "implies(len(old(self.layer_hashes)) >= 1, is_pow2(len(self.layer_hashes)) and "
           "len(old(self.layer_hashes)) <= len(self.layer_hashes) and "
           "(len(self.layer_hashes) < 2 * len(old(self.layer_hashes)) or len(old(self.layer_hashes)) == 1 and len(self.layer_hashes) == 1))"),
      ],
      notes="with L2 (merkle decomposition, Lean) this is the BEP 52 root over all 16 KiB leaves padded with zero hashes")


def register_filehasher_next(reg):
    C = reg.contract
    B = 16384
    NL = "len(leaves(D))"
    C("torrentfile.hasher.FileHasher.__next__",
      props=["C02", "C03", "C10"],
      params={"self": FH},
      merge_ifs=False,
      shards=6,
      exists={"D": "bytes", "blocks": "list[digest]", "layer_hash": "bytes"},
      modifies=["self.current", "self.layer_hashes", "self.pieces", "self.end", "self.root", "self.piece_layer", "self.padding_file"],
      requires=["self.piece_length >= 16384 and is_pow2(self.piece_length)", "self.amount * 16384 == self.piece_length",
                "self.amount >= 1 and is_pow2(self.amount)", "file_open(self.current) or self.end"],
      returns="any",
      ensures=[
          ("C02", "consumes_the_next_piece_of_the_file",
           "D + file_tail(self.current) == old(file_tail(self.current)) and 0 < len(D) <= self.piece_length and "
           "(len(D) == self.piece_length or file_at_eof(self.current))"),
          ("C02", "layer_hash_is_the_merkle_root_of_the_piece_leaves_with_zero_hash_padding",
           "layer_hash == mroot(blocks) and blocks == cat(leaves(D), zero_digests(len(blocks) - " + NL + "))"),
          ("C02", "padding_amount_follows_bep52",
           "implies(" + NL + " == self.amount, len(blocks) == self.amount) and "
           "implies(" + NL + " < self.amount and len(old(self.layer_hashes)) > 0, len(blocks) == self.amount) and "
           "implies(" + NL + " < self.amount and len(old(self.layer_hashes)) == 0, is_pow2(len(blocks)) and " + NL + " <= len(blocks) < 2 * " + NL + ")"),
          ("C03", "hybrid_v1_piece_is_sha1_of_the_piece_zero_padded_only_when_padding_is_declared",
           "implies(self.hybrid, is_pair(result) and result[1] == sha1(D + zeros((self.piece_length - len(D)) if self.pad else 0)) and "
           "self.pieces == cat(old(self.pieces), [result[1]]) and result[0] == layer_hash) and "
           "implies(not self.hybrid, result == layer_hash)"),
          ("C03", "padding_entry_describes_exactly_the_zero_extension",
           "implies(self.hybrid and self.pad and len(D) < self.piece_length, self.padding_file['length'] == self.piece_length - len(D) "
           "and self.padding_file['attr'] == 'p')"),
          ("C02", "end_is_set_exactly_when_a_read_came_back_empty", "self.end == (len(leaves(D)) < self.amount)"),
          ("C02", "the_piece_root_is_appended", "implies(not self.end, self.layer_hashes == cat(old(self.layer_hashes), [layer_hash]))"),
          ("C02", "at_the_end_the_root_is_computed_over_the_padded_piece_layer",
           "implies(self.end, self.root == mroot(self.layer_hashes) and is_pow2(len(self.layer_hashes)) and "
           "self.layer_hashes == cat(cat(old(self.layer_hashes), [layer_hash]), repeat_digest(mroot(zero_digests(self.amount)), "
           "len(self.layer_hashes) - len(old(self.layer_hashes)) - 1)) and len(old(self.layer_hashes)) + 1 <= len(self.layer_hashes) and "
           "(len(self.layer_hashes) < 2 * (len(old(self.layer_hashes)) + 1) or len(self.layer_hashes) == 1) and "
           "self.piece_layer == bytes_join(cat(old(self.layer_hashes), [layer_hash])))"),
      ],
      raises={"StopIteration": {"modifies": ["self.current", "self.layer_hashes", "self.end", "self.root", "self.piece_layer"], "ensures": [
          ("C02", "second_stop_after_the_end_changes_nothing_else",
           "implies(old(self.end), not self.end and self.layer_hashes == old(self.layer_hashes) and self.root == old(self.root) and "
           "self.piece_layer == old(self.piece_layer))"),
          ("C02", "a_first_stop_happens_only_at_end_of_file", "implies(not old(self.end), old(file_tail(self.current)) == b'')"),
          ("C02", "stop_at_end_of_file_computes_the_root_over_the_padded_piece_layer",
           "implies(not old(self.end) and len(old(self.layer_hashes)) >= 1, old(file_tail(self.current)) == b'' and "
           "self.root == mroot(self.layer_hashes) and is_pow2(len(self.layer_hashes)) and "
           "self.layer_hashes == cat(old(self.layer_hashes), repeat_digest(mroot(zero_digests(self.amount)), len(self.layer_hashes) - len(old(self.layer_hashes)))) and "
           "len(old(self.layer_hashes)) <= len(self.layer_hashes) and "
           "(len(self.layer_hashes) < 2 * len(old(self.layer_hashes)) or len(self.layer_hashes) == 1) and "
           "self.piece_layer == bytes_join(old(self.layer_hashes)))"),
      ]}},
      loops={0: {"index": "_i0",
                 "ghost_init": {"D": "b''"},
                 "ghost_step": {"D": "D + last_read()"},
                 "lemmas_after_body": ["leaves_step(D, last_read())"],
                 "invariant": [
                     ("stream", "D + file_tail(self.current) == old(file_tail(self.current))"),
                     ("blocks_are_the_leaves", "blocks == leaves(D)"),
                     ("counters", "plength == self.piece_length - len(D) and total == len(D) and len(blocks) == _i0 and not self.end"),
                     ("full_blocks_until_eof", "len(D) == 16384 * _i0 or (len(D) < 16384 * _i0 and file_at_eof(self.current))"),
                     ("hybrid_accumulator", "implies(self.hybrid, hash_acc(piece) == D)"),
                     ("frame", "file_open(self.current) and self.amount == old(self.amount) and self.piece_length == old(self.piece_length) "
                               "and self.hybrid == old(self.hybrid) and self.pad == old(self.pad) and self.layer_hashes == old(self.layer_hashes) "
                               "and self.pieces == old(self.pieces)"),
                 ],
                 "modifies": ["block", "piece", "self.current", "self.end"]}},
      notes="one call = one piece: up to piece_length/16 KiB blocks are read, their SHA-256 leaves padded with zero hashes per BEP 52 and "
            "reduced by merkle_root; with L2 the per-piece roots and _calculate_root give the BEP 52 pieces root")


HV2 = {"cls": "torrentfile.hasher.HasherV2",
       "fields": {"path": "str", "piece_length": "int", "layer_hashes": "list[digest]", "piece_layer": "any", "root": "any",
                  "num_blocks": "int", "progress": "int"}}
HHY = {"cls": "torrentfile.hasher.HasherHybrid",
       "fields": {"path": "str", "pad": "bool", "piece_length": "int", "pieces": "list[bytes]", "layer_hashes": "list[digest]",
                  "piece_layer": "any", "root": "any", "padding_piece": "any", "padding_file": "any", "amount": "int", "progress": "int"}}

S0 = "old(file_tail(fd))"


def _calc_root_ensures(amount):
    return [
        ("C02", "piece_layer_is_the_concatenation_of_the_layer_hashes_without_padding",
         "self.piece_layer == bytes_join(old(self.layer_hashes))"),
        ("C02", "root_over_the_piece_hashes_padded_with_zero_piece_roots",
         "implies(len(old(self.layer_hashes)) >= 1, self.root == mroot(self.layer_hashes) and "
         f"self.layer_hashes == cat(old(self.layer_hashes), repeat_digest(mroot(zero_digests({amount})), "
         "len(self.layer_hashes) - len(old(self.layer_hashes)))))"),
        ("C02", "padded_to_the_next_power_of_two",
         "implies(len(old(self.layer_hashes)) >= 1, is_pow2(len(self.layer_hashes)) and "
         "len(old(self.layer_hashes)) <= len(self.layer_hashes) and "
         "(len(self.layer_hashes) < 2 * len(old(self.layer_hashes)) or len(old(self.layer_hashes)) == 1 and len(self.layer_hashes) == 1))"),
    ]


def _whole_file_ensures(amount):
    """postconditions of process_file shared by HasherV2 and HasherHybrid: the whole file is consumed and the piece layer and
    root are those of its content"""
    PR = f"piece_roots({S0}, {amount})"
    return [
        ("C02", "whole_file_is_hashed", "file_at_eof(fd)"),
        ("C02", "piece_layer_is_the_bep52_piece_layer_of_the_content", f"self.piece_layer == bytes_join({PR})"),
        ("C02", "root_is_the_merkle_root_over_the_padded_piece_layer", "self.root == mroot(self.layer_hashes)"),
        ("C02", "padded_piece_layer_is_the_piece_layer_then_zero_piece_roots",
         f"self.layer_hashes == cat({PR}, repeat_digest(mroot(zero_digests({amount})), len(self.layer_hashes) - len({PR})))"),
        ("C02", "padded_to_the_next_power_of_two",
         f"is_pow2(len(self.layer_hashes)) and len({PR}) <= len(self.layer_hashes) and "
         f"(len(self.layer_hashes) < 2 * len({PR}) or len(self.layer_hashes) == 1)"),
    ]


def _inner_invariants(idx, amount, extra_frame=""):
    return [
        ("stream", f"P + D + file_tail(fd) == {S0}"),
        ("blocks_are_the_leaves", "blocks == leaves(D)"),
        ("counters", f"len(blocks) == {idx}"),
        ("full_blocks_until_eof", f"len(D) == 16384 * {idx} or (len(D) < 16384 * {idx} and file_at_eof(fd))"),
        ("frame", f"file_open(fd) and self.{amount} == old(self.{amount}) and self.piece_length == old(self.piece_length)" + extra_frame),
    ]


def register_hasher_v2(reg):
    C = reg.contract
    C("torrentfile.hasher.HasherV2._calculate_root",
      props=["C02", "C10"],
      params={"self": HV2},
      requires=["self.num_blocks >= 1 and is_pow2(self.num_blocks)"],
      modifies=["self.piece_layer", "self.layer_hashes", "self.root"],
      ensures=_calc_root_ensures("self.num_blocks"),
      loops={0: {"index": "_i0", "modifies": ["self.layer_hashes"],
                 "lemmas_after_body": ["repeat_step(mroot(zero_digests(self.num_blocks)), _i0 - 1)"],
                 "invariant": [
                     ("padding_so_far", "self.layer_hashes == cat(old(self.layer_hashes), repeat_digest(mroot(zero_digests(self.num_blocks)), _i0))"),
                     ("frame", "self.num_blocks == old(self.num_blocks) and pad_piece == zero_digests(self.num_blocks) and "
                               "self.piece_layer == bytes_join(old(self.layer_hashes))")]}},
      notes="with L2 (merkle decomposition, Lean) this is the BEP 52 root over all 16 KiB leaves padded with zero hashes")

    C("torrentfile.hasher.HasherV2.process_file",
      props=["C02", "C10"],
      params={"self": HV2, "fd": "file"},
      fork_checks=True,
      merge_ifs=False,
      shards=6,
      requires=["self.piece_length >= 16384 and is_pow2(self.piece_length)", "self.num_blocks * 16384 == self.piece_length",
                "self.num_blocks >= 1 and is_pow2(self.num_blocks)", "file_open(fd)", "len(self.layer_hashes) == 0",
                "len(file_tail(fd)) > 0"],
      modifies=["fd", "self.layer_hashes", "self.piece_layer", "self.root"],
      ensures=_whole_file_ensures("self.num_blocks"),
      loops={0: {"ghost_init": {"P": "b''", "np": "0"},
                 "ghost_step": {"P": "P + D", "np": "np + 1"},
                 "lemmas_after_body": ["proots_step(P, D, len(blocks) - len(leaves(D)), self.num_blocks, np)"],
                 "modifies": ["fd", "self.layer_hashes"],
                 "invariant": [
                     ("stream", f"P + file_tail(fd) == {S0}"),
                     ("piece_aligned_until_eof", "np >= 0 and (len(P) == np * self.piece_length or file_at_eof(fd))"),
                     ("layer_hashes_are_the_piece_roots", "self.layer_hashes == piece_roots(P, self.num_blocks)"),
                     ("frame", "file_open(fd) and self.num_blocks == old(self.num_blocks) and self.piece_length == old(self.piece_length)"),
                 ]},
             1: {"index": "_i1",
                 "ghost_init": {"D": "b''"},
                 "ghost_step": {"D": "D + last_read()"},
                 "lemmas_after_body": ["leaves_step(D, last_read())"],
                 "invariant": _inner_invariants("_i1", "num_blocks") + [
                     ("outer_state_untouched", "self.layer_hashes == piece_roots(P, self.num_blocks)")],
                 "modifies": ["leaf", "fd"]}},
      notes="the whole file, any size: each pass of the outer loop hashes one piece (inner loop: its 16 KiB leaves), pads the leaf "
            "layer with zero hashes per BEP 52 and reduces it with merkle_root; _calculate_root then pads the piece layer")


def register_hasher_hybrid(reg):
    C = reg.contract
    C("torrentfile.hasher.HasherHybrid._pad_remaining",
      props=["C02", "C03", "C10"],
      params={"self": HHY, "block_count": "int"},
      requires=["1 <= block_count < self.amount"],
      returns="list[digest]",
      ensures=[("C02", "padding_is_zero_hashes", "result == zero_digests(len(result))"),
               ("C02", "one_piece_file_is_padded_to_the_next_power_of_two",
                "implies(len(self.layer_hashes) == 0, is_pow2(block_count + len(result)) and block_count + len(result) < 2 * block_count)"),
               ("C02", "later_short_piece_is_padded_to_a_full_piece",
                "implies(len(self.layer_hashes) > 0, block_count + len(result) == self.amount)")],
      notes="same rule as FileHasher._pad_remaining")

    C("torrentfile.hasher.HasherHybrid._calculate_root",
      props=["C02", "C03", "C10"],
      params={"self": HHY},
      requires=["self.amount >= 1 and is_pow2(self.amount)"],
      modifies=["self.piece_layer", "self.layer_hashes", "self.root"],
      ensures=_calc_root_ensures("self.amount"),
      notes="with L2 (merkle decomposition, Lean) this is the BEP 52 root over all 16 KiB leaves padded with zero hashes")

    HP = f"hybrid_pieces({S0}, self.piece_length, self.pad)"
    C("torrentfile.hasher.HasherHybrid.process_file",
      props=["C02", "C03", "C10"],
      params={"self": HHY, "data": "file"},
      fork_checks=True,
      exists={"np": "int"},
      merge_ifs=False,
      shards=6,
      requires=["self.piece_length >= 16384 and is_pow2(self.piece_length)", "self.amount * 16384 == self.piece_length",
                "self.amount >= 1 and is_pow2(self.amount)", "file_open(data)", "len(self.layer_hashes) == 0", "len(self.pieces) == 0",
                "len(file_tail(data)) > 0"],
      modifies=["data", "self.layer_hashes", "self.piece_layer", "self.root", "self.pieces", "self.padding_file"],
      ensures=[(p_, l_, e_.replace("(fd)", "(data)")) for p_, l_, e_ in _whole_file_ensures("self.amount")] + [
          ("C03", "v1_pieces_are_sha1_of_each_piece_zero_extended_only_when_padding_is_declared",
           f"self.pieces == {HP}".replace("(fd)", "(data)")),
          ("C03", "padding_entry_describes_exactly_the_zero_extension_of_the_last_piece",
           "with_lemma(mod_witness(len(old(file_tail(data))), self.piece_length, np - 1) and mod_witness(len(old(file_tail(data))), self.piece_length, np), implies(self.pad and len(old(file_tail(data))) % self.piece_length != 0, "
           "is_dict(self.padding_file) and len(self.padding_file) == 3 and self.padding_file['attr'] == 'p' and "
           "self.padding_file['length'] == self.piece_length - len(old(file_tail(data))) % self.piece_length))"),
          ("C03", "no_padding_entry_otherwise",
           "with_lemma(mod_witness(len(old(file_tail(data))), self.piece_length, np - 1) and mod_witness(len(old(file_tail(data))), self.piece_length, np), implies(not self.pad or len(old(file_tail(data))) % self.piece_length == 0, self.padding_file == old(self.padding_file)))"),
      ],
      loops={0: {"ghost_init": {"P": "b''", "np": "0"},
                 "ghost_step": {"P": "P + D", "np": "np + 1"},
                 "lemmas_after_body": ["proots_step(P, D, len(blocks) - len(leaves(D)), self.amount, np)",
                                       "hpieces_step(P, D, self.piece_length, self.pad, np)"],
                 "modifies": ["data", "self.layer_hashes", "self.pieces", "self.padding_file"],
                 "invariant": [
                     ("stream", "P + file_tail(data) == old(file_tail(data))"),
                     ("piece_aligned_until_eof", "np >= 0 and (len(P) == np * self.piece_length or file_at_eof(data))"),
                     ("layer_hashes_are_the_piece_roots", "self.layer_hashes == piece_roots(P, self.amount)"),
                     ("pieces_are_the_v1_pieces", "self.pieces == hybrid_pieces(P, self.piece_length, self.pad)"),
                     ("padding_entry", "implies(self.pad and len(P) != np * self.piece_length, is_dict(self.padding_file) and "
                                       "len(self.padding_file) == 3 and self.padding_file['attr'] == 'p' and "
                                       "self.padding_file['length'] == np * self.piece_length - len(P)) and "
                                       "implies(not self.pad or len(P) == np * self.piece_length, self.padding_file == old(self.padding_file))"),
                     ("np_counts_the_pieces", "(np == 0 and len(P) == 0) or (np >= 1 and (np - 1) * self.piece_length < len(P) <= np * self.piece_length)"),
                     ("frame", "file_open(data) and self.amount == old(self.amount) and self.piece_length == old(self.piece_length) "
                               "and self.pad == old(self.pad)"),
                 ]},
             1: {"index": "_i1",
                 "ghost_init": {"D": "b''"},
                 "ghost_step": {"D": "D + last_read()"},
                 "lemmas_after_body": ["leaves_step(D, last_read())"],
                 "invariant": [(l_, e_.replace("(fd)", "(data)")) for l_, e_ in _inner_invariants("_i1", "amount", " and self.pad == old(self.pad)")] + [
                     ("counters2", "plength == self.piece_length - len(D) and total == len(D)"),
                     ("hybrid_accumulator", "hash_acc(piece) == D"),
                     ("outer_state_untouched", "self.layer_hashes == piece_roots(P, self.amount) and "
                                               "self.pieces == hybrid_pieces(P, self.piece_length, self.pad)")],
                 "modifies": ["block", "data", "piece"]}},
      notes="whole file, any size: as HasherV2.process_file, plus the v1 piece of each piece (SHA-1 over the piece, zero-extended to a "
            "full piece exactly when padding is declared) and the padding entry for the short last piece")
